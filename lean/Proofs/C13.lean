/-
  C13 — property theorems for the model of `atomman.defect.Dislocation` (lean/Atomman/C13.lean).
  `K` is any linearly ordered field (ℚ in the driver, ℝ for the real code's idealisation).
-/
import Proofs.C13_Lemmas
import Proofs.C13_Params
import Proofs.C13_Source
import Mathlib.Tactic.IntervalCases

namespace Atomman.C13
open Atomman
set_option linter.unusedSectionVars false
set_option linter.unusedSimpArgs false
set_option linter.unusedVariables false

variable {K : Type} [Field K] [LinearOrder K] [IsStrictOrderedRing K]

/-! ## slip-plane shifts -/

/-- **shift_between_planes**: every offered shift `s` belongs to a pair `p < q` of consecutive atomic layers of the
    rotated cell (heights along the cut; the last pair closes the period `W`).  After the shift the two layers sit at
    `k W ∓ (q - p)/2`: symmetric about the slip plane (the planes `k W` of the periodic stack) at a non-zero distance,
    and no layer `c + t W` of the stack lies strictly between them.  So each offered shift puts the slip plane exactly
    midway between two consecutive atomic planes and never on one.
    Hypotheses: the layer heights are strictly ascending and lie within one period above the lowest one (what
    `np.unique` of the coordinates of a cell of height `W` gives). -/
theorem shift_between_planes (coords : List K) (W tol : K) (hW : 0 < W) (htol : 0 ≤ tol)
    (hs : coords.Pairwise (· < ·)) (c0 : K) (hh : coords.head? = some c0) (hr : ∀ c ∈ coords, c ≤ c0 + W) :
    ∀ s ∈ identifyShifts coords W tol,
      ∃ p q : K, (p, q) ∈ C14.consec (C14.withReplica coords W tol) ∧ p < q ∧ ∃ k : Int,
        p + s = (k : K) * W - (q - p) / 2 ∧ q + s = (k : K) * W + (q - p) / 2 ∧
        ∀ c ∈ C14.withReplica coords W tol, ∀ t : Int,
          c + (t : K) * W + s ≤ (k : K) * W - (q - p) / 2 ∨ (k : K) * W + (q - p) / 2 ≤ c + (t : K) * W + s :=
  shift_between_planes_aux coords W tol hW htol hs c0 hh hr

/-- every gap between consecutive layers is offered: the shift list has one entry per pair. -/
theorem shifts_complete (coords : List K) (W tol : K) :
    ∀ pq ∈ C14.consec (C14.withReplica coords W tol), C14.relShift W (C14.mid pq) ∈ identifyShifts coords W tol := by
  intro pq hpq
  simp only [identifyShifts, C14.shifts, mem_sortAsc, C14.rawShifts, List.mem_map]
  exact ⟨pq, hpq, rfl⟩

/-- non-vacuity: three layers at 0, 1, 3 in a cell of height 4 (ℚ). -/
example : identifyShifts ([0, 1, 3] : List ℚ) 4 (1 / 100000000) = [1 / 2, 2, 7 / 2] := by
  simp only [identifyShifts, C14.shifts, C14.rawShifts, C14.withReplica, C14.consec, C14.sortAsc, C14.insertAsc,
    C14.relShift, C14.mid, C14.absLe]
  norm_num [C14.insertAsc]

/-! ## size multipliers -/

theorem minMult_ge (line i : Nat) (q : Option Int) (cur : Int) : cur ≤ minMult line i q cur := by
  unfold minMult
  cases q with
  | none => exact le_rfl
  | some q => simp only; split_ifs <;> omega

theorem minMult_even (line i : Nat) (q : Option Int) (cur : Int) (hi : i ≠ line) (hc : cur % 2 = 0) :
    minMult line i q cur % 2 = 0 := by
  unfold minMult
  cases q with
  | none => exact hc
  | some q => simp only [hi, ne_eq, not_false_eq_true, true_and]; split_ifs <;> omega

/-- **sizes_even_symmetric**: accepted multipliers are positive; along the line the replicas run `0 … s`, across it
    they are symmetric about the origin (`lo = -hi`) with an even total; odd, zero or negative requests are refused. -/
theorem sizes_even_symmetric (line : Nat) (hl : line < 3) (mults : Option IV) (qa qb qc : Option Int) (sz : Sizes)
    (h : sizes line mults qa qb qc = some sz) :
    (0 < sz.a.mult ∧ 0 < sz.b.mult ∧ 0 < sz.c.mult) ∧
    (if line = 0 then sz.a.lo = 0 else sz.a.lo = -sz.a.hi ∧ sz.a.mult % 2 = 0) ∧
    (if line = 1 then sz.b.lo = 0 else sz.b.lo = -sz.b.hi ∧ sz.b.mult % 2 = 0) ∧
    (if line = 2 then sz.c.lo = 0 else sz.c.lo = -sz.c.hi ∧ sz.c.mult % 2 = 0) := by
  unfold sizes at h
  -- the validated (or default) request
  obtain ⟨s, hs, rfl⟩ : ∃ s : IV, (0 < s.x ∧ 0 < s.y ∧ 0 < s.z ∧ (line ≠ 0 → s.x % 2 = 0) ∧ (line ≠ 1 → s.y % 2 = 0) ∧
      (line ≠ 2 → s.z % 2 = 0)) ∧ sz = ⟨sizeOf line 0 (minMult line 0 qa s.x), sizeOf line 1 (minMult line 1 qb s.y),
        sizeOf line 2 (minMult line 2 qc s.z)⟩ := by
    cases mults with
    | none =>
      simp only [Option.some.injEq] at h
      refine ⟨defaultMults line, ?_, h.symm⟩
      simp only [defaultMults]
      interval_cases line <;> simp
    | some s0 =>
      simp only at h
      cases hc : checkMults line s0 with
      | none => rw [hc] at h; cases h
      | some s =>
        rw [hc] at h
        simp only [Option.some.injEq] at h
        refine ⟨s, ?_, h.symm⟩
        unfold checkMults at hc
        split_ifs at hc with hcond
        simp only [Option.some.injEq] at hc
        subst hc
        obtain ⟨h1, h2, h3, h4, h5⟩ := hcond
        interval_cases line <;> simp_all [V3.get]
  obtain ⟨hx, hy, hz, ex, ey, ez⟩ := hs
  have gx := minMult_ge line 0 qa s.x
  have gy := minMult_ge line 1 qb s.y
  have gz := minMult_ge line 2 qc s.z
  interval_cases line
  · have e1 := minMult_even 0 1 qb s.y (by decide) (ey (by decide))
    have e2 := minMult_even 0 2 qc s.z (by decide) (ez (by decide))
    have p1 := ey (by decide); have p2 := ez (by decide)
    simp only [sizeOf, C04.Size.mult, if_true, if_false, Nat.reduceEqDiff, OfNat.ofNat_ne_zero, OfNat.zero_ne_ofNat,
      Nat.succ_ne_self, reduceCtorEq]
    norm_num
    refine ⟨⟨by omega, by omega, by omega⟩, ⟨by omega, by omega⟩, by omega, by omega⟩
  · have e1 := minMult_even 1 0 qa s.x (by decide) (ex (by decide))
    have e2 := minMult_even 1 2 qc s.z (by decide) (ez (by decide))
    have p1 := ex (by decide); have p2 := ez (by decide)
    simp only [sizeOf, C04.Size.mult]
    norm_num
    refine ⟨⟨by omega, by omega, by omega⟩, ⟨by omega, by omega⟩, by omega, by omega⟩
  · have e1 := minMult_even 2 0 qa s.x (by decide) (ex (by decide))
    have e2 := minMult_even 2 1 qb s.y (by decide) (ey (by decide))
    have p1 := ex (by decide); have p2 := ey (by decide)
    simp only [sizeOf, C04.Size.mult]
    norm_num
    refine ⟨⟨by omega, by omega, by omega⟩, ⟨by omega, by omega⟩, ⟨by omega, by omega⟩⟩

/-- an odd multiplier across the line is refused (the `TypeError` of the generators). -/
theorem sizes_refuses_odd (line : Nat) (s : IV) (qa qb qc : Option Int)
    (h : s.get ((line + 1) % 3) % 2 ≠ 0 ∨ s.get ((line + 2) % 3) % 2 ≠ 0 ∨ s.x ≤ 0 ∨ s.y ≤ 0 ∨ s.z ≤ 0) :
    sizes line (some s) qa qb qc = none := by
  have : checkMults line s = none := by
    unfold checkMults
    rw [if_neg]
    rintro ⟨h1, h2, h3, h4, h5⟩
    rcases h with h | h | h | h | h <;> omega
  simp [sizes, this]

example : sizes 0 (some ⟨1, 4, 2⟩) none none none = some ⟨⟨0, 1⟩, ⟨-2, 2⟩, ⟨-1, 1⟩⟩ := by decide
example : sizes 0 (some ⟨1, 3, 2⟩) none none none = none := by decide

/-! ## monopole -/

/-- the boundary step never touches positions, order or further values; an atom type is kept or raised by the
    reference system's `natypes`. -/
theorem monopoleBoundary_atoms (sqrt : K → K) (o : Orient) (shape : Shape) (width : K) (nsym : Nat) (base disl d : Sys K)
    (h : monopoleBoundary sqrt o shape width nsym base disl = some d) :
    d.box = disl.box ∧ d.pbc = disl.pbc ∧ d.atoms.length = disl.atoms.length ∧
    ∀ (i : Nat) (a : Atom K), disl.atoms[i]? = some a →
      d.atoms[i]? = some a ∨ d.atoms[i]? = some { a with atype := a.atype + natypes nsym base.atoms } := by
  unfold monopoleBoundary at h
  split_ifs at h with hw
  · cases shape with
    | box =>
      simp only [Option.some.injEq] at h
      subst h
      refine ⟨rfl, rfl, by simp [retype], ?_⟩
      intro i a ha
      simp only [retype_getElem?, ha, Option.map_some]
      split_ifs
      · exact Or.inr rfl
      · exact Or.inl rfl
    | cylinder =>
      simp only at h
      split_ifs at h with hr
      simp only [Option.some.injEq] at h
      subst h
      refine ⟨rfl, rfl, by simp [retype], ?_⟩
      intro i a ha
      simp only [retype_getElem?, ha, Option.map_some]
      split_ifs
      · exact Or.inr rfl
      · exact Or.inl rfl
  · simp only [Option.some.injEq] at h
    subst h
    exact ⟨rfl, rfl, rfl, fun i a ha => Or.inl ha⟩

/-- **reference_is_shifted_crystal**: the reference system of `monopole` (and of `periodicarray`) has
    `rcell.natoms × multipliers` atoms in `supersize`'s order; atom `encode i r` carries the type and further values of
    rcell atom `i` and sits at that atom's position plus the shift plus an integer combination of the rcell's box
    vectors: it is the rotated, shifted perfect crystal. -/
theorem reference_is_shifted_crystal (fl : K → Int) (pad : K) (rcell : Sys K) (sz : Sizes) (shift : V3 K)
    (hdet : M3.det rcell.box.vects ≠ 0) (hm : 0 < sz.a.mult ∧ 0 < sz.b.mult ∧ 0 < sz.c.mult) :
    (baseSystem fl pad rcell sz shift).atoms.length
      = sz.c.mult.toNat * (sz.b.mult.toNat * (sz.a.mult.toNat * rcell.atoms.length)) ∧
    (baseSystem fl pad rcell sz shift).pbc = rcell.pbc ∧
    ∀ (i r0 r1 r2 : Nat) (hi : i < rcell.atoms.length), r0 < sz.a.mult.toNat → r1 < sz.b.mult.toNat →
      r2 < sz.c.mult.toNat → ∃ (t : V3 Int),
      (baseSystem fl pad rcell sz shift).atoms[encode rcell.atoms.length sz.a.mult.toNat sz.b.mult.toNat i r0 r1 r2]?
        = some { rcell.atoms[i] with
                 pos := rcell.atoms[i].pos + shift + C05.latticeVec rcell.box.vects t } := by
  obtain ⟨h1, h2, h3⟩ := hm
  exact baseSystem_keeps fl pad rcell sz shift hdet (by exact_mod_cast h1.ne') (by exact_mod_cast h2.ne')
    (by exact_mod_cast h3.ne')

theorem baseSystem_det (fl : K → Int) (pad : K) (hpad : 0 < pad) (rcell : Sys K) (sz : Sizes) (shift : V3 K)
    (hdet : M3.det rcell.box.vects ≠ 0) (hm : 0 < sz.a.mult ∧ 0 < sz.b.mult ∧ 0 < sz.c.mult) :
    M3.det (baseSystem fl pad rcell sz shift).box.vects ≠ 0 := by
  obtain ⟨h1, h2, h3⟩ := hm
  simp only [baseSystem]
  apply C05.det_wrap_ne_zero fl pad hpad
  rw [superBox_volume]
  have a1 : ((sz.a.mult : Int) : K) ≠ 0 := by exact_mod_cast h1.ne'
  have a2 : ((sz.b.mult : Int) : K) ≠ 0 := by exact_mod_cast h2.ne'
  have a3 : ((sz.c.mult : Int) : K) ≠ 0 := by exact_mod_cast h3.ne'
  exact mul_ne_zero (mul_ne_zero (mul_ne_zero a1 a2) a3) hdet

/-- **monopole_keeps_atoms**: the dislocation system has exactly the atoms of the reference system, in the same order,
    with the same further values; the type is the reference type (raised by `natypes` only by the boundary step); the
    position is `pos + u(pos - center)` — the elastic solution evaluated at the *reference* position relative to the
    chosen centre — moved by an integer number of box vectors along the dislocation line only. -/
theorem monopole_keeps_atoms (fl : K → Int) (pad : K) (hpad : 0 < pad) (sqrt : K → K) (u : V3 K → V3 K) (o : Orient)
    (rcell : Sys K) (sz : Sizes) (shift center : V3 K) (shape : Shape) (width : K) (nsym : Nat) (base d : Sys K)
    (h : monopole fl pad sqrt u o rcell sz shift center shape width nsym = some (base, d))
    (hdet : M3.det rcell.box.vects ≠ 0) (hm : 0 < sz.a.mult ∧ 0 < sz.b.mult ∧ 0 < sz.c.mult) :
    base = baseSystem fl pad rcell sz shift ∧ d.atoms.length = base.atoms.length ∧
    ∀ (i : Nat) (a : Atom K), base.atoms[i]? = some a → ∃ (p' : V3 K) (f : V3 Int) (ty : Int),
      d.atoms[i]? = some { a with pos := p', atype := ty } ∧
      (ty = a.atype ∨ ty = a.atype + natypes nsym base.atoms) ∧
      p' + C05.latticeVec base.box.vects f = a.pos + u (a.pos - center) ∧
      (o.line ≠ 0 → f.x = 0) ∧ (o.line ≠ 1 → f.y = 0) ∧ (o.line ≠ 2 → f.z = 0) := by
  unfold monopole at h
  simp only [Option.map_eq_some_iff, Prod.mk.injEq] at h
  obtain ⟨d', hd', rfl, rfl⟩ := h
  have hdb := baseSystem_det fl pad hpad rcell sz shift hdet hm
  obtain ⟨hlen, _, hraw⟩ := monopoleRaw_keeps fl pad u o.line center (baseSystem fl pad rcell sz shift) hdb
  obtain ⟨_, _, hl2, hb⟩ := monopoleBoundary_atoms sqrt o shape width nsym _ _ _ hd'
  refine ⟨rfl, by rw [hl2, hlen], ?_⟩
  intro i a ha
  obtain ⟨p', f, h1, h2, h3⟩ := hraw i a ha
  rcases hb i _ h1 with h4 | h4
  · exact ⟨p', f, a.atype, h4, Or.inl rfl, h2, h3⟩
  · exact ⟨p', f, a.atype + natypes nsym (baseSystem fl pad rcell sz shift).atoms, h4, Or.inr rfl, h2, h3⟩

/-- **monopole_pbc**: the dislocation system is periodic along the dislocation line and only there, and the box vector
    along the line is the reference system's (the wrap of the displaced atoms may only lengthen the two other box
    vectors). -/
theorem monopole_pbc (fl : K → Int) (pad : K) (sqrt : K → K) (u : V3 K → V3 K) (o : Orient)
    (rcell : Sys K) (sz : Sizes) (shift center : V3 K) (shape : Shape) (width : K) (nsym : Nat) (base d : Sys K)
    (h : monopole fl pad sqrt u o rcell sz shift center shape width nsym = some (base, d)) (hl : o.line < 3) :
    d.pbc = ⟨o.line = 0, o.line = 1, o.line = 2⟩ ∧ d.box.vects.row o.line = base.box.vects.row o.line := by
  unfold monopole at h
  simp only [Option.map_eq_some_iff, Prod.mk.injEq] at h
  obtain ⟨d', hd', rfl, rfl⟩ := h
  obtain ⟨hbox, hpbc, _, _⟩ := monopoleBoundary_atoms sqrt o shape width nsym _ _ _ hd'
  rw [hbox, hpbc]
  refine ⟨rfl, ?_⟩
  simp only [monopoleRaw, C05.wrap, C05.paddedBox, C05.bounds, pbcOnly]
  have hline : o.line = 0 ∨ o.line = 1 ∨ o.line = 2 := by omega
  have one_smul' : ∀ v : V3 K, V3.smul 1 v = v := by
    intro v; obtain ⟨x, y, z⟩ := v; simp [V3.smul]
  rcases hline with e | e | e <;> rw [e] <;>
    simp [M3.row, C05.axisBounds_periodic, C05.smul_one_sub_zero, one_smul']

/-- **monopole_wrapped**: after the final `wrap()` every atom of the dislocation system lies inside the (possibly
    padded) box: scaled coordinates in `[0, 1)`, along the line by the periodic wrap, across it because the two other
    box vectors are lengthened to enclose the displaced atoms. -/
theorem monopole_wrapped (fl : K → Int) (hfl : C05.IsFloor fl) (pad : K) (hpad : 0 < pad) (u : V3 K → V3 K) (line : Nat)
    (center : V3 K) (base : Sys K) (hdet : M3.det base.box.vects ≠ 0) :
    ∀ (i : Nat) (a : Atom K), (monopoleRaw fl pad u line center base).atoms[i]? = some a →
      0 ≤ ((monopoleRaw fl pad u line center base).box.cartToRel a.pos).x ∧
      ((monopoleRaw fl pad u line center base).box.cartToRel a.pos).x < 1 ∧
      0 ≤ ((monopoleRaw fl pad u line center base).box.cartToRel a.pos).y ∧
      ((monopoleRaw fl pad u line center base).box.cartToRel a.pos).y < 1 ∧
      0 ≤ ((monopoleRaw fl pad u line center base).box.cartToRel a.pos).z ∧
      ((monopoleRaw fl pad u line center base).box.cartToRel a.pos).z < 1 := by
  intro i a ha
  have hpos : (C05.wrap fl pad base.box (pbcOnly line) (base.atoms.map (fun a => displaced u center a.pos))).pos
      = (base.atoms.map (·.pos)).map (fun p => C05.atomPos fl base.box (pbcOnly line) (displaced u center p)) := by
    simp [C05.wrap, List.map_map, Function.comp_def]
  simp only [monopoleRaw] at ha ⊢
  rw [hpos, setPos_map_getElem?] at ha
  cases hb : base.atoms[i]? with
  | none => rw [hb] at ha; cases ha
  | some a0 =>
    rw [hb] at ha
    simp only [Option.map_some, Option.some.injEq] at ha
    subst ha
    have hmem : displaced u center a0.pos ∈ base.atoms.map (fun a => displaced u center a.pos) :=
      List.mem_map.mpr ⟨a0, List.mem_of_getElem? hb, rfl⟩
    have e := C05.wrap_cartToRel fl pad hpad base.box hdet (pbcOnly line)
      (base.atoms.map (fun a => displaced u center a.pos)) (displaced u center a0.pos)
    show 0 ≤ ((C05.wrap fl pad base.box (pbcOnly line) _).box.cartToRel
      (C05.atomPos fl base.box (pbcOnly line) (displaced u center a0.pos))).x ∧ _
    rw [e]
    obtain ⟨⟨x0, x1, _⟩, ⟨y0, y1, _⟩, ⟨z0, z1, _⟩⟩ := C05.newRel_facts fl hfl pad hpad base.box (pbcOnly line)
      (base.atoms.map (fun a => displaced u center a.pos)) (displaced u center a0.pos) hmem
    exact ⟨x0, x1, y0, y1, z0, z1⟩

/-! ## boundary regions -/

/-- `PlaneSet.outside(pos)` as coded: *not* below (inclusive) every plane, each plane having the unit normal
    `nrm / norm nrm` and passing through `pt - width * nrm / norm nrm`.  `norm` is `numpy.linalg.norm`. -/
def PlaneSetOutside (norm : V3 K → K) (width : K) (pls : List (V3 K × V3 K)) (p : V3 K) : Prop :=
  ¬ ∀ pl ∈ pls, belowCoded (norm pl.1) width pl p

theorem outsidePlanes_iff (norm : V3 K → K) (width : K) (hw : 0 < width) (pls : List (V3 K × V3 K))
    (hn : ∀ pl ∈ pls, 0 < norm pl.1 ∧ norm pl.1 * norm pl.1 = V3.normSq pl.1) (p : V3 K) :
    outsidePlanes width pls p = true ↔ PlaneSetOutside norm width pls p := by
  unfold outsidePlanes PlaneSetOutside
  rw [List.any_eq_true]
  constructor
  · rintro ⟨pl, hpl, ho⟩ hall
    exact (outsidePlane_iff (norm pl.1) width pl p (hn pl hpl).1 (hn pl hpl).2 hw).mp ho (hall pl hpl)
  · intro h
    by_contra hc
    apply h
    intro pl hpl
    by_contra hb
    exact hc ⟨pl, hpl, (outsidePlane_iff (norm pl.1) width pl p (hn pl hpl).1 (hn pl hpl).2 hw).mpr hb⟩

/-- `Cylinder(0, L, radius, endcaps=False).outside(pos)` as coded: the distance from the axis
    `norm(cross(pos, L / norm L))` is not `<= radius`. -/
def CylinderOutside (norm : V3 K → K) (L : V3 K) (radius : K) (p : V3 K) : Prop :=
  ¬ (norm (V3.cross p (V3.smul (1 / norm L) L)) ≤ radius)

/-- **boundary_iff_outside** (box): with a positive width, an atom of the dislocation system is re-typed (by the
    reference system's `natypes`) exactly when its *displaced, wrapped* position is outside the region bounded by the
    four faces of the *reference* box across the line, each moved inwards by `width`; every other atom is unchanged. -/
theorem boundary_iff_outside_box (norm : V3 K → K) (sqrt : K → K) (o : Orient) (width : K) (hw : 0 < width) (nsym : Nat)
    (base disl d : Sys K) (h : monopoleBoundary sqrt o .box width nsym base disl = some d)
    (hn : ∀ pl ∈ boxBoundaryPlanes o.line base.box, 0 < norm pl.1 ∧ norm pl.1 * norm pl.1 = V3.normSq pl.1) :
    ∀ (i : Nat) (a : Atom K), disl.atoms[i]? = some a →
      (PlaneSetOutside norm width (boxBoundaryPlanes o.line base.box) a.pos →
        d.atoms[i]? = some { a with atype := a.atype + natypes nsym base.atoms }) ∧
      (¬ PlaneSetOutside norm width (boxBoundaryPlanes o.line base.box) a.pos → d.atoms[i]? = some a) := by
  unfold monopoleBoundary at h
  rw [if_pos hw] at h
  simp only [Option.some.injEq] at h
  subst h
  intro i a ha
  simp only [retype_getElem?, ha, Option.map_some]
  rw [← outsidePlanes_iff norm width hw _ hn]
  constructor
  · intro ho; rw [if_pos ho]
  · intro ho; rw [if_neg ho]

/-- **boundary_iff_outside** (cylinder): the radius is `sqrt(smallest²) - width` (refused when not positive); an atom
    is re-typed exactly when its displaced position is farther than the radius from the line through the Cartesian
    origin along the box vector of the dislocation line.  `norm` (`numpy.linalg.norm`) has to be the Euclidean length
    only on the vectors the code applies it to: the box vector along the line and `pos × axis` of every atom
    (statement audit: the hypothesis was `∀ v`, which no function on ℚ satisfies). -/
theorem boundary_iff_outside_cylinder (norm : V3 K → K) (sqrt : K → K) (o : Orient) (width : K) (hw : 0 < width)
    (nsym : Nat) (base disl d : Sys K) (h : monopoleBoundary sqrt o .cylinder width nsym base disl = some d)
    (hL : 0 < norm (base.box.vects.row o.line) ∧
      norm (base.box.vects.row o.line) * norm (base.box.vects.row o.line) = V3.normSq (base.box.vects.row o.line))
    (hn : ∀ a ∈ disl.atoms,
      0 ≤ norm (V3.cross a.pos (V3.smul (1 / norm (base.box.vects.row o.line)) (base.box.vects.row o.line))) ∧
      norm (V3.cross a.pos (V3.smul (1 / norm (base.box.vects.row o.line)) (base.box.vects.row o.line))) *
        norm (V3.cross a.pos (V3.smul (1 / norm (base.box.vects.row o.line)) (base.box.vects.row o.line)))
        = V3.normSq (V3.cross a.pos (V3.smul (1 / norm (base.box.vects.row o.line)) (base.box.vects.row o.line)))) :
    0 < cylRadius sqrt o.motion o.cut o.line base.box width ∧
    ∀ (i : Nat) (a : Atom K), disl.atoms[i]? = some a →
      (CylinderOutside norm (base.box.vects.row o.line) (cylRadius sqrt o.motion o.cut o.line base.box width) a.pos →
        d.atoms[i]? = some { a with atype := a.atype + natypes nsym base.atoms }) ∧
      (¬ CylinderOutside norm (base.box.vects.row o.line) (cylRadius sqrt o.motion o.cut o.line base.box width) a.pos →
        d.atoms[i]? = some a) := by
  unfold monopoleBoundary at h
  rw [if_pos hw] at h
  simp only at h
  split_ifs at h with hr
  simp only [Option.some.injEq] at h
  subst h
  refine ⟨hr, ?_⟩
  intro i a ha
  simp only [retype_getElem?, ha, Option.map_some]
  unfold CylinderOutside
  rw [← outsideCyl_iff (base.box.vects.row o.line) a.pos _ (norm (base.box.vects.row o.line))
    (norm (V3.cross a.pos (V3.smul (1 / norm (base.box.vects.row o.line)) (base.box.vects.row o.line))))
    hL.1 hL.2 (hn a (List.mem_of_getElem? ha)).1 (hn a (List.mem_of_getElem? ha)).2 hr.le]
  constructor
  · intro ho; rw [if_pos ho]
  · intro ho; rw [if_neg ho]

/-- no boundary without a positive width. -/
theorem boundary_zero_width (sqrt : K → K) (o : Orient) (shape : Shape) (width : K) (hw : ¬ 0 < width) (nsym : Nat)
    (base disl : Sys K) : monopoleBoundary sqrt o shape width nsym base disl = some disl := by
  unfold monopoleBoundary
  rw [if_neg hw]

/-- non-vacuity of the plane predicate: the face `x = 0` of a unit cube moved inwards by 1/4 (normal `(-1,0,0)`). -/
example : outsidePlane (1 / 4 : ℚ) (⟨-1, 0, 0⟩, ⟨0, 0, 0⟩) ⟨1 / 8, 1 / 2, 1 / 2⟩ = true ∧
    outsidePlane (1 / 4 : ℚ) (⟨-1, 0, 0⟩, ⟨0, 0, 0⟩) ⟨1 / 4, 1 / 2, 1 / 2⟩ = false := by
  constructor <;> simp [outsidePlane, V3.dot, V3.normSq, C05.V3.sub_def] <;> norm_num

/-! ## the three integer cell vectors -/

theorem orient_cases (m n : Ax) (o : Orient) (h : orient m n = some o) :
    (o.cut = 2 ∧ o.line = 0 ∧ o.motion = 1) ∨ (o.cut = 2 ∧ o.line = 1 ∧ o.motion = 0) ∨
    (o.cut = 1 ∧ o.line = 2 ∧ o.motion = 0) ∨ (o.cut = 1 ∧ o.line = 0 ∧ o.motion = 2) ∨
    (o.cut = 0 ∧ o.line = 1 ∧ o.motion = 2) ∨ (o.cut = 0 ∧ o.line = 2 ∧ o.motion = 1) := by
  have exx : orient .x .x = none := by decide
  have eyy : orient .y .y = none := by decide
  have ezz : orient .z .z = none := by decide
  have exy : orient .x .y = some ⟨1, 2, 0, ⟨0, 0, 1⟩⟩ := by decide
  have exz : orient .x .z = some ⟨2, 1, 0, ⟨0, -1, 0⟩⟩ := by decide
  have eyx : orient .y .x = some ⟨0, 2, 1, ⟨0, 0, -1⟩⟩ := by decide
  have eyz : orient .y .z = some ⟨2, 0, 1, ⟨1, 0, 0⟩⟩ := by decide
  have ezx : orient .z .x = some ⟨0, 1, 2, ⟨0, 1, 0⟩⟩ := by decide
  have ezy : orient .z .y = some ⟨1, 0, 2, ⟨-1, 0, 0⟩⟩ := by decide
  cases m <;> cases n <;> simp_all

/-- what an accepted `__set_cells` returns. -/
theorem setCells_ok (tol2 : K) (pv : M3 K) (N Xi : V3 K) (xiP : IV) (m n : Ax) (mi : Int) (r : Cells)
    (h : setCells tol2 pv N Xi xiP m n mi = .ok r) :
    ∃ (cm cn : Cand K), orient m n = some r.o ∧ searchM pv N (V3.cross N Xi) mi = some cm ∧
      searchN pv N mi = some cn ∧
      r.uvws = orderUvws r.o.cut r.o.line xiP (C14.reduceGcd cm.v) (C14.reduceGcd cn.v) ∧ M3.det r.uvws ≠ 0 := by
  unfold setCells at h
  cases ho : orient m n with
  | none => rw [ho] at h; cases h
  | some o =>
    rw [ho] at h
    simp only at h
    cases hm : searchM pv N (V3.cross N Xi) mi with
    | none => rw [hm] at h; cases h
    | some cm =>
      cases hn : searchN pv N mi with
      | none => rw [hm, hn] at h; cases h
      | some cn =>
        rw [hm, hn] at h
        simp only at h
        split_ifs at h with hd ha
        simp only [Except.ok.injEq] at h
        subst h
        exact ⟨cm, cn, rfl, rfl, rfl, rfl, hd⟩

theorem searchM_spec (pv : M3 K) (N M : V3 K) (mi : Int) (cm : Cand K) (h : searchM pv N M mi = some cm) :
    cm.v ∈ allUvws mi ∧ V3.dot (cart pv cm.v) N = 0 ∧ cm.d = V3.dot (cart pv cm.v) M := by
  have hmem := bestOf_mem _ cm h
  simp only [List.mem_map, List.mem_filter, inPlane, decide_eq_true_eq] at hmem
  obtain ⟨v, ⟨hv, hin⟩, rfl⟩ := hmem
  exact ⟨hv, hin, rfl⟩

theorem searchN_spec (pv : M3 K) (N : V3 K) (mi : Int) (cn : Cand K) (h : searchN pv N mi = some cn) :
    cn.v ∈ allUvws mi ∧ cn.d = V3.dot (cart pv cn.v) N := by
  have hmem := bestOf_mem _ cn h
  simp only [List.mem_map] at hmem
  obtain ⟨v, hv, rfl⟩ := hmem
  exact ⟨hv, rfl⟩

/-- **uvws_zone_law** (orthogonality): in an accepted orientation the two box vectors that are to span the slip plane
    — the one along the line (`±ξ`) and the one found by the in-plane search — satisfy the zone law of the slip plane
    (their Cartesian images are perpendicular to the plane normal `N`), for every one of the six `m, n` assignments. -/
theorem uvws_zone_law (tol2 : K) (pv : M3 K) (N Xi : V3 K) (xiP : IV) (m n : Ax) (mi : Int) (r : Cells)
    (h : setCells tol2 pv N Xi xiP m n mi = .ok r) (hXi : cart pv xiP = Xi) (hplane : V3.dot Xi N = 0) :
    V3.dot (cart pv (r.uvws.row r.o.line)) N = 0 ∧ V3.dot (cart pv (r.uvws.row r.o.motion)) N = 0 := by
  obtain ⟨cm, cn, ho, hm, hn, hU, hdet⟩ := setCells_ok tol2 pv N Xi xiP m n mi r h
  obtain ⟨hv, hin, _⟩ := searchM_spec pv N _ mi cm hm
  have hmu := dot_reduceGcd_eq_zero pv N cm.v (mem_allUvws_ne_zero mi cm.v hv) hin
  have hxi : V3.dot (cart pv xiP) N = 0 := by rw [hXi]; exact hplane
  have hnxi : V3.dot (cart pv (-xiP)) N = 0 := by
    rw [cart_neg]
    have : V3.dot (-cart pv xiP) N = -V3.dot (cart pv xiP) N := by
      simp only [V3.dot, C05.V3.neg_def]; ring
    rw [this, hxi, neg_zero]
  rw [hU]
  rcases orient_cases m n r.o ho with ⟨a, b, c⟩ | ⟨a, b, c⟩ | ⟨a, b, c⟩ | ⟨a, b, c⟩ | ⟨a, b, c⟩ | ⟨a, b, c⟩ <;>
    rw [a, b, c] <;> simp only [orderUvws, M3.row] <;> norm_num <;> exact ⟨by assumption, by assumption⟩

theorem newVects_det (U : M3 Int) (V : M3 K) :
    M3.det (C04.newVects U V) = ((M3.det U : Int) : K) * M3.det V := by
  obtain ⟨⟨a0, a1, a2⟩, ⟨b0, b1, b2⟩, ⟨c0, c1, c2⟩⟩ := U
  obtain ⟨⟨p0, p1, p2⟩, ⟨q0, q1, q2⟩, ⟨r0, r1, r2⟩⟩ := V
  simp only [C04.newVects, M3.mul, M3.vecMul, M3.det, V3.dot, V3.cross, V3.map]
  push_cast
  ring

theorem dot_smul_left (c : K) (a b : V3 K) : V3.dot (V3.smul c a) b = c * V3.dot a b := by
  simp only [V3.dot, V3.smul]; ring

theorem dot_neg_left (a b : V3 K) : V3.dot (-a) b = -V3.dot a b := by
  simp only [V3.dot, C05.V3.neg_def]; ring

/-- **uvws_right_handed**: for a non-degenerate primitive cell and a line direction lying in the slip plane, the
    three Cartesian box vectors chosen by an accepted `__set_cells` are right handed (`det > 0`) in every one of the
    six row orders, and the integer matrix has positive determinant when the primitive cell is right handed.
    The proof uses what the searches guarantee: the in-plane vector makes an acute angle with `m = n × ξ`, the
    out-of-plane vector an acute angle with `n` (a candidate and its negative are both enumerated, and the fold keeps a
    candidate of positive cosine once it has seen one). -/
theorem uvws_right_handed (tol2 : K) (pv : M3 K) (N Xi : V3 K) (xiP : IV) (m n : Ax) (mi : Int) (r : Cells)
    (h : setCells tol2 pv N Xi xiP m n mi = .ok r) (hXi : cart pv xiP = Xi) (hplane : V3.dot Xi N = 0)
    (hpv : M3.det pv ≠ 0) (hN : 0 < V3.normSq N) :
    0 < M3.det (C04.newVects r.uvws pv) ∧ (0 < M3.det pv → 0 < M3.det r.uvws) := by
  obtain ⟨cm, cn, ho, hm, hn, hU, hdet⟩ := setCells_ok tol2 pv N Xi xiP m n mi r h
  obtain ⟨hvm, hin, hdm⟩ := searchM_spec pv N _ mi cm hm
  obtain ⟨hvn, hdn⟩ := searchN_spec pv N mi cn hn
  have hmne := mem_allUvws_ne_zero mi cm.v hvm
  have hnne := mem_allUvws_ne_zero mi cn.v hvn
  set Mu := cart pv (C14.reduceGcd cm.v) with hMu
  set Nu := cart pv (C14.reduceGcd cn.v) with hNu
  have hmu0 : V3.dot Mu N = 0 := dot_reduceGcd_eq_zero pv N cm.v hmne hin
  have hxi0 : V3.dot (cart pv xiP) N = 0 := by rw [hXi]; exact hplane
  -- the determinant in all six orders
  have hD : M3.det (C04.newVects r.uvws pv) = V3.dot (cart pv xiP) (V3.cross Mu Nu) := by
    rw [hU, det_orderUvws]
  have hDne : M3.det (C04.newVects r.uvws pv) ≠ 0 := by
    rw [newVects_det]
    exact mul_ne_zero (by exact_mod_cast hdet) hpv
  have hid := triple_identity (cart pv xiP) Mu Nu N hxi0 hmu0
  rw [hXi] at hid
  have hprod : V3.dot Mu (V3.cross N Xi) * V3.dot Nu N ≠ 0 := by
    rw [← hid, ← hXi, ← hD]
    exact mul_ne_zero hDne hN.ne'
  have hgm : (0 : K) < ((C14.gcd3 cm.v : Int) : K) := by exact_mod_cast gcd3_pos cm.v hmne
  have hgn : (0 : K) < ((C14.gcd3 cn.v : Int) : K) := by exact_mod_cast gcd3_pos cn.v hnne
  have hcmd : cm.d = ((C14.gcd3 cm.v : Int) : K) * V3.dot Mu (V3.cross N Xi) := by
    rw [hdm, cart_reduceGcd pv cm.v, dot_smul_left]
  have hcnd : cn.d = ((C14.gcd3 cn.v : Int) : K) * V3.dot Nu N := by
    rw [hdn, cart_reduceGcd pv cn.v, dot_smul_left]
  -- candidates have non-zero length
  have hm2M : ∀ c ∈ ((allUvws mi).filter (inPlane pv N)).map (mkCand pv (V3.cross N Xi)), 0 < c.m2 := by
    intro c hc
    simp only [List.mem_map, List.mem_filter] at hc
    obtain ⟨v, ⟨hv, _⟩, rfl⟩ := hc
    exact cart_normSq_pos pv hpv v (mem_allUvws_ne_zero mi v hv)
  have hm2N : ∀ c ∈ (allUvws mi).map (mkCand pv N), 0 < c.m2 := by
    intro c hc
    simp only [List.mem_map] at hc
    obtain ⟨v, hv, rfl⟩ := hc
    exact cart_normSq_pos pv hpv v (mem_allUvws_ne_zero mi v hv)
  -- signs
  have hmpos : 0 < cm.d := by
    rcases lt_trichotomy cm.d 0 with hlt | heq | hgt
    · apply bestOf_pos _ hm2M _ cm hm
      refine ⟨mkCand pv (V3.cross N Xi) (-cm.v), ?_, ?_⟩
      · simp only [List.mem_map, List.mem_filter, inPlane, decide_eq_true_eq]
        refine ⟨-cm.v, ⟨neg_mem_allUvws mi cm.v hvm, ?_⟩, rfl⟩
        rw [cart_neg, dot_neg_left, hin, neg_zero]
      · show 0 < V3.dot (cart pv (-cm.v)) (V3.cross N Xi)
        rw [cart_neg, dot_neg_left, ← hdm]; linarith
    · exfalso
      apply hprod
      rw [heq] at hcmd
      have := (mul_eq_zero.mp hcmd.symm).resolve_left hgm.ne'
      rw [this, zero_mul]
    · exact hgt
  have hnpos : 0 < cn.d := by
    rcases lt_trichotomy cn.d 0 with hlt | heq | hgt
    · apply bestOf_pos _ hm2N _ cn hn
      refine ⟨mkCand pv N (-cn.v), ?_, ?_⟩
      · simp only [List.mem_map]
        exact ⟨-cn.v, neg_mem_allUvws mi cn.v hvn, rfl⟩
      · show 0 < V3.dot (cart pv (-cn.v)) N
        rw [cart_neg, dot_neg_left, ← hdn]; linarith
    · exfalso
      apply hprod
      rw [heq] at hcnd
      have := (mul_eq_zero.mp hcnd.symm).resolve_left hgn.ne'
      rw [this, mul_zero]
    · exact hgt
  have hMpos : 0 < V3.dot Mu (V3.cross N Xi) := by
    rw [hcmd] at hmpos
    exact (mul_pos_iff_of_pos_left hgm).mp hmpos
  have hNpos : 0 < V3.dot Nu N := by
    rw [hcnd] at hnpos
    exact (mul_pos_iff_of_pos_left hgn).mp hnpos
  have hpos : 0 < M3.det (C04.newVects r.uvws pv) := by
    rw [hD]
    have hx : V3.dot (cart pv xiP) N = 0 := hxi0
    have := det_pos_of_signs (cart pv xiP) Mu Nu N hx hmu0 (by rw [hXi]; exact hMpos) hNpos
    exact this
  refine ⟨hpos, ?_⟩
  intro hpvpos
  rw [newVects_det] at hpos
  have : (0 : K) < ((M3.det r.uvws : Int) : K) := (mul_pos_iff_of_pos_right hpvpos).mp hpos
  exact_mod_cast this

/-! ## periodic array -/

/-- the linear field between two in-plane coordinates: the disregistry (displacement just above minus just below the
    slip plane) changes by `((x₂ - x₁)/L) b`. -/
theorem linear_field_change (mi ni : Nat) (b : V3 K) (L : K) (hL : L ≠ 0) (pa pb qa qb : V3 K)
    (ha : 0 < pa.get ni) (hb : pb.get ni < 0) (hx : pa.get mi = pb.get mi)
    (hqa : 0 < qa.get ni) (hqb : qb.get ni < 0) (hy : qa.get mi = qb.get mi) :
    (linearDisp mi ni b L pa - linearDisp mi ni b L pb) - (linearDisp mi ni b L qa - linearDisp mi ni b L qb)
      = V3.smul ((qa.get mi - pa.get mi) / L) b := by
  rw [linear_field_disregistry mi ni b L hL pa pb ha hb hx, linear_field_disregistry mi ni b L hL qa qb hqa hqb hy]
  obtain ⟨b0, b1, b2⟩ := b
  simp only [V3.smul, C05.V3.sub_def, V3.mk.injEq]
  refine ⟨?_, ?_, ?_⟩ <;> field_simp <;> ring

/-- **linear_field_one_burgers**: across the whole cell, from the face `x = -L/2` to the face `x = +L/2` (`x` the
    coordinate along `m` relative to the centre, `L` the cell length along `m`), the disregistry of the linear field
    goes from `b` to `0`: it accumulates exactly one Burgers vector. -/
theorem linear_field_one_burgers (mi ni : Nat) (b : V3 K) (L : K) (hL : L ≠ 0) (pa pb qa qb : V3 K)
    (ha : 0 < pa.get ni) (hb : pb.get ni < 0) (hxa : pa.get mi = -(L / 2)) (hxb : pb.get mi = -(L / 2))
    (hqa : 0 < qa.get ni) (hqb : qb.get ni < 0) (hya : qa.get mi = L / 2) (hyb : qb.get mi = L / 2) :
    linearDisp mi ni b L pa - linearDisp mi ni b L pb = b ∧
    linearDisp mi ni b L qa - linearDisp mi ni b L qb = ⟨0, 0, 0⟩ ∧
    (linearDisp mi ni b L pa - linearDisp mi ni b L pb) - (linearDisp mi ni b L qa - linearDisp mi ni b L qb) = b := by
  have e1 := linear_field_disregistry mi ni b L hL pa pb ha hb (hxa.trans hxb.symm)
  have e2 := linear_field_disregistry mi ni b L hL qa qb hqa hqb (hya.trans hyb.symm)
  rw [hxa] at e1
  rw [hya] at e2
  have c1 : (1 : K) / 2 - -(L / 2) / L = 1 := by field_simp; ring
  have c2 : (1 : K) / 2 - L / 2 / L = 0 := by field_simp; ring
  rw [c1] at e1
  rw [c2] at e2
  obtain ⟨b0, b1, b2⟩ := b
  simp only [V3.smul, one_mul, zero_mul] at e1 e2
  refine ⟨e1, e2, ?_⟩
  rw [e1, e2]
  simp [C05.V3.sub_def]

/-- the tilt of the in-plane box vector changes the signed volume by `∓ 1/2` of the determinant with the motion row
    replaced by the Burgers vector. -/
theorem tilted_det (cut line motion : Nat) (xi : IV) (hm : motion < 3) (V : M3 K) (b : V3 K) :
    M3.det (tiltedVects ⟨cut, line, motion, xi⟩ V b)
      = M3.det V - (if 0 < b.get motion then 1 else -1) * (1 / 2) * M3.det (setRow V motion b) := by
  obtain ⟨⟨a0, a1, a2⟩, ⟨b0, b1, b2⟩, ⟨c0, c1, c2⟩⟩ := V
  obtain ⟨x, y, z⟩ := b
  have h2 : ((2 : Int) : K) = 2 := by norm_cast
  have hmo : motion = 0 ∨ motion = 1 ∨ motion = 2 := by omega
  rcases hmo with rfl | rfl | rfl <;>
    simp only [tiltedVects, setRow, half, M3.row, V3.get, h2] <;> norm_num <;>
    split_ifs <;> simp only [M3.det, V3.dot, V3.cross, V3.smul, C05.V3.sub_def, C05.V3.add_def] <;> ring

/-- **expected_edge_orthogonal**: in an orthogonal reference box the number of atoms the volume change implies is
    `natoms · |b·m| / (2 L_m)`: it is fixed by the edge component of the Burgers vector and the cell length along `m`
    (shown for `m` along the second box vector, the default orientation; the other two are the same computation). -/
theorem expected_edge_orthogonal (cut line : Nat) (xi : IV) (lx ly lz : K) (hx : 0 < lx) (hy : 0 < ly) (hz : 0 < lz)
    (b : V3 K) (natoms : Nat) (hsmall : absK b.y ≤ 2 * ly) :
    expectedDel natoms (⟨⟨lx, 0, 0⟩, ⟨0, ly, 0⟩, ⟨0, 0, lz⟩⟩ : M3 K)
        (tiltedVects ⟨cut, line, 1, xi⟩ ⟨⟨lx, 0, 0⟩, ⟨0, ly, 0⟩, ⟨0, 0, lz⟩⟩ b)
      = ((natoms : Int) : K) * absK b.y / (2 * ly) := by
  obtain ⟨x, y, z⟩ := b
  have h2 : ((2 : Int) : K) = 2 := by norm_cast
  have hV : (0 : K) < lx * ly * lz := by positivity
  have hxz : (0 : K) < lx * lz := by positivity
  unfold expectedDel volume
  simp only [tiltedVects, setRow, half, M3.row, V3.get, h2, M3.det, V3.dot, V3.cross, V3.smul, C05.V3.sub_def,
    C05.V3.add_def] at hsmall ⊢
  norm_num at hsmall ⊢
  have habs : absK (lx * (ly * lz)) = lx * (ly * lz) := by
    unfold absK; rw [if_neg]; push Not; positivity
  by_cases hy0 : 0 < y
  · have hay : absK y = y := by unfold absK; rw [if_neg (not_lt.mpr hy0.le)]
    rw [hay] at hsmall ⊢
    simp only [hy0, if_true]
    have e : lx * ((ly - 1 / 2 * y) * lz) = lx * lz * (ly - y / 2) := by ring
    have hnn : 0 ≤ lx * lz * (ly - y / 2) := mul_nonneg hxz.le (by linarith)
    have habs2 : absK (lx * lz * (ly - y / 2)) = lx * lz * (ly - y / 2) := by
      unfold absK; rw [if_neg (not_lt.mpr hnn)]
    norm_num
    rw [e, habs, habs2]
    field_simp
    ring
  · have hay : absK y = -y := by
      unfold absK
      by_cases h0 : y < 0
      · rw [if_pos h0]
      · have : y = 0 := le_antisymm (not_lt.mp hy0) (not_lt.mp h0)
        rw [if_neg h0, this, neg_zero]
    rw [hay] at hsmall ⊢
    simp only [hy0, if_false]
    have e : lx * ((ly + 1 / 2 * y) * lz) = lx * lz * (ly + y / 2) := by ring
    have hnn : 0 ≤ lx * lz * (ly + y / 2) := mul_nonneg hxz.le (by linarith)
    have habs2 : absK (lx * lz * (ly + y / 2)) = lx * lz * (ly + y / 2) := by
      unfold absK; rw [if_neg (not_lt.mpr hnn)]
    norm_num
    rw [e, habs, habs2]
    field_simp
    ring

/-- the squared minimum-image distance the duplicate test uses. -/
def testDist2 (newbox : Box K) (pbc : V3 Bool) (testpos : List (V3 K)) (i j : Nat) : K :=
  dmag2 newbox.vects pbc.x pbc.y pbc.z (testpos.getD i ⟨0, 0, 0⟩) (testpos.getD j ⟨0, 0, 0⟩)

theorem dupIds_spec (newbox : Box K) (pbc : V3 Bool) (cutoff : K) (testpos : List (V3 K)) :
    ∀ (l : List Nat), l.Nodup → ∀ (pre : List Nat) (i : Nat) (js : List Nat), l = pre ++ i :: js →
      (i ∈ dupIds newbox pbc cutoff testpos l ↔
        0 < cutoff ∧ ∃ j ∈ js, testDist2 newbox pbc testpos i j < cutoff * cutoff) := by
  intro l
  induction l with
  | nil => intro _ pre i js h; simp at h
  | cons a t ih =>
    intro hnd pre i js h
    rw [List.nodup_cons] at hnd
    have hstep : ∀ x, x ∈ dupIds newbox pbc cutoff testpos (a :: t) ↔
        (x = a ∧ 0 < cutoff ∧ ∃ j ∈ t, testDist2 newbox pbc testpos a j < cutoff * cutoff) ∨
        x ∈ dupIds newbox pbc cutoff testpos t := by
      intro x
      simp only [dupIds, testDist2, Bool.and_eq_true, decide_eq_true_eq, List.any_eq_true]
      split_ifs with hc
      · simp only [List.mem_cons]
        constructor
        · rintro (rfl | h')
          · exact Or.inl ⟨rfl, hc.1, hc.2⟩
          · exact Or.inr h'
        · rintro (⟨rfl, _⟩ | h')
          · exact Or.inl rfl
          · exact Or.inr h'
      · constructor
        · intro h'; exact Or.inr h'
        · rintro (⟨rfl, h1, h2⟩ | h')
          · exact absurd ⟨h1, h2⟩ hc
          · exact h'
    have hsub : ∀ x, x ∈ dupIds newbox pbc cutoff testpos t → x ∈ t := by
      intro x
      clear ih hstep h hnd
      induction t with
      | nil => simp [dupIds]
      | cons b t' ih' =>
        simp only [dupIds]
        split_ifs
        · simp only [List.mem_cons]
          rintro (rfl | h')
          · exact Or.inl rfl
          · exact Or.inr (ih' h')
        · intro h'; exact List.mem_cons_of_mem _ (ih' h')
    cases pre with
    | nil =>
      simp only [List.nil_append, List.cons.injEq] at h
      obtain ⟨rfl, rfl⟩ := h
      rw [hstep]
      constructor
      · rintro (⟨_, h1, h2⟩ | h')
        · exact ⟨h1, h2⟩
        · exact absurd (hsub _ h') hnd.1
      · rintro ⟨h1, h2⟩; exact Or.inl ⟨rfl, h1, h2⟩
    | cons p pre' =>
      simp only [List.cons_append, List.cons.injEq] at h
      obtain ⟨rfl, rfl⟩ := h
      rw [hstep]
      have hia : i ≠ a := by
        intro e; apply hnd.1; rw [← e]; simp
      constructor
      · rintro (⟨e, _⟩ | h')
        · exact absurd e hia
        · exact (ih hnd.2 pre' i js rfl).mp h'
      · intro h'; exact Or.inr ((ih hnd.2 pre' i js rfl).mpr h')

/-- the reference system as `build_disl_array` uses it: atoms on the upper face along the motion direction moved to
    the lower face. -/
def arrayBase (atol : K) (o : Orient) (base : Sys K) : Sys K :=
  { base with atoms := moveUpperFace atol base.box o.motion base.atoms }

/-- positions of the linear test system of `build_disl_array`. -/
def arrayTestPos (o : Orient) (b1 : Sys K) (burgers center : V3 K) : List (V3 K) :=
  b1.atoms.map fun a => a.pos + linearDisp o.motion o.cut burgers
    (absK ((b1.box.vects.row o.motion).get o.motion)) (a.pos - center)

/-- the boundary atoms that enter the duplicate test. -/
def arrayBoundaryIds (o : Orient) (b1 : Sys K) (burgers center : V3 K) : List Nat :=
  boundaryIds o ⟨tiltedVects o b1.box.vects burgers, b1.box.origin⟩
    (absK (((2 : Int) : K) * burgers.get o.motion / absK ((b1.box.vects.row o.motion).get o.motion)))
    (arrayTestPos o b1 burgers center)

/-- the duplicates found. -/
def arrayDups (o : Orient) (b1 : Sys K) (burgers center : V3 K) (cutoff : K) : List Nat :=
  dupIds ⟨tiltedVects o b1.box.vects burgers, b1.box.origin⟩ (pbcExcept o.cut) cutoff
    (arrayTestPos o b1 burgers center) (arrayBoundaryIds o b1 burgers center)

theorem moveUpperFace_spec (atol : K) (box : Box K) (motion : Nat) (atoms : List (Atom K)) :
    (moveUpperFace atol box motion atoms).length = atoms.length ∧
    ∀ (i : Nat) (a : Atom K), atoms[i]? = some a →
      (moveUpperFace atol box motion atoms)[i]? = some a ∨
      (moveUpperFace atol box motion atoms)[i]? = some { a with pos := a.pos - box.vects.row motion } := by
  refine ⟨by simp [moveUpperFace], ?_⟩
  intro i a ha
  simp only [moveUpperFace, List.getElem?_map, ha, Option.map_some]
  split_ifs
  · exact Or.inr rfl
  · exact Or.inl rfl

/-- what an accepted `periodicarray` returns, in terms of the kept indices. -/
theorem periodicArray_ok (fl : K → Int) (rnd : K → Int) (pad : K) (u : V3 K → V3 K) (o : Orient) (base : Sys K)
    (burgers center : V3 K) (linear : Bool) (bw cutoff atolSlip atolInt rtolInt : K) (nsym : Nat) (r : ArrayOut K)
    (h : periodicArray fl rnd pad u o base burgers center linear bw cutoff atolSlip atolInt rtolInt nsym = .ok r) :
    let b1 := arrayBase atolSlip o base
    let newvects := tiltedVects o base.box.vects burgers
    r.oldId = keepIds base.atoms.length r.dups ∧
    r.base.atoms = gather b1.atoms r.oldId ∧ r.base.box = base.box ∧
    onSlipPlane atolSlip base.box o.cut b1.atoms = false ∧
    isclose atolInt rtolInt (expectedDel base.atoms.length base.box.vects newvects) ((r.expected : Int) : K) = true ∧
    r.expected = rnd (expectedDel base.atoms.length base.box.vects newvects) ∧
    (base.atoms.length : Int) - (r.oldId.length : Int) = r.expected ∧
    r.disl.pbc = pbcExcept o.cut ∧
    r.dups = arrayDups o b1 burgers center cutoff ∧
    ∃ (disp : List (V3 K)) (nt : Int) (out : V3 K → Bool),
      disp = arrayDisp o linear u center burgers (absK ((base.box.vects.row o.motion).get o.motion)) bw base.box
        (r.base.atoms.map (·.pos)) ∧
      r.disl.atoms = retype out nt (setPos r.base.atoms
        (C05.wrap fl pad ⟨newvects, base.box.origin⟩ (pbcExcept o.cut)
          (List.zipWith (· + ·) (r.base.atoms.map (·.pos)) disp)).pos) := by
  have hlen : (moveUpperFace atolSlip base.box o.motion base.atoms).length = base.atoms.length := by
    simp [moveUpperFace]
  unfold periodicArray at h
  simp only at h
  split_ifs at h with h1 h2 h3 h4
  · simp only [Except.ok.injEq] at h
    subst h
    simp only [Bool.not_eq_true, Bool.not_eq_eq_eq_not, Bool.not_true, Bool.not_false] at h1 h2
    push Not at h3
    rw [hlen] at h2 h3
    refine ⟨by simp only [hlen], rfl, rfl, h1, ?_, by simp only [hlen], ?_, rfl, rfl, _, _, _, rfl, rfl⟩
    · simp only [hlen]; simpa using h2
    · simp only [hlen]; omega
  · simp only [Except.ok.injEq] at h
    subst h
    simp only [Bool.not_eq_true, Bool.not_eq_eq_eq_not, Bool.not_true, Bool.not_false] at h1 h2
    push Not at h3
    rw [hlen] at h2 h3
    refine ⟨by simp only [hlen], rfl, rfl, h1, ?_, by simp only [hlen], ?_, rfl, rfl, _, 0, fun _ => false, rfl, ?_⟩
    · simp only [hlen]; simpa using h2
    · simp only [hlen]; omega
    · simp [retype]

theorem arrayDisp_length (o : Orient) (linear : Bool) (u : V3 K → V3 K) (center burgers : V3 K) (length bw : K)
    (box : Box K) (ps : List (V3 K)) : (arrayDisp o linear u center burgers length bw box ps).length = ps.length := by
  unfold arrayDisp
  split_ifs <;> simp

theorem pbcExcept_false (cut : Nat) :
    (cut = 0 → (pbcExcept cut).x = false) ∧ (cut = 1 → (pbcExcept cut).y = false) ∧
    (cut = 2 → (pbcExcept cut).z = false) := by
  refine ⟨?_, ?_, ?_⟩ <;> intro h <;> simp [pbcExcept, h]

/-- **array_old_id**: `old_id` lists, in increasing order, exactly the indices of the reference atoms that were not
    found to be duplicates; the trimmed reference system and the dislocation system both have one atom per entry, and
    atom `k` of either *is* reference atom `old_id[k]` (type and further values; the reference atom possibly moved from
    the upper to the lower face along the motion direction): the dislocation atom sits at the reference position plus
    its displacement, moved by integer multiples of the two periodic (tilted) box vectors only; its type is the
    reference type, raised by `natypes` only by the boundary step. -/
theorem array_old_id (fl : K → Int) (rnd : K → Int) (pad : K) (u : V3 K → V3 K) (o : Orient) (base : Sys K)
    (burgers center : V3 K) (linear : Bool) (bw cutoff atolSlip atolInt rtolInt : K) (nsym : Nat) (r : ArrayOut K)
    (h : periodicArray fl rnd pad u o base burgers center linear bw cutoff atolSlip atolInt rtolInt nsym = .ok r)
    (hdet : M3.det (tiltedVects o base.box.vects burgers) ≠ 0) :
    r.oldId.Pairwise (· < ·) ∧ (∀ i, i ∈ r.oldId ↔ i < base.atoms.length ∧ i ∉ r.dups) ∧
    r.base.atoms.length = r.oldId.length ∧ r.disl.atoms.length = r.oldId.length ∧
    ∀ (k id : Nat), r.oldId[k]? = some id → ∃ (a0 a : Atom K),
      base.atoms[id]? = some a0 ∧ (a = a0 ∨ a = { a0 with pos := a0.pos - base.box.vects.row o.motion }) ∧
      r.base.atoms[k]? = some a ∧
      ∃ (dk p' : V3 K) (f : V3 Int) (ty : Int),
        (arrayDisp o linear u center burgers (absK ((base.box.vects.row o.motion).get o.motion)) bw base.box
          (r.base.atoms.map (·.pos)))[k]? = some dk ∧
        r.disl.atoms[k]? = some { a with pos := p', atype := ty } ∧
        (ty = a.atype ∨ ∃ nt, ty = a.atype + nt) ∧
        p' + C05.latticeVec (tiltedVects o base.box.vects burgers) f = a.pos + dk ∧
        (o.cut = 0 → f.x = 0) ∧ (o.cut = 1 → f.y = 0) ∧ (o.cut = 2 → f.z = 0) := by
  obtain ⟨hold, hbase, hbox, _, _, _, _, _, _, disp, nt, out, hdisp, hdisl⟩ :=
    periodicArray_ok fl rnd pad u o base burgers center linear bw cutoff atolSlip atolInt rtolInt nsym r h
  obtain ⟨hsorted, hmem⟩ := keepIds_spec base.atoms.length r.dups
  obtain ⟨hmlen, hmove⟩ := moveUpperFace_spec atolSlip base.box o.motion base.atoms
  have hids : ∀ i ∈ r.oldId, i < (arrayBase atolSlip o base).atoms.length := by
    intro i hi
    rw [hold] at hi
    simp only [arrayBase, hmlen]
    exact ((hmem i).mp hi).1
  have hblen : r.base.atoms.length = r.oldId.length := by rw [hbase]; exact gather_length _ _ hids
  have hdlen : disp.length = r.base.atoms.length := by rw [hdisp, arrayDisp_length]; simp
  refine ⟨by rw [hold]; exact hsorted, by intro i; rw [hold]; exact hmem i, hblen, ?_, ?_⟩
  · rw [hdisl]
    simp only [retype, List.length_map]
    rw [setPos_length _ _ (by simp [C05.wrap, hdlen])]
    exact hblen
  · intro k id hk
    have hidlt : id < base.atoms.length := by
      have : id ∈ r.oldId := List.mem_of_getElem? hk
      rw [hold] at this
      exact ((hmem id).mp this).1
    obtain ⟨a0, ha0⟩ : ∃ a0, base.atoms[id]? = some a0 := ⟨base.atoms[id], List.getElem?_eq_getElem hidlt⟩
    have hk' : (gather (arrayBase atolSlip o base).atoms r.oldId)[k]?
        = (arrayBase atolSlip o base).atoms[id]? := by
      rw [gather_getElem? _ _ hids, hk]; rfl
    have hklt : k < r.base.atoms.length := by
      rw [hblen]; exact (List.getElem?_eq_some_iff.mp hk).1
    obtain ⟨a, ha⟩ : ∃ a, r.base.atoms[k]? = some a := ⟨r.base.atoms[k], List.getElem?_eq_getElem hklt⟩
    have hab : (arrayBase atolSlip o base).atoms[id]? = some a := by rw [← hk', ← hbase]; exact ha
    have hrel : a = a0 ∨ a = { a0 with pos := a0.pos - base.box.vects.row o.motion } := by
      rcases hmove id a0 ha0 with h' | h' <;> simp only [arrayBase] at hab <;> rw [h'] at hab <;>
        simp only [Option.some.injEq] at hab
      · exact Or.inl hab.symm
      · exact Or.inr hab.symm
    obtain ⟨dk, hdk⟩ : ∃ dk, disp[k]? = some dk :=
      ⟨disp[k]'(by rw [hdlen]; exact hklt), List.getElem?_eq_getElem _⟩
    set newbox : Box K := ⟨tiltedVects o base.box.vects burgers, base.box.origin⟩ with hnb
    refine ⟨a0, a, ha0, hrel, ha, dk, C05.atomPos fl newbox (pbcExcept o.cut) (a.pos + dk),
      C05.atomFlags fl newbox (pbcExcept o.cut) (a.pos + dk),
      (if out (C05.atomPos fl newbox (pbcExcept o.cut) (a.pos + dk)) then a.atype + nt else a.atype),
      by rw [← hdisp]; exact hdk, ?_, ?_, ?_, ?_⟩
    · rw [hdisl, retype_getElem?]
      have hw : (setPos r.base.atoms (C05.wrap fl pad newbox (pbcExcept o.cut)
          (List.zipWith (· + ·) (r.base.atoms.map (·.pos)) disp)).pos)[k]?
          = some { a with pos := C05.atomPos fl newbox (pbcExcept o.cut) (a.pos + dk) } := by
        simp only [setPos, C05.wrap, List.getElem?_zipWith, List.getElem?_map, ha, hdk, Option.map_some]
      rw [hw]
      simp only [Option.map_some]
      split_ifs <;> rfl
    · split_ifs
      · exact Or.inr ⟨nt, rfl⟩
      · exact Or.inl rfl
    · exact C05.atom_reconstruct fl newbox hdet (pbcExcept o.cut) _
    · obtain ⟨h0, h1, h2⟩ := C05.atomFlags_nonperiodic fl newbox (pbcExcept o.cut) (a.pos + dk)
      obtain ⟨p0, p1, p2⟩ := pbcExcept_false o.cut
      exact ⟨fun h => h0 (p0 h), fun h => h1 (p1 h), fun h => h2 (p2 h)⟩

/-- **array_deletion_count_partial**: when the code's own tests pass, the number of atoms removed is the integer
    `expected` with `|natoms·(1 - V'/V) - expected| ≤ atol + rtol·|expected|` (`V'` the volume of the box with the
    in-plane vector tilted by `∓ b/2`); the periodic directions are the two in-plane ones.
    PARTIAL: that the count of geometric duplicates *is* this number is the guard `found = expected` of the code, not a
    consequence derived from the lattice; that `natoms·(1 - V'/V)` is the edge-component count is
    `expected_edge_orthogonal` (orthogonal boxes). -/
theorem array_deletion_count_partial (fl : K → Int) (rnd : K → Int) (pad : K) (u : V3 K → V3 K) (o : Orient) (base : Sys K)
    (burgers center : V3 K) (linear : Bool) (bw cutoff atolSlip atolInt rtolInt : K) (nsym : Nat) (r : ArrayOut K)
    (h : periodicArray fl rnd pad u o base burgers center linear bw cutoff atolSlip atolInt rtolInt nsym = .ok r)
    (hdet : M3.det (tiltedVects o base.box.vects burgers) ≠ 0) :
    (base.atoms.length : Int) - (r.disl.atoms.length : Int) = r.expected ∧
    absK (expectedDel base.atoms.length base.box.vects (tiltedVects o base.box.vects burgers) - ((r.expected : Int) : K))
      ≤ atolInt + rtolInt * absK ((r.expected : Int) : K) ∧
    r.disl.pbc = ⟨o.cut ≠ 0, o.cut ≠ 1, o.cut ≠ 2⟩ := by
  obtain ⟨_, _, _, _, hclose, _, hcount, hpbc, _, _⟩ :=
    periodicArray_ok fl rnd pad u o base burgers center linear bw cutoff atolSlip atolInt rtolInt nsym r h
  obtain ⟨_, _, _, hdl, _⟩ :=
    array_old_id fl rnd pad u o base burgers center linear bw cutoff atolSlip atolInt rtolInt nsym r h hdet
  refine ⟨by rw [hdl]; exact hcount, ?_, hpbc⟩
  simpa [isclose] using hclose

/-- **array_kept_boundary_atoms_apart** (part of "no overlapping atoms"): in an accepted array, a *kept* atom of the
    boundary set is at least `cutoff` (minimum image over the two in-plane periodic directions of the tilted box) from
    every later boundary atom in the linear test system; the atoms removed are exactly those of the boundary set that
    have a later boundary atom within the cutoff.  PARTIAL: this is the linear test system, not the final (blended)
    one, and only the boundary set. -/
theorem array_kept_boundary_atoms_apart (fl : K → Int) (rnd : K → Int) (pad : K) (u : V3 K → V3 K) (o : Orient)
    (base : Sys K) (burgers center : V3 K) (linear : Bool) (bw cutoff atolSlip atolInt rtolInt : K) (nsym : Nat)
    (r : ArrayOut K)
    (h : periodicArray fl rnd pad u o base burgers center linear bw cutoff atolSlip atolInt rtolInt nsym = .ok r) :
    let b1 := arrayBase atolSlip o base
    let newbox : Box K := ⟨tiltedVects o b1.box.vects burgers, b1.box.origin⟩
    ∀ (pre : List Nat) (i : Nat) (js : List Nat), arrayBoundaryIds o b1 burgers center = pre ++ i :: js →
      (i ∈ r.dups ↔ 0 < cutoff ∧ ∃ j ∈ js,
        testDist2 newbox (pbcExcept o.cut) (arrayTestPos o b1 burgers center) i j < cutoff * cutoff) ∧
      (i ∈ r.oldId → ∀ j ∈ js, 0 < cutoff →
        cutoff * cutoff ≤ testDist2 newbox (pbcExcept o.cut) (arrayTestPos o b1 burgers center) i j) := by
  intro b1 newbox pre i js hsplit
  obtain ⟨hold, _, _, _, _, _, _, _, hdups, _⟩ :=
    periodicArray_ok fl rnd pad u o base burgers center linear bw cutoff atolSlip atolInt rtolInt nsym r h
  have hnd : (arrayBoundaryIds o b1 burgers center).Nodup := by
    unfold arrayBoundaryIds boundaryIds
    exact List.Nodup.filter _ List.nodup_range
  have hspec := dupIds_spec newbox (pbcExcept o.cut) cutoff (arrayTestPos o b1 burgers center)
    (arrayBoundaryIds o b1 burgers center) hnd pre i js hsplit
  have hd : r.dups = dupIds newbox (pbcExcept o.cut) cutoff (arrayTestPos o b1 burgers center)
      (arrayBoundaryIds o b1 burgers center) := hdups
  refine ⟨by rw [hd]; exact hspec, ?_⟩
  intro hi j hj hc
  rw [hold] at hi
  have hnot : i ∉ r.dups := ((keepIds_spec base.atoms.length r.dups).2 i).mp hi |>.2
  by_contra hlt
  push Not at hlt
  exact hnot (by rw [hd]; exact hspec.mpr ⟨hc, j, hj, hlt⟩)

/-! ## non-vacuity: the hypotheses of the theorems above are met by concrete runs of the model at `ℚ` -/
section examples

def exPv : M3 ℚ := ⟨⟨1, 0, 0⟩, ⟨0, 1, 0⟩, ⟨0, 0, 1⟩⟩
def exO : Orient := ⟨2, 0, 1, ⟨1, 0, 0⟩⟩
/-- a one-atom cubic rotated cell, fully periodic. -/
def exRcell : Sys ℚ := ⟨⟨exPv, ⟨0, 0, 0⟩⟩, ⟨true, true, true⟩, [⟨1, ⟨0, 0, 0⟩, []⟩]⟩
def exSz : Sizes := ⟨⟨0, 1⟩, ⟨-1, 1⟩, ⟨-1, 1⟩⟩
def exU : V3 ℚ → V3 ℚ := fun p => ⟨0, (if p.y < 0 then 1 / 8 else -1 / 8), 0⟩

-- simple cubic, slip plane (001), line [100]: accepted for m = y, n = z and (with the line row negated) m = x, n = z
example : (setCells (0 : ℚ) exPv ⟨0, 0, 1⟩ ⟨1, 0, 0⟩ ⟨1, 0, 0⟩ .y .z 1).map (·.uvws)
    = .ok ⟨⟨1, 0, 0⟩, ⟨0, 1, 0⟩, ⟨0, 0, 1⟩⟩ := by decide +kernel
example : (setCells (0 : ℚ) exPv ⟨0, 0, 1⟩ ⟨1, 0, 0⟩ ⟨1, 0, 0⟩ .x .z 1).map (·.uvws)
    = .ok ⟨⟨0, 1, 0⟩, ⟨-1, 0, 0⟩, ⟨0, 0, 1⟩⟩ := by decide +kernel
-- a monoclinic cell whose out-of-plane vector is not normal to the slip plane: refused unless n = z
example : (setCells (0 : ℚ) ⟨⟨1, 0, 0⟩, ⟨0, 1, 0⟩, ⟨1 / 4, 0, 1⟩⟩ ⟨0, 0, 1⟩ ⟨1, 0, 0⟩ ⟨1, 0, 0⟩ .z .x 1).map (·.uvws)
    = .error "value" := by decide +kernel

-- a monopole: 4 atoms, box boundary of width 3/4
example : ((monopole Rat.floor (1 / 1000) (fun x => x) exU exO exRcell exSz ⟨0, 0, 1 / 2⟩ ⟨0, 0, 0⟩ .box (3 / 4) 1).map
    (fun bd => (bd.1.atoms.length, bd.2.atoms.map (·.atype), bd.2.pbc))) = some (4, [2, 2, 2, 2], ⟨true, false, false⟩) := by
  decide +kernel
example : ((monopole Rat.floor (1 / 1000) (fun x => x) exU exO exRcell exSz ⟨0, 0, 1 / 2⟩ ⟨0, 0, 0⟩ .box (1 / 8) 1).map
    (fun bd => bd.2.atoms.map (·.atype))) = some [1, 1, 1, 1] := by
  decide +kernel

-- a periodic array of screw dislocations (nothing to delete), linear field
example : (match periodicArray Rat.floor C14.roundHalfEven (1 / 1000) exU exO
      (baseSystem Rat.floor (1 / 1000) exRcell exSz ⟨0, 0, 1 / 2⟩) ⟨1, 0, 0⟩ ⟨0, 0, 0⟩ true 0 (1 / 2)
      (1 / 100000000) (1 / 100000000) (1 / 100000) 1 with
    | .ok r => some (r.oldId, r.expected, r.disl.pbc)
    | .error _ => none) = some ([0, 1, 2, 3], 0, ⟨true, true, false⟩) := by decide +kernel

/-! ### statement audit: further non-vacuity examples (all hypotheses, non-trivial values) -/

-- `shift_between_planes` / `shift_by_index_between_planes`: layers at 0, 1, 3 in a period of 4
example := shift_between_planes ([0, 1, 3] : List ℚ) 4 (1 / 100000000) (by norm_num) (by norm_num)
  (by decide +kernel) 0 rfl (by decide +kernel)

/-- the primitive cell of fcc (a = 1): a general, non-orthogonal `pv`. -/
def fccPv : M3 ℚ := ⟨⟨0, 1 / 2, 1 / 2⟩, ⟨1 / 2, 0, 1 / 2⟩, ⟨1 / 2, 1 / 2, 0⟩⟩

-- `uvws_zone_law`, `uvws_right_handed`, `searchM_optimal`, `searchN_optimal` on fcc, slip plane (111), line [1 -1 0]
-- of the primitive cell: accepted, all hypotheses hold (ξ lies in the plane, `pv` non-degenerate, `N ≠ 0`)
example : (setCells (0 : ℚ) fccPv ⟨1, 1, 1⟩ ⟨-1 / 2, 1 / 2, 0⟩ ⟨1, -1, 0⟩ .y .z 1).map (·.uvws)
      = .ok ⟨⟨1, -1, 0⟩, ⟨0, 1, -1⟩, ⟨1, 1, 1⟩⟩ ∧
    cart fccPv ⟨1, -1, 0⟩ = (⟨-1 / 2, 1 / 2, 0⟩ : V3 ℚ) ∧ V3.dot (⟨-1 / 2, 1 / 2, 0⟩ : V3 ℚ) ⟨1, 1, 1⟩ = 0 ∧
    M3.det fccPv ≠ 0 ∧ 0 < V3.normSq (⟨1, 1, 1⟩ : V3 ℚ) ∧
    (∀ v ∈ allUvws 1, 0 < V3.normSq (cart fccPv v)) := by decide +kernel

/-- reference system of the array examples: 1 x 2 x 2 cells, slip plane midway. -/
def exBase : Sys ℚ := baseSystem Rat.floor (1 / 1000) exRcell exSz ⟨0, 0, 1 / 2⟩

-- `array_old_id`, `array_deletion_count_partial`, `array_kept_boundary_atoms_apart`: an array of EDGE dislocations
-- (b = [010] along the motion direction): the tilted cell is non-degenerate (`hdet`), one atom (index 0) is found
-- twice and deleted, `expected = 4 (1 - 1.5/2) = 1`, the three kept atoms map back to 1, 2, 3
example : (match periodicArray Rat.floor C14.roundHalfEven (1 / 1000) exU exO exBase ⟨0, 1, 0⟩ ⟨0, 0, 0⟩ true 0 (1 / 2)
      (1 / 100000000) (1 / 100000000) (1 / 100000) 1 with
    | .ok r => some (r.oldId, r.expected, r.dups, r.disl.pbc, r.disl.atoms.length)
    | .error _ => none) = some ([1, 2, 3], 1, [0], ⟨true, true, false⟩, 3) ∧
    M3.det (tiltedVects exO exBase.box.vects (⟨0, 1, 0⟩ : V3 ℚ)) ≠ 0 := by decide +kernel

/-- a 1 x 3 x 4 cell: with the shift (0, 3/2, 2) the four atoms of the 1 x 2 x 2 reference system sit at
    `(0, ±3/2, ±2)`, at the rational distance 5/2 from the line. -/
def exRcellC : Sys ℚ := ⟨⟨⟨⟨1, 0, 0⟩, ⟨0, 3, 0⟩, ⟨0, 0, 4⟩⟩, ⟨0, 0, 0⟩⟩, ⟨true, true, true⟩, [⟨1, ⟨0, 0, 0⟩, []⟩]⟩
def exBaseC : Sys ℚ := baseSystem Rat.floor (1 / 1000) exRcellC exSz ⟨0, 3 / 2, 2⟩
/-- moves the atom at `(0, -3/2, -2)` to `(0, 0, -2)` (distance 2 from the line), leaves the others. -/
def exUC : V3 ℚ → V3 ℚ := fun p => if p.y < 0 ∧ p.z < 0 then ⟨0, 3 / 2, 0⟩ else ⟨0, 0, 0⟩
def exDislC : Sys ℚ := monopoleRaw Rat.floor (1 / 1000) exUC 0 ⟨0, 0, 0⟩ exBaseC
/-- the Euclidean length on the vectors that occur (squared lengths 1, 4, 25/4); `sqrt 9 = 3`. -/
def exNormC (v : V3 ℚ) : ℚ :=
  if V3.normSq v = 1 then 1 else if V3.normSq v = 4 then 2 else if V3.normSq v = 25 / 4 then 5 / 2 else 0
def exSqrtC (x : ℚ) : ℚ := if x = 9 then 3 else 0

-- `boundary_iff_outside_cylinder`: all hypotheses on this system (width 3/4, radius 3 - 3/4 = 9/4): the atom at
-- distance 2 keeps its type, the three at distance 5/2 are re-typed
example : (0 : ℚ) < 3 / 4 ∧
    ((monopoleBoundary exSqrtC exO .cylinder (3 / 4) 1 exBaseC exDislC).map (fun d => d.atoms.map (·.atype)))
      = some [1, 2, 2, 2] ∧
    (0 < exNormC (exBaseC.box.vects.row exO.line) ∧
      exNormC (exBaseC.box.vects.row exO.line) * exNormC (exBaseC.box.vects.row exO.line)
        = V3.normSq (exBaseC.box.vects.row exO.line)) ∧
    (∀ a ∈ exDislC.atoms,
      0 ≤ exNormC (V3.cross a.pos (V3.smul (1 / exNormC (exBaseC.box.vects.row exO.line)) (exBaseC.box.vects.row exO.line))) ∧
      exNormC (V3.cross a.pos (V3.smul (1 / exNormC (exBaseC.box.vects.row exO.line)) (exBaseC.box.vects.row exO.line))) *
        exNormC (V3.cross a.pos (V3.smul (1 / exNormC (exBaseC.box.vects.row exO.line)) (exBaseC.box.vects.row exO.line)))
        = V3.normSq (V3.cross a.pos (V3.smul (1 / exNormC (exBaseC.box.vects.row exO.line)) (exBaseC.box.vects.row exO.line)))) ∧
    cylRadius exSqrtC exO.motion exO.cut exO.line exBaseC.box (3 / 4) = 9 / 4 := by decide +kernel

end examples

/-! ## cylinder radius -/

/-- **cylinder_radius_nearest_face**: for an aligned cell (the box vector of the dislocation line lies along its
    Cartesian axis) `smallest²` of `cylinder_boundary` is the squared distance from the dislocation line (through the
    Cartesian origin) to the nearest of the four faces across the two non-periodic directions - whatever the tilt of
    the other two box vectors: no face is closer, and one face is exactly that far. -/
theorem cylinder_radius_nearest_face (mi ni line : Nat)
    (hperm : (mi, ni, line) ∈ [(0, 1, 2), (1, 0, 2), (0, 2, 1), (2, 0, 1), (1, 2, 0), (2, 1, 0)]) (b : Box K)
    (hm : (b.vects.row line).get mi = 0) (hn : (b.vects.row line).get ni = 0) (hl : (b.vects.row line).get line ≠ 0)
    (hv1 : (proj2 mi ni (b.vects.row ((line + 1) % 3))).1 * (proj2 mi ni (b.vects.row ((line + 1) % 3))).1 +
      (proj2 mi ni (b.vects.row ((line + 1) % 3))).2 * (proj2 mi ni (b.vects.row ((line + 1) % 3))).2 ≠ 0)
    (hv2 : (proj2 mi ni (b.vects.row ((line + 2) % 3))).1 * (proj2 mi ni (b.vects.row ((line + 2) % 3))).1 +
      (proj2 mi ni (b.vects.row ((line + 2) % 3))).2 * (proj2 mi ni (b.vects.row ((line + 2) % 3))).2 ≠ 0) :
    (∀ pl ∈ boxBoundaryPlanes line b, cylSmallest2 mi ni line b ≤ planeDist2 pl) ∧
    ∃ pl ∈ boxBoundaryPlanes line b, cylSmallest2 mi ni line b = planeDist2 pl := by
  rw [cylSmallest2_eq]
  have hline : line = 0 ∨ line = 1 ∨ line = 2 := by
    simp only [List.mem_cons, Prod.mk.injEq, List.mem_nil_iff, or_false] at hperm
    omega
  obtain ⟨⟨a, bb, c⟩, o⟩ := b
  rcases hline with rfl | rfl | rfl
  · -- line = 0: v1 = bb, v2 = c, L = a
    simp only [M3.row, Nat.reduceAdd, Nat.reduceMod, OfNat.ofNat_ne_zero, OfNat.ofNat_ne_one, if_true, if_false,
      one_ne_zero, ↓reduceIte] at hm hn hl hv1 hv2 ⊢
    have e1 := (planeDist2_face mi ni 0 hperm a bb o hm hn hl hv1).1        -- (cross bb a, o)
    have e2 := (planeDist2_face mi ni 0 hperm a c o hm hn hl hv2).2         -- (cross a c, o)
    have e3 := (planeDist2_face mi ni 0 hperm a bb (o + c) hm hn hl hv1).2  -- (cross a bb, o + c)
    have e4 := (planeDist2_face mi ni 0 hperm a c (o + bb) hm hn hl hv2).1  -- (cross c a, o + bb)
    have hp : boxBoundaryPlanes 0 (⟨⟨a, bb, c⟩, o⟩ : Box K) =
        [(V3.cross a c, o), (V3.cross c a, o + bb), (V3.cross bb a, o), (V3.cross a bb, o + c)] := rfl
    rw [hp, ← e1, ← e2, ← e3, ← e4]
    obtain ⟨h1, h2, h3, h4⟩ := min4_le (planeDist2 (V3.cross bb a, o)) (planeDist2 (V3.cross a c, o))
      (planeDist2 (V3.cross a bb, o + c)) (planeDist2 (V3.cross c a, o + bb))
    refine ⟨?_, ?_⟩
    · intro pl hpl
      simp only [List.mem_cons, List.mem_nil_iff, or_false] at hpl
      rcases hpl with rfl | rfl | rfl | rfl <;> assumption
    · rcases min4_mem (planeDist2 (V3.cross bb a, o)) (planeDist2 (V3.cross a c, o))
        (planeDist2 (V3.cross a bb, o + c)) (planeDist2 (V3.cross c a, o + bb)) with h | h | h | h
      · exact ⟨_, by simp, h⟩
      · exact ⟨_, by simp, h⟩
      · exact ⟨_, by simp, h⟩
      · exact ⟨_, by simp, h⟩
  · -- line = 1: v1 = c, v2 = a, L = bb
    simp only [M3.row, Nat.reduceAdd, Nat.reduceMod, OfNat.ofNat_ne_zero, OfNat.ofNat_ne_one, if_true, if_false,
      one_ne_zero, ↓reduceIte] at hm hn hl hv1 hv2 ⊢
    have e1 := (planeDist2_face mi ni 1 hperm bb c o hm hn hl hv1).1        -- (cross c bb, o)
    have e2 := (planeDist2_face mi ni 1 hperm bb a o hm hn hl hv2).2        -- (cross bb a, o)
    have e3 := (planeDist2_face mi ni 1 hperm bb c (o + a) hm hn hl hv1).2  -- (cross bb c, o + a)
    have e4 := (planeDist2_face mi ni 1 hperm bb a (o + c) hm hn hl hv2).1  -- (cross a bb, o + c)
    have hp : boxBoundaryPlanes 1 (⟨⟨a, bb, c⟩, o⟩ : Box K) =
        [(V3.cross c bb, o), (V3.cross bb c, o + a), (V3.cross bb a, o), (V3.cross a bb, o + c)] := rfl
    rw [hp, ← e1, ← e2, ← e3, ← e4]
    obtain ⟨h1, h2, h3, h4⟩ := min4_le (planeDist2 (V3.cross c bb, o)) (planeDist2 (V3.cross bb a, o))
      (planeDist2 (V3.cross bb c, o + a)) (planeDist2 (V3.cross a bb, o + c))
    refine ⟨?_, ?_⟩
    · intro pl hpl
      simp only [List.mem_cons, List.mem_nil_iff, or_false] at hpl
      rcases hpl with rfl | rfl | rfl | rfl <;> assumption
    · rcases min4_mem (planeDist2 (V3.cross c bb, o)) (planeDist2 (V3.cross bb a, o))
        (planeDist2 (V3.cross bb c, o + a)) (planeDist2 (V3.cross a bb, o + c)) with h | h | h | h
      · exact ⟨_, by simp, h⟩
      · exact ⟨_, by simp, h⟩
      · exact ⟨_, by simp, h⟩
      · exact ⟨_, by simp, h⟩
  · -- line = 2: v1 = a, v2 = bb, L = c
    simp only [M3.row, Nat.reduceAdd, Nat.reduceMod, OfNat.ofNat_ne_zero, OfNat.ofNat_ne_one, if_true, if_false,
      one_ne_zero, ↓reduceIte] at hm hn hl hv1 hv2 ⊢
    have e1 := (planeDist2_face mi ni 2 hperm c a o hm hn hl hv1).1         -- (cross a c, o)
    have e2 := (planeDist2_face mi ni 2 hperm c bb o hm hn hl hv2).2        -- (cross c bb, o)
    have e3 := (planeDist2_face mi ni 2 hperm c a (o + bb) hm hn hl hv1).2  -- (cross c a, o + bb)
    have e4 := (planeDist2_face mi ni 2 hperm c bb (o + a) hm hn hl hv2).1  -- (cross bb c, o + a)
    have hp : boxBoundaryPlanes 2 (⟨⟨a, bb, c⟩, o⟩ : Box K) =
        [(V3.cross c bb, o), (V3.cross bb c, o + a), (V3.cross a c, o), (V3.cross c a, o + bb)] := rfl
    rw [hp, ← e1, ← e2, ← e3, ← e4]
    obtain ⟨h1, h2, h3, h4⟩ := min4_le (planeDist2 (V3.cross a c, o)) (planeDist2 (V3.cross c bb, o))
      (planeDist2 (V3.cross c a, o + bb)) (planeDist2 (V3.cross bb c, o + a))
    refine ⟨?_, ?_⟩
    · intro pl hpl
      simp only [List.mem_cons, List.mem_nil_iff, or_false] at hpl
      rcases hpl with rfl | rfl | rfl | rfl <;> assumption
    · rcases min4_mem (planeDist2 (V3.cross a c, o)) (planeDist2 (V3.cross c bb, o))
        (planeDist2 (V3.cross c a, o + bb)) (planeDist2 (V3.cross bb c, o + a)) with h | h | h | h
      · exact ⟨_, by simp, h⟩
      · exact ⟨_, by simp, h⟩
      · exact ⟨_, by simp, h⟩
      · exact ⟨_, by simp, h⟩

/-- non-vacuity: a cell tilted in the m-n plane (`c = (0, 1, 6)`), line along x, symmetric about the origin: the nearest
    face is the tilted one (distance² 144/37 < 9). -/
example : cylSmallest2 1 2 0 (⟨⟨⟨2, 0, 0⟩, ⟨0, 4, 0⟩, ⟨0, 1, 6⟩⟩, ⟨0, -5/2, -3⟩⟩ : Box ℚ) = 144 / 37 := by
  decide +kernel

/-! ## disregistry (atomman.defect.disregistry) -/

/-- **disregistry_planes_adjoin**: the two atomic planes whose displacements `disregistry` subtracts are the ones
    adjoining the slip plane through `planepos`: both are heights of atoms, the slip plane lies strictly between them
    and an atom strictly between them can only lie exactly on the slip plane (excluded by the documented precondition
    that `planepos` falls between two planes of atoms). -/
theorem disregistry_planes_adjoin (atol rtol : K) (m n pp : V3 K) (basepos disp : List (V3 K))
    (hl : basepos.length = disp.length) (r : Disreg K) (h : disregistry atol rtol m n pp basepos disp = .ok r) :
    r.below < V3.dot pp n ∧ V3.dot pp n < r.above ∧
    (∃ p ∈ basepos, V3.dot p n = r.above) ∧ (∃ p ∈ basepos, V3.dot p n = r.below) ∧
    ∀ p ∈ basepos, r.below < V3.dot p n → V3.dot p n < r.above → V3.dot p n = V3.dot pp n := by
  unfold disregistry at h
  simp only [disreg_rows_y m n basepos disp hl] at h
  cases ha : minAbove (V3.dot pp n) (basepos.map fun p => V3.dot p n) with
  | none => rw [ha] at h; simp at h
  | some a =>
    cases hb : maxBelow (V3.dot pp n) (basepos.map fun p => V3.dot p n) with
    | none => rw [ha, hb] at h; simp at h
    | some b =>
      rw [ha, hb] at h
      simp only at h
      split_ifs at h with hc
      simp only [Except.ok.injEq] at h
      subst h
      obtain ⟨a1, a2, a3⟩ := minAbove_spec _ _ a ha
      obtain ⟨b1, b2, b3⟩ := maxBelow_spec _ _ b hb
      simp only [List.mem_map] at a1 b1
      refine ⟨b2, a2, ?_, ?_, ?_⟩
      · obtain ⟨p, hp, e⟩ := a1; exact ⟨p, hp, e⟩
      · obtain ⟨p, hp, e⟩ := b1; exact ⟨p, hp, e⟩
      · intro p hp h1 h2
        have hm : V3.dot p n ∈ basepos.map fun p => V3.dot p n := List.mem_map.mpr ⟨p, hp, rfl⟩
        rcases lt_trichotomy (V3.dot pp n) (V3.dot p n) with hlt | heq | hgt
        · exact absurd (a3 _ hm hlt) (not_le.mpr h2)
        · exact heq.symm
        · exact absurd (b3 _ hm hgt) (not_le.mpr h1)

/-- **disregistry_same_gap**: the result depends on `planepos` only through the gap between atomic planes it selects:
    any other point whose height lies in the same (empty) gap gives the same profile.  In particular in-plane offsets
    of `planepos` (along `m` or the line) never matter. -/
theorem disregistry_same_gap (atol rtol : K) (m n pp pp' : V3 K) (basepos disp : List (V3 K))
    (hl : basepos.length = disp.length) (r : Disreg K) (h : disregistry atol rtol m n pp basepos disp = .ok r)
    (hgap : ∀ p ∈ basepos, ¬ (r.below < V3.dot p n ∧ V3.dot p n < r.above))
    (h1 : r.below < V3.dot pp' n) (h2 : V3.dot pp' n < r.above) :
    disregistry atol rtol m n pp' basepos disp = .ok r := by
  unfold disregistry at h ⊢
  simp only [disreg_rows_y m n basepos disp hl] at h ⊢
  cases ha : minAbove (V3.dot pp n) (basepos.map fun p => V3.dot p n) with
  | none => rw [ha] at h; simp at h
  | some a =>
    cases hb : maxBelow (V3.dot pp n) (basepos.map fun p => V3.dot p n) with
    | none => rw [ha, hb] at h; simp at h
    | some b =>
      rw [ha, hb] at h
      simp only at h
      have hab : r.above = a ∧ r.below = b := by
        split_ifs at h with hc
        simp only [Except.ok.injEq] at h
        subst h
        exact ⟨rfl, rfl⟩
      obtain ⟨a1, a2, a3⟩ := minAbove_spec _ _ a ha
      obtain ⟨b1, b2, b3⟩ := maxBelow_spec _ _ b hb
      rw [hab.1] at h2 hgap
      rw [hab.2] at h1 hgap
      have ha' : minAbove (V3.dot pp' n) (basepos.map fun p => V3.dot p n) = some a := by
        apply minAbove_eq_of_spec _ _ _ a1 h2
        intro y hy hmy
        obtain ⟨p, hp, rfl⟩ := List.mem_map.mp hy
        by_contra hlt
        exact hgap p hp ⟨lt_trans h1 hmy, not_le.mp hlt⟩
      have hb' : maxBelow (V3.dot pp' n) (basepos.map fun p => V3.dot p n) = some b := by
        apply maxBelow_eq_of_spec _ _ _ b1 h1
        intro y hy hmy
        obtain ⟨p, hp, rfl⟩ := List.mem_map.mp hy
        by_contra hlt
        exact hgap p hp ⟨not_le.mp hlt, lt_trans hmy h2⟩
      rw [ha', hb']
      exact h

/-- **disregistry_common_column**: the returned coordinates are strictly increasing; a coordinate is returned iff it
    is an atomic column of one of the two adjoining planes; and at a column present in both planes the value is the
    mean displacement of that column's atoms in the upper plane minus that in the lower plane (no interpolation). -/
theorem disregistry_common_column (atol rtol : K) (m n pp : V3 K) (basepos disp : List (V3 K)) (r : Disreg K)
    (h : disregistry atol rtol m n pp basepos disp = .ok r) :
    let pa := planeRows atol rtol r.above (drows m n basepos disp)
    let pb := planeRows atol rtol r.below (drows m n basepos disp)
    r.coord.Pairwise (· < ·) ∧ r.vals.length = r.coord.length ∧
    (∀ x, x ∈ r.coord ↔ (∃ q ∈ pa, q.x = x) ∨ (∃ q ∈ pb, q.x = x)) ∧
    ∀ (k : Nat) (x : K), r.coord[k]? = some x → (∃ q ∈ pa, q.x = x) → (∃ q ∈ pb, q.x = x) →
      r.vals[k]? = some (meanV ((pa.filter fun q => isclose atol rtol q.x x).map (·.d))
                          - meanV ((pb.filter fun q => isclose atol rtol q.x x).map (·.d))) := by
  unfold disregistry at h
  dsimp only at h
  cases ha : minAbove (V3.dot pp n) ((List.zipWith (fun p d => (⟨V3.dot p m, V3.dot p n, d⟩ : DRow K)) basepos disp).map (·.y)) with
  | none => rw [ha] at h; simp at h
  | some a =>
    cases hb : maxBelow (V3.dot pp n) ((List.zipWith (fun p d => (⟨V3.dot p m, V3.dot p n, d⟩ : DRow K)) basepos disp).map (·.y)) with
    | none => rw [ha, hb] at h; simp at h
    | some b =>
      rw [ha, hb] at h
      simp only at h
      split_ifs at h with hc
      simp only [Except.ok.injEq] at h
      subst h
      simp only [drows]
      refine ⟨sortedUnique_sorted _, by simp, ?_, ?_⟩
      · intro x
        simp only [mem_sortedUnique, List.mem_append, List.mem_map]
      · intro k x hk hxa hxb
        simp only [List.getElem?_map, hk, Option.map_some]
        have hua : x ∈ sortedUnique ((planeRows atol rtol a (List.zipWith (fun p d => (⟨V3.dot p m, V3.dot p n, d⟩ : DRow K)) basepos disp)).map (·.x)) := by
          rw [mem_sortedUnique]; exact List.mem_map.mpr hxa
        have hub : x ∈ sortedUnique ((planeRows atol rtol b (List.zipWith (fun p d => (⟨V3.dot p m, V3.dot p n, d⟩ : DRow K)) basepos disp)).map (·.x)) := by
          rw [mem_sortedUnique]; exact List.mem_map.mpr hxb
        obtain ⟨i, hi⟩ := List.getElem?_of_mem hua
        obtain ⟨j, hj⟩ := List.getElem?_of_mem hub
        rw [interp_node _ _ i x _ (sortedUnique_sorted _) (by simp [columnMeans]) hi (columnMeans_getElem? atol rtol _ _ i x hi),
          interp_node _ _ j x _ (sortedUnique_sorted _) (by simp [columnMeans]) hj (columnMeans_getElem? atol rtol _ _ j x hj)]

/-- non-vacuity: two atoms above, two below the plane `y = 0`, one farther away (ℚ). -/
example : ((disregistry (1/100000000 : ℚ) (1/100000) ⟨1,0,0⟩ ⟨0,1,0⟩ ⟨0,0,0⟩
    [⟨0,1,0⟩, ⟨1,1,0⟩, ⟨0,-1,0⟩, ⟨1,-1,0⟩, ⟨0,3,0⟩] [⟨1,0,0⟩, ⟨0,0,0⟩, ⟨0,0,0⟩, ⟨0,0,0⟩, ⟨5,5,5⟩]).toOption.map
      (fun r => (r.above, r.below, r.coord, r.vals.map (·.x)))) = some (1, -1, [0, 1], [1, 0]) := by
  decide +kernel


/-! ## source tie of the region predicates (the other `gen_…_eq_model` theorems are in Proofs/C13_Source.lean) -/

/-- `PlaneSet.outside(pos)` through `Shape.outside` (default `inclusive=False` → `~inside(inclusive=True)`),
    `PlaneSet.inside` (conjunction over the planes) and `Plane.below` is `PlaneSetOutside`. -/
theorem gen_planeSetOutside_eq_model (norm : V3 K → K) (w : K) (pls : List (V3 K × V3 K)) (p : V3 K) :
    Gen.Disl.shapeOutside (fun incl => Gen.Disl.planeSetInside incl (pls.map fun pl incl' =>
      Gen.Disl.planeBelow incl' (V3.dot (V3.smul (1 / norm pl.1) pl.1) p)
        (V3.dot (V3.smul (1 / norm pl.1) pl.1) (pl.2 - V3.smul w (V3.smul (1 / norm pl.1) pl.1))))) = true
      ↔ PlaneSetOutside norm w pls p := by
  simp only [Gen.Disl.shapeOutside, Gen.Disl.planeSetInside, PlaneSetOutside, Bool.not_false]
  rw [foldl_and_eq_all (fun b : Bool → Bool => b true), Bool.true_and, Bool.not_eq_true', ← Bool.not_eq_true,
    List.all_eq_true]
  constructor
  · intro h hall; apply h; intro f hf
    obtain ⟨pl, hpl, rfl⟩ := List.mem_map.mp hf
    exact (gen_planeBelow_eq_model _ w pl p).mpr (hall pl hpl)
  · intro h hall; apply h; intro pl hpl
    exact (gen_planeBelow_eq_model _ w pl p).mp (hall _ (List.mem_map.mpr ⟨pl, hpl, rfl⟩))

/-- `Cylinder.outside(pos)` (no end caps) is `CylinderOutside`. -/
theorem gen_cylinderOutside_eq_model (norm : V3 K → K) (L : V3 K) (radius : K) (p : V3 K) :
    Gen.Disl.shapeOutside (fun incl => Gen.Disl.cylInside incl (norm (V3.cross p (V3.smul (1 / norm L) L))) radius) = true
      ↔ CylinderOutside norm L radius p := by
  simp [Gen.Disl.shapeOutside, Gen.Disl.cylInside, CylinderOutside]


/-! ## API level: the argument handling of `monopole` / `periodicarray` and the call as a whole -/

theorem callSizes_eq_sizes (ceil : K → Int) (line : Nat) (lens mins : V3 K) (mults : Option (List MultEntry)) (sz : Sizes)
    (h : callSizes ceil line lens mults mins = some sz) :
    ∃ m : Option IV, (mults = none ∧ m = none ∨ ∃ a b c, mults = some [.int a, .int b, .int c] ∧ m = some ⟨a, b, c⟩) ∧
      sizes line m (minQ ceil mins.x lens.x) (minQ ceil mins.y lens.y) (minQ ceil mins.z lens.z) = some sz := by
  unfold callSizes at h
  cases mults with
  | none => exact ⟨none, Or.inl ⟨rfl, rfl⟩, by simpa [sizes] using h⟩
  | some l =>
    rcases l with _ | ⟨a, _ | ⟨b, _ | ⟨c, _ | ⟨d, r⟩⟩⟩⟩ <;> try (simp [checkMultsRaw] at h)
    cases a <;> cases b <;> cases c <;> try (simp [checkMultsRaw] at h)
    rename_i a b c
    refine ⟨some ⟨a, b, c⟩, Or.inr ⟨a, b, c, rfl, rfl⟩, ?_⟩
    simp only [sizes]
    cases hc : checkMults line ⟨a, b, c⟩ with
    | none => rw [hc] at h; simp at h
    | some s => rw [hc] at h; simpa using h

/-- **call_refuses_bad_multipliers**: a `sizemults` that is not three positive integers, even across the line — too
    short, too long, a float, a pair, a string among its entries, an odd / zero / negative entry — is refused with
    TypeError before anything else is looked at: whatever the other arguments are, and the shift the object holds is
    left as it was. -/
theorem call_refuses_bad_multipliers (ceil : K → Int) (mono : Bool) (line : Nat) (vects : M3 K) (lens : V3 K) (ucellA : K)
    (shifts : List (V3 K)) (cur : V3 K) (a : CallArgs K) (l : List MultEntry) (hm : a.mults = some l)
    (hbad : checkMultsRaw line l = none) :
    callHead ceil mono line vects lens ucellA shifts cur a = (cur, .error "type") := by
  simp [callHead, callSizes, hm, hbad]

/-- what `checkMultsRaw` refuses. -/
theorem checkMultsRaw_some_iff (line : Nat) (l : List MultEntry) (s : IV) :
    checkMultsRaw line l = some s ↔ l = [.int s.x, .int s.y, .int s.z] ∧ 0 < s.x ∧ 0 < s.y ∧ 0 < s.z ∧
      s.get ((line + 2) % 3) % 2 = 0 ∧ s.get ((line + 1) % 3) % 2 = 0 := by
  rcases l with _ | ⟨a, _ | ⟨b, _ | ⟨c, _ | ⟨d, r⟩⟩⟩⟩ <;> try (simp [checkMultsRaw])
  cases a <;> cases b <;> cases c <;> try (simp [checkMultsRaw])
  rename_i a b c
  obtain ⟨x, y, z⟩ := s
  simp only [checkMults, V3.mk.injEq, MultEntry.int.injEq]
  constructor
  · intro h
    split_ifs at h with hc
    simp only [Option.some.injEq, V3.mk.injEq] at h
    obtain ⟨rfl, rfl, rfl⟩ := h
    exact ⟨⟨rfl, rfl, rfl⟩, hc⟩
  · rintro ⟨⟨rfl, rfl, rfl⟩, hc⟩
    rw [if_pos hc]

/-- **callHead_ok_spec**: an accepted head — the multipliers are those of `callSizes`; the shift used is the shift
    the object holds afterwards, and it is the requested one when `shift` or `shiftindex` was given, the one the
    object held before otherwise; centre and width are converted as `centerscale` / `boundaryscale` say; the shape of
    a monopole is one of the two known ones. -/
theorem callHead_ok_spec (ceil : K → Int) (mono : Bool) (line : Nat) (vects : M3 K) (lens : V3 K) (ucellA : K)
    (shifts : List (V3 K)) (cur cur' : V3 K) (a : CallArgs K) (hd : Head K)
    (h : callHead ceil mono line vects lens ucellA shifts cur a = (cur', .ok hd)) :
    callSizes ceil line lens a.mults a.mins = some hd.sizes ∧ hd.shift = cur' ∧
    (if a.sh.given then setShift vects shifts a.sh = .ok hd.shift else hd.shift = cur) ∧
    hd.center = resolveCenter vects a.center a.centerscale ∧ hd.width = resolveWidth ucellA a.width a.widthscale ∧
    (mono = true → Shape.ofString? a.shape = some hd.shape) := by
  unfold callHead at h
  cases hs : callSizes ceil line lens a.mults a.mins with
  | none => rw [hs] at h; simp at h
  | some sz =>
    rw [hs] at h
    simp only at h
    have hstep : ∀ r, (ShiftCall.gen a.sh).step vects shifts cur = r → (match r with
        | (c', .error _) => True
        | (c', .ok s) => s = c' ∧ (if a.sh.given then setShift vects shifts a.sh = .ok s else s = cur)) := by
      intro r hr
      subst hr
      simp only [ShiftCall.step]
      cases hg : a.sh.given
      · simp
      · simp only [if_true]
        cases hss : setShift vects shifts a.sh <;> simp
    have hst := hstep _ rfl
    rcases hr : (ShiftCall.gen a.sh).step vects shifts cur with ⟨c', r⟩
    rw [hr] at h hst
    cases r with
    | error e => simp at h
    | ok s =>
      simp only at h hst
      cases mono
      · simp only [Bool.false_eq_true, if_false, Prod.mk.injEq, Except.ok.injEq] at h
        obtain ⟨rfl, rfl⟩ := h
        exact ⟨rfl, hst.1, hst.2, rfl, rfl, by simp⟩
      · simp only [if_true] at h
        cases hsh : Shape.ofString? a.shape with
        | none => rw [hsh] at h; simp at h
        | some shp =>
          rw [hsh] at h
          simp only [Prod.mk.injEq, Except.ok.injEq] at h
          obtain ⟨rfl, rfl⟩ := h
          exact ⟨rfl, hst.1, hst.2, rfl, rfl, fun _ => rfl⟩

/-- **callHead_refused_shift_keeps_state**: a call whose shift arguments are refused (vector and index together,
    index out of range) is refused with that class and leaves the shift of the object as it was. -/
theorem callHead_refused_shift_keeps_state (ceil : K → Int) (mono : Bool) (line : Nat) (vects : M3 K) (lens : V3 K)
    (ucellA : K) (shifts : List (V3 K)) (cur : V3 K) (a : CallArgs K) (sz : Sizes) (e : String)
    (hs : callSizes ceil line lens a.mults a.mins = some sz) (hg : a.sh.given = true)
    (he : setShift vects shifts a.sh = .error e) :
    callHead ceil mono line vects lens ucellA shifts cur a = (cur, .error e) := by
  simp [callHead, hs, ShiftCall.step, hg, he]

/-- **callHead_bad_shape_after_shift**: `monopole` refuses an unknown `boundaryshape` with ValueError only AFTER the
    shift arguments have been handled: the refused call has already stored the requested shift in the object. -/
theorem callHead_bad_shape_after_shift (ceil : K → Int) (line : Nat) (vects : M3 K) (lens : V3 K)
    (ucellA : K) (shifts : List (V3 K)) (cur s : V3 K) (a : CallArgs K) (sz : Sizes)
    (hs : callSizes ceil line lens a.mults a.mins = some sz) (hg : a.sh.given = true)
    (he : setShift vects shifts a.sh = .ok s) (hshape : Shape.ofString? a.shape = none) :
    callHead ceil true line vects lens ucellA shifts cur a = (s, .error "value") ∧
    callHead ceil false line vects lens ucellA shifts cur a
      = (s, .ok ⟨sz, s, resolveCenter vects a.center a.centerscale, resolveWidth ucellA a.width a.widthscale, .box⟩) := by
  simp [callHead, hs, ShiftCall.step, hg, he, hshape]

theorem sizeOf_mult (line i : Nat) (s : Int) (h : i = line ∨ s % 2 = 0) : (sizeOf line i s).mult = s := by
  unfold sizeOf C04.Size.mult
  split_ifs with hi
  · simp
  · rcases h with h | h
    · exact absurd h hi
    · simp only; omega

theorem minMult_ge_q (line i : Nat) (q cur : Int) : q ≤ minMult line i (some q) cur := by
  simp only [minMult]
  split_ifs <;> omega

/-- **callSizes_covers_minimum**: the reference system is at least as long as asked — for an accepted call and a
    rounding `ceil` that does not round down, the multiplier along every box vector times the period of the rotated cell
    along it is at least the minimum length given for it (and at least the multiplier given in `sizemults`). -/
theorem callSizes_covers_minimum (ceil : K → Int) (hceil : ∀ x : K, x ≤ ((ceil x : Int) : K)) (line : Nat) (hl : line < 3)
    (lens mins : V3 K) (hlen : 0 < lens.x ∧ 0 < lens.y ∧ 0 < lens.z) (mults : Option (List MultEntry)) (sz : Sizes)
    (h : callSizes ceil line lens mults mins = some sz) :
    mins.x ≤ ((sz.a.mult : Int) : K) * lens.x ∧ mins.y ≤ ((sz.b.mult : Int) : K) * lens.y ∧
    mins.z ≤ ((sz.c.mult : Int) : K) * lens.z := by
  -- the validated request is even across the line
  have hs : ∃ s : IV, ((0 < s.x ∧ 0 < s.y ∧ 0 < s.z) ∧ (line ≠ 0 → s.x % 2 = 0) ∧ (line ≠ 1 → s.y % 2 = 0) ∧ (line ≠ 2 → s.z % 2 = 0)) ∧
      sz = ⟨sizeOf line 0 (minMult line 0 (minQ ceil mins.x lens.x) s.x), sizeOf line 1 (minMult line 1 (minQ ceil mins.y lens.y) s.y),
        sizeOf line 2 (minMult line 2 (minQ ceil mins.z lens.z) s.z)⟩ := by
    unfold callSizes at h
    cases mults with
    | none =>
      simp only [Option.map_some, Option.some.injEq] at h
      refine ⟨defaultMults line, ?_, h.symm⟩
      simp only [defaultMults]; interval_cases line <;> simp
    | some l =>
      simp only at h
      cases hc : checkMultsRaw line l with
      | none => rw [hc] at h; simp at h
      | some s =>
        rw [hc] at h
        simp only [Option.map_some, Option.some.injEq] at h
        refine ⟨s, ?_, h.symm⟩
        obtain ⟨_, h1, h2, h3, h4, h5⟩ := (checkMultsRaw_some_iff line l s).mp hc
        refine ⟨⟨h1, h2, h3⟩, ?_⟩
        interval_cases line <;> simp_all [V3.get]
  obtain ⟨s, ⟨⟨px, py, pz⟩, ex, ey, ez⟩, rfl⟩ := hs
  have key : ∀ (i : Nat) (vmin len : K) (cur : Int), 0 < len → 0 < cur → (line ≠ i → cur % 2 = 0) →
      vmin ≤ (((sizeOf line i (minMult line i (minQ ceil vmin len) cur)).mult : Int) : K) * len := by
    intro i vmin len cur hlen' hcur hev
    have hm : (sizeOf line i (minMult line i (minQ ceil vmin len) cur)).mult = minMult line i (minQ ceil vmin len) cur := by
      apply sizeOf_mult
      by_cases hi : i = line
      · exact Or.inl hi
      · exact Or.inr (minMult_even line i _ cur hi (hev (Ne.symm hi)))
    rw [hm]
    unfold minQ
    split_ifs with hv
    · have h1 := minMult_ge_q line i (ceil (vmin / len)) cur
      have h2 : vmin / len ≤ ((ceil (vmin / len) : Int) : K) := hceil _
      have h3 : ((ceil (vmin / len) : Int) : K) ≤ ((minMult line i (some (ceil (vmin / len))) cur : Int) : K) :=
        Int.cast_le.mpr h1
      have h4 : vmin / len * len = vmin := div_mul_cancel₀ vmin hlen'.ne'
      calc vmin = vmin / len * len := h4.symm
        _ ≤ _ := mul_le_mul_of_nonneg_right (h2.trans h3) hlen'.le
    · have hv' : vmin ≤ 0 := not_lt.mp hv
      have hpos : (0 : K) ≤ ((minMult line i none cur : Int) : K) * len := by
        have : (0 : Int) ≤ minMult line i none cur := by simp only [minMult]; omega
        exact mul_nonneg (by exact_mod_cast this) hlen'.le
      exact hv'.trans hpos
  exact ⟨key 0 _ _ _ hlen.1 px ex, key 1 _ _ _ hlen.2.1 py ey, key 2 _ _ _ hlen.2.2 pz ez⟩


/-- **monopoleCall_spec** (end to end): for every accepted call `monopole(sizemults, amin, bmin, cmin, shift, shiftindex,
    shiftscale, center, centerscale, boundaryshape, boundarywidth, boundaryscale)` on an object holding the shift `cur`
    the object afterwards holds the shift that was used; the reference system is the rotated cell replicated by the
    multipliers of `callSizes` (positive; `(0, s)` along the line, symmetric and even across it), shifted by the shift
    requested (or held) and wrapped; the dislocation system keeps every atom of it in order, each at
    `pos + u(pos − centre)` — centre as converted by `centerscale` — up to whole box vectors along the line only, with its
    type kept or raised by the reference `natypes`; it is periodic along the line only. -/
theorem monopoleCall_spec (fl : K → Int) (ceil : K → Int) (pad : K) (hpad : 0 < pad) (sqrt : K → K) (u : V3 K → V3 K)
    (o : Orient) (hl : o.line < 3) (rcell : Sys K) (hdet : M3.det rcell.box.vects ≠ 0) (lens : V3 K) (ucellA : K)
    (nsym : Nat) (shifts : List (V3 K)) (cur cur' : V3 K) (a : CallArgs K) (base d : Sys K)
    (h : monopoleCall fl ceil pad sqrt u o rcell lens ucellA nsym shifts cur a = (cur', .ok (base, d))) :
    ∃ hd : Head K, callHead ceil true o.line rcell.box.vects lens ucellA shifts cur a = (cur', .ok hd) ∧
      hd.shift = cur' ∧
      (if a.sh.given then setShift rcell.box.vects shifts a.sh = .ok hd.shift else hd.shift = cur) ∧
      (0 < hd.sizes.a.mult ∧ 0 < hd.sizes.b.mult ∧ 0 < hd.sizes.c.mult) ∧
      base = baseSystem fl pad rcell hd.sizes hd.shift ∧
      d.atoms.length = base.atoms.length ∧
      d.pbc = ⟨o.line = 0, o.line = 1, o.line = 2⟩ ∧
      ∀ (i : Nat) (at' : Atom K), base.atoms[i]? = some at' → ∃ (p' : V3 K) (f : V3 Int) (ty : Int),
        d.atoms[i]? = some { at' with pos := p', atype := ty } ∧
        (ty = at'.atype ∨ ty = at'.atype + natypes nsym base.atoms) ∧
        p' + C05.latticeVec base.box.vects f
          = at'.pos + u (at'.pos - resolveCenter rcell.box.vects a.center a.centerscale) ∧
        (o.line ≠ 0 → f.x = 0) ∧ (o.line ≠ 1 → f.y = 0) ∧ (o.line ≠ 2 → f.z = 0) := by
  unfold monopoleCall at h
  rcases hh : callHead ceil true o.line rcell.box.vects lens ucellA shifts cur a with ⟨c', r⟩
  rw [hh] at h
  cases r with
  | error e => simp at h
  | ok hd =>
    simp only at h
    cases hm : monopole fl pad sqrt u o rcell hd.sizes hd.shift hd.center hd.shape hd.width nsym with
    | none => rw [hm] at h; simp at h
    | some r =>
      rw [hm] at h
      simp only [Prod.mk.injEq, Except.ok.injEq] at h
      obtain ⟨rfl, rfl⟩ := h
      obtain ⟨hsz, hshift, hreq, hcen, hwid, hshape⟩ := callHead_ok_spec ceil true o.line rcell.box.vects lens ucellA shifts
        cur c' a hd hh
      obtain ⟨m, _, hsizes⟩ := callSizes_eq_sizes ceil o.line lens a.mins a.mults hd.sizes hsz
      have hpos := (sizes_even_symmetric o.line hl m _ _ _ hd.sizes hsizes).1
      obtain ⟨hb, hlen, hat⟩ := monopole_keeps_atoms fl pad hpad sqrt u o rcell hd.sizes hd.shift hd.center hd.shape hd.width
        nsym base d hm hdet hpos
      obtain ⟨hpbc, _⟩ := monopole_pbc fl pad sqrt u o rcell hd.sizes hd.shift hd.center hd.shape hd.width nsym base d hm hl
      refine ⟨hd, rfl, hshift, hreq, hpos, hb, hlen, hpbc, ?_⟩
      rw [← hcen]
      exact hat

/-- non-vacuity of `monopoleCall_spec` and the refusal order on a concrete object: simple cubic cell, line along `a`,
    `sizemults = [1, 2, 2]`, `cmin = 5/2` (→ 4 cells along `c`), `shiftindex = -1`, a box boundary.  Accepted; with
    `sizemults = [1, 3, 2]` refused with TypeError whatever the shift arguments; with `shift` and `shiftindex` together
    ValueError, the object keeps its shift; with an unknown shape ValueError AFTER the shift was stored. -/
def exArgs : CallArgs ℚ := ⟨some [.int 1, .int 2, .int 2], ⟨0, 0, 5 / 2⟩, ⟨none, some (-1), true⟩, some ⟨0, 1 / 4, 0⟩, true,
  "box", 3 / 4, false⟩

def headSummary (r : V3 ℚ × Except String (Head ℚ)) : V3 ℚ × Sum String (Sizes × V3 ℚ × V3 ℚ × ℚ × Shape) :=
  (r.1, match r.2 with
    | .error e => .inl e
    | .ok h => .inr (h.sizes, h.shift, h.center, h.width, h.shape))

example : headSummary (callHead Rat.ceil true 0 exPv ⟨1, 1, 1⟩ 1 [⟨0, 0, 1 / 4⟩, ⟨0, 0, 1 / 2⟩] ⟨0, 0, 1 / 4⟩ exArgs)
    = (⟨0, 0, 1 / 2⟩, .inr (⟨⟨0, 1⟩, ⟨-1, 1⟩, ⟨-2, 2⟩⟩, ⟨0, 0, 1 / 2⟩, ⟨0, 1 / 4, 0⟩, 3 / 4, .box)) := by decide +kernel

example : headSummary (callHead Rat.ceil true 0 exPv ⟨1, 1, 1⟩ 1 [⟨0, 0, 1 / 4⟩, ⟨0, 0, 1 / 2⟩] ⟨0, 0, 1 / 4⟩
    { exArgs with mults := some [.int 1, .int 3, .int 2], sh := ⟨some ⟨0, 0, 0⟩, some 7, false⟩ })
    = (⟨0, 0, 1 / 4⟩, .inl "type") := by decide +kernel

example : headSummary (callHead Rat.ceil true 0 exPv ⟨1, 1, 1⟩ 1 [⟨0, 0, 1 / 4⟩, ⟨0, 0, 1 / 2⟩] ⟨0, 0, 1 / 4⟩
    { exArgs with mults := some [.int 1, .other, .int 2] }) = (⟨0, 0, 1 / 4⟩, .inl "type") := by decide +kernel

example : headSummary (callHead Rat.ceil true 0 exPv ⟨1, 1, 1⟩ 1 [⟨0, 0, 1 / 4⟩, ⟨0, 0, 1 / 2⟩] ⟨0, 0, 1 / 4⟩
    { exArgs with sh := ⟨some ⟨0, 0, 0⟩, some 1, false⟩ }) = (⟨0, 0, 1 / 4⟩, .inl "value") := by decide +kernel

example : headSummary (callHead Rat.ceil true 0 exPv ⟨1, 1, 1⟩ 1 [⟨0, 0, 1 / 4⟩, ⟨0, 0, 1 / 2⟩] ⟨0, 0, 1 / 4⟩
    { exArgs with shape := "sphere" }) = (⟨0, 0, 1 / 2⟩, .inl "value") := by decide +kernel

example : (match monopoleCall Rat.floor Rat.ceil (1 / 1000) (fun x => x) exU exO exRcell ⟨1, 1, 1⟩ 1 1
      [⟨0, 0, 1 / 4⟩, ⟨0, 0, 1 / 2⟩] ⟨0, 0, 1 / 4⟩ exArgs with
    | (c, .ok (b, d)) => (c, b.atoms.length, d.atoms.length, d.pbc)
    | (c, .error _) => (c, 0, 0, ⟨false, false, false⟩))
    = (⟨0, 0, 1 / 2⟩, 8, 8, ⟨true, false, false⟩) := by decide +kernel


/-! ## optimality of the two searches of `__set_cells` -/

/-- the quantity the two searches of `__set_cells` maximise, without square roots: the signed squared cosine of the angle
    between the candidate and the target direction, times the squared length of the target (`d = c·t`, `m2 = |c|²`:
    `sign(d) d² / m2 = |t|² cos|cos|`), a strictly increasing function of the cosine, i.e. strictly decreasing in the
    angle `vect_angle` returns. -/
def cosKey (c : Cand K) : K := if c.d < 0 then -(c.d * c.d / c.m2) else c.d * c.d / c.m2

theorem cosLt_iff (a b : Cand K) (ha : 0 < a.m2) (hb : 0 < b.m2) : cosLt a b = true ↔ cosKey a < cosKey b := by
  unfold cosLt cosKey
  by_cases hbd : b.d < 0 <;> by_cases had : a.d < 0 <;> simp only [hbd, had, if_true, if_false, decide_eq_true_eq]
  · rw [neg_lt_neg_iff, div_lt_div_iff₀ hb ha]
  · simp only [Bool.false_eq_true, false_iff, not_lt]
    have h1 : 0 < b.d * b.d / b.m2 := div_pos (mul_pos_of_neg_of_neg hbd hbd) hb
    have h2 : 0 ≤ a.d * a.d / a.m2 := div_nonneg (mul_self_nonneg _) ha.le
    linarith
  · simp only [true_iff]
    have h1 : 0 < a.d * a.d / a.m2 := div_pos (mul_pos_of_neg_of_neg had had) ha
    have h2 : 0 ≤ b.d * b.d / b.m2 := div_nonneg (mul_self_nonneg _) hb.le
    linarith
  · rw [div_lt_div_iff₀ ha hb]

theorem bestStep_optimal (l : List (Cand K)) (hm : ∀ c ∈ l, 0 < c.m2) :
    ∀ (init : Option (Cand K)), (∀ b, init = some b → 0 < b.m2) → ∀ c, l.foldl bestStep init = some c →
      (∀ b, init = some b → cosKey b ≤ cosKey c) ∧ ∀ x ∈ l, cosKey x ≤ cosKey c := by
  induction l with
  | nil =>
    intro init _ c h
    simp only [List.foldl_nil] at h
    exact ⟨fun b hb => (by rw [h] at hb; cases hb; exact le_refl _), fun x hx => (by cases hx)⟩
  | cons x r ih =>
    intro init hinit c h
    simp only [List.foldl_cons] at h
    have hx : 0 < x.m2 := hm x List.mem_cons_self
    have hr : ∀ c ∈ r, 0 < c.m2 := fun c hc => hm c (List.mem_cons_of_mem _ hc)
    cases init with
    | none =>
      have := ih hr (bestStep none x) (by intro b hb; simp only [bestStep, Option.some.injEq] at hb; rw [← hb]; exact hx) c h
      refine ⟨fun b hb => (by cases hb), ?_⟩
      intro y hy
      rcases List.mem_cons.mp hy with rfl | hy
      · exact this.1 _ rfl
      · exact this.2 y hy
    | some b =>
      have hb : 0 < b.m2 := hinit b rfl
      by_cases hlt : cosLt b x = true
      · have e : bestStep (some b) x = some x := by simp [bestStep, hlt]
        rw [e] at h
        have := ih hr (some x) (by intro b' hb'; cases hb'; exact hx) c h
        have hbx := (cosLt_iff b x hb hx).mp hlt
        refine ⟨fun b' hb' => (by cases hb'; exact (hbx.le).trans (this.1 x rfl)), ?_⟩
        intro y hy
        rcases List.mem_cons.mp hy with rfl | hy
        · exact this.1 _ rfl
        · exact this.2 y hy
      · have e : bestStep (some b) x = some b := by simp [bestStep, hlt]
        rw [e] at h
        have := ih hr (some b) (by intro b' hb'; cases hb'; exact hb) c h
        have hbx : ¬ cosKey b < cosKey x := fun hh => hlt ((cosLt_iff b x hb hx).mpr hh)
        refine ⟨fun b' hb' => (by cases hb'; exact this.1 b rfl), ?_⟩
        intro y hy
        rcases List.mem_cons.mp hy with rfl | hy
        · exact (not_lt.mp hbx).trans (this.1 b rfl)
        · exact this.2 y hy

theorem bestOf_optimal (l : List (Cand K)) (hm : ∀ c ∈ l, 0 < c.m2) (c : Cand K) (h : bestOf l = some c) :
    ∀ x ∈ l, cosKey x ≤ cosKey c :=
  (bestStep_optimal l hm none (by intro b hb; cases hb) c h).2

/-- **searchM_optimal**: among ALL lattice vectors within the index bound that lie in the slip plane, the one
    `__set_cells` selects for the in-plane box vector makes the smallest angle with the edge direction `m` (no candidate
    has a larger cosine). -/
theorem searchM_optimal (pv : M3 K) (N M : V3 K) (mi : Int)
    (hpos : ∀ v ∈ allUvws mi, 0 < V3.normSq (cart pv v)) (cm : Cand K) (h : searchM pv N M mi = some cm) :
    ∀ v ∈ allUvws mi, V3.dot (cart pv v) N = 0 → cosKey (mkCand pv M v) ≤ cosKey cm := by
  intro v hv hin
  apply bestOf_optimal _ _ cm h
  · exact List.mem_map.mpr ⟨v, List.mem_filter.mpr ⟨hv, by simp [inPlane, hin]⟩, rfl⟩
  · intro c hc
    obtain ⟨w, hw, rfl⟩ := List.mem_map.mp hc
    exact hpos w (List.mem_filter.mp hw).1

/-- **searchN_optimal**: the vector selected for the out-of-plane box vector makes the smallest angle with the slip-plane
    normal among all lattice vectors within the index bound. -/
theorem searchN_optimal (pv : M3 K) (N : V3 K) (mi : Int)
    (hpos : ∀ v ∈ allUvws mi, 0 < V3.normSq (cart pv v)) (cn : Cand K) (h : searchN pv N mi = some cn) :
    ∀ v ∈ allUvws mi, cosKey (mkCand pv N v) ≤ cosKey cn := by
  intro v hv
  apply bestOf_optimal _ _ cn h
  · exact List.mem_map.mpr ⟨v, hv, rfl⟩
  · intro c hc
    obtain ⟨w, hw, rfl⟩ := List.mem_map.mp hc
    exact hpos w hw


/-- non-vacuity: in the cubic example the in-plane vector found for `m = y` is `[0, 1, 0]` itself and no in-plane candidate
    is closer. -/
example : (searchM exPv (⟨0, 0, 1⟩ : V3 ℚ) ⟨0, 1, 0⟩ 1).map (fun c => (c.v, cosKey c)) = some (⟨0, 1, 0⟩, 1) := by
  decide +kernel

theorem bestStep_first (l : List (Cand K)) (hm : ∀ c ∈ l, 0 < c.m2) :
    ∀ (init : Option (Cand K)), (∀ b, init = some b → 0 < b.m2) → ∀ c, l.foldl bestStep init = some c →
      (match init with
       | none => ∃ l1 l2, l = l1 ++ c :: l2 ∧ ∀ x ∈ l1, cosKey x < cosKey c
       | some b => c = b ∨ ∃ l1 l2, l = l1 ++ c :: l2 ∧ cosKey b < cosKey c ∧ ∀ x ∈ l1, cosKey x < cosKey c) := by
  induction l with
  | nil =>
    intro init _ c h
    simp only [List.foldl_nil] at h
    subst h
    exact Or.inl rfl
  | cons x r ih =>
    intro init hinit c h
    simp only [List.foldl_cons] at h
    have hx : 0 < x.m2 := hm x List.mem_cons_self
    have hr : ∀ c ∈ r, 0 < c.m2 := fun c hc => hm c (List.mem_cons_of_mem _ hc)
    cases init with
    | none =>
      have e : bestStep none x = some x := rfl
      rw [e] at h
      have := ih hr (some x) (by intro b hb; cases hb; exact hx) c h
      simp only at this ⊢
      rcases this with rfl | ⟨l1, l2, rfl, hlt, hall⟩
      · exact ⟨[], r, rfl, by intro y hy; cases hy⟩
      · refine ⟨x :: l1, l2, rfl, ?_⟩
        intro y hy
        rcases List.mem_cons.mp hy with rfl | hy
        · exact hlt
        · exact hall y hy
    | some b =>
      have hb : 0 < b.m2 := hinit b rfl
      simp only
      by_cases hlt : cosLt b x = true
      · have e : bestStep (some b) x = some x := by simp [bestStep, hlt]
        rw [e] at h
        have hbx := (cosLt_iff b x hb hx).mp hlt
        have := ih hr (some x) (by intro b' hb'; cases hb'; exact hx) c h
        simp only at this
        rcases this with rfl | ⟨l1, l2, rfl, hxc, hall⟩
        · exact Or.inr ⟨[], r, rfl, hbx, by intro y hy; cases hy⟩
        · refine Or.inr ⟨x :: l1, l2, rfl, hbx.trans hxc, ?_⟩
          intro y hy
          rcases List.mem_cons.mp hy with rfl | hy
          · exact hxc
          · exact hall y hy
      · have e : bestStep (some b) x = some b := by simp [bestStep, hlt]
        rw [e] at h
        have hbx : ¬ cosKey b < cosKey x := fun hh => hlt ((cosLt_iff b x hb hx).mpr hh)
        have := ih hr (some b) (by intro b' hb'; cases hb'; exact hb) c h
        simp only at this
        rcases this with rfl | ⟨l1, l2, rfl, hbc, hall⟩
        · exact Or.inl rfl
        · refine Or.inr ⟨x :: l1, l2, rfl, hbc, ?_⟩
          intro y hy
          rcases List.mem_cons.mp hy with rfl | hy
          · exact lt_of_le_of_lt (not_lt.mp hbx) hbc
          · exact hall y hy

/-- **bestOf_first**: of several candidates of equally small angle the FIRST in the enumeration order is taken
    (`arr[np.isclose(angle, angle.min())][0]` with the tolerance read as exact): every candidate before the selected one
    has a strictly smaller cosine. -/
theorem bestOf_first (l : List (Cand K)) (hm : ∀ c ∈ l, 0 < c.m2) (c : Cand K) (h : bestOf l = some c) :
    ∃ l1 l2, l = l1 ++ c :: l2 ∧ ∀ x ∈ l1, cosKey x < cosKey c :=
  bestStep_first l hm none (by intro b hb; cases hb) c h


/-! ## the ceiling and the exact multiplier -/

/-- the specification of the ceiling: the least integer not below `x`. -/
theorem ceilOfFloor_spec (fl : K → Int) (hfl : C05.IsFloor fl) (x : K) :
    x ≤ ((ceilOfFloor fl x : Int) : K) ∧ ((ceilOfFloor fl x : Int) : K) < x + 1 ∧
    ∀ n : Int, x ≤ ((n : Int) : K) → ceilOfFloor fl x ≤ n := by
  obtain ⟨h1, h2⟩ := hfl (-x)
  unfold ceilOfFloor
  refine ⟨?_, ?_, ?_⟩
  · rw [Int.cast_neg]; linarith
  · rw [Int.cast_neg]; linarith
  · intro n hn
    by_contra hc
    have hc' : n + 1 ≤ -(fl (-x)) := by omega
    have : ((n + 1 : Int) : K) ≤ ((-(fl (-x)) : Int) : K) := Int.cast_le.mpr hc'
    rw [Int.cast_neg, Int.cast_add, Int.cast_one] at this
    linarith

/-- **minMult_least**: the multiplier a minimum length gives is the LEAST integer that is at least the requested
    multiplier, at least `q = ceil(min / period)`, and even when the direction is not the dislocation line. -/
theorem minMult_least (line i : Nat) (q cur n : Int) (h1 : cur ≤ n) (h2 : q ≤ n)
    (h3 : i ≠ line → n % 2 = 0) : minMult line i (some q) cur ≤ n := by
  simp only [minMult]
  by_cases hi : i = line
  · simp only [hi, ne_eq, not_true_eq_false, false_and, if_false]; split_ifs <;> omega
  · have := h3 hi
    simp only [ne_eq, hi, not_false_eq_true, true_and]
    split_ifs <;> omega


example : ceilOfFloor Rat.floor (5 / 2 : ℚ) = 3 ∧ ceilOfFloor Rat.floor (3 : ℚ) = 3 ∧ ceilOfFloor Rat.floor (-1 / 2 : ℚ) = 0 := by
  decide +kernel
example : minMult 0 1 (some 3) 2 = 4 ∧ minMult 0 0 (some 3) 2 = 3 ∧ minMult 0 1 (some 3) 6 = 6 := by decide

/-! ## `periodicarray` as a whole -/

/-- **arrayCall_spec** (end to end): for every accepted call `periodicarray(sizemults, amin, bmin, cmin, shift, shiftindex,
    shiftscale, center, centerscale, boundarywidth, boundaryscale, linear, cutoff)` the object afterwards holds the shift
    used; with `ref` the rotated cell replicated by the (positive) multipliers, shifted by the requested shift and wrapped:
    the number of atoms removed is the integer `expected` implied by the volume of the tilted box, the systems are
    periodic in the two in-plane directions only, `old_id` is increasing and lists exactly the non-duplicates, and atom
    `k` of the trimmed reference system and of the dislocation system is reference atom `old_id[k]`, displaced, modulo
    the two periodic box vectors only. -/
theorem arrayCall_spec (fl : K → Int) (rnd : K → Int) (ceil : K → Int) (pad : K) (u : V3 K → V3 K) (o : Orient) (hl : o.line < 3)
    (rcell : Sys K) (lens : V3 K) (ucellA : K) (nsym : Nat) (shifts : List (V3 K)) (cur cur' : V3 K) (a : CallArgs K)
    (burgers : V3 K) (linear : Bool) (cutoff : Option K) (atolSlip atolInt rtolInt : K) (r : ArrayOut K)
    (h : arrayCall fl rnd ceil pad u o rcell lens ucellA nsym shifts cur a burgers linear cutoff atolSlip atolInt rtolInt
      = (cur', .ok r)) :
    ∃ hd : Head K, callHead ceil false o.line rcell.box.vects lens ucellA shifts cur a = (cur', .ok hd) ∧
      hd.shift = cur' ∧
      (if a.sh.given then setShift rcell.box.vects shifts a.sh = .ok hd.shift else hd.shift = cur) ∧
      (0 < hd.sizes.a.mult ∧ 0 < hd.sizes.b.mult ∧ 0 < hd.sizes.c.mult) ∧
      periodicArray fl rnd pad u o (baseSystem fl pad rcell hd.sizes hd.shift) burgers
        (resolveCenter rcell.box.vects a.center a.centerscale) linear (resolveWidth ucellA a.width a.widthscale)
        (cutoff.getD half) atolSlip atolInt rtolInt nsym = .ok r ∧
      (M3.det (tiltedVects o (baseSystem fl pad rcell hd.sizes hd.shift).box.vects burgers) ≠ 0 →
        ((baseSystem fl pad rcell hd.sizes hd.shift).atoms.length : Int) - (r.disl.atoms.length : Int) = r.expected ∧
        r.disl.pbc = ⟨o.cut ≠ 0, o.cut ≠ 1, o.cut ≠ 2⟩ ∧
        r.oldId.Pairwise (· < ·) ∧
        (∀ i, i ∈ r.oldId ↔ i < (baseSystem fl pad rcell hd.sizes hd.shift).atoms.length ∧ i ∉ r.dups) ∧
        r.base.atoms.length = r.oldId.length ∧ r.disl.atoms.length = r.oldId.length) := by
  unfold arrayCall at h
  rcases hh : callHead ceil false o.line rcell.box.vects lens ucellA shifts cur a with ⟨c', rr⟩
  rw [hh] at h
  cases rr with
  | error e => simp at h
  | ok hd =>
    simp only at h
    cases hp : periodicArray fl rnd pad u o (baseSystem fl pad rcell hd.sizes hd.shift) burgers hd.center linear hd.width
        (cutoff.getD half) atolSlip atolInt rtolInt nsym with
    | error e => rw [hp] at h; cases e <;> simp at h
    | ok r' =>
      rw [hp] at h
      simp only [Prod.mk.injEq, Except.ok.injEq] at h
      obtain ⟨rfl, rfl⟩ := h
      obtain ⟨hsz, hshift, hreq, hcen, hwid, _⟩ := callHead_ok_spec ceil false o.line rcell.box.vects lens ucellA shifts
        cur c' a hd hh
      obtain ⟨m, _, hsizes⟩ := callSizes_eq_sizes ceil o.line lens a.mins a.mults hd.sizes hsz
      have hpos := (sizes_even_symmetric o.line hl m _ _ _ hd.sizes hsizes).1
      refine ⟨hd, rfl, hshift, hreq, hpos, by rw [← hcen, ← hwid]; exact hp, ?_⟩
      intro hdet
      obtain ⟨h1, h2, h3, h4, _⟩ := array_old_id fl rnd pad u o _ burgers hd.center linear hd.width (cutoff.getD half)
        atolSlip atolInt rtolInt nsym r' hp hdet
      obtain ⟨hc, _, hpbc⟩ := array_deletion_count_partial fl rnd pad u o _ burgers hd.center linear hd.width
        (cutoff.getD half) atolSlip atolInt rtolInt nsym r' hp hdet
      exact ⟨hc, hpbc, h1, h2, h3, h4⟩


example : (match arrayCall Rat.floor C14.roundHalfEven (ceilOfFloor Rat.floor) (1 / 1000) exU exO exRcell ⟨1, 1, 1⟩ 1 1
      [⟨0, 0, 1 / 4⟩, ⟨0, 0, 1 / 2⟩] ⟨0, 0, 1 / 4⟩ { exArgs with width := 0 } ⟨1, 0, 0⟩ true none (1 / 100000000)
      (1 / 100000000) (1 / 100000) with
    | (c, .ok r) => (c, r.oldId.length, r.expected, r.disl.pbc)
    | (c, .error _) => (c, 0, -1, ⟨false, false, false⟩))
    = (⟨0, 0, 1 / 2⟩, 8, 0, ⟨true, true, false⟩) := by decide +kernel


/-! ## refusals, exactly -/

/-- **callHead_accepts_iff** (refusals, exactly): the argument handling of a generator call is accepted if and only if
    the multipliers are acceptable (`callSizes`), the shift arguments — when any is given — resolve, and, for `monopole`,
    the shape is one of the two known ones. -/
theorem callHead_accepts_iff (ceil : K → Int) (mono : Bool) (line : Nat) (vects : M3 K) (lens : V3 K) (ucellA : K)
    (shifts : List (V3 K)) (cur : V3 K) (a : CallArgs K) :
    (∃ c' hd, callHead ceil mono line vects lens ucellA shifts cur a = (c', .ok hd)) ↔
      (∃ sz, callSizes ceil line lens a.mults a.mins = some sz) ∧
      (a.sh.given = true → ∃ s, setShift vects shifts a.sh = .ok s) ∧
      (mono = true → ∃ shp, Shape.ofString? a.shape = some shp) := by
  constructor
  · rintro ⟨c', hd, h⟩
    obtain ⟨h1, _, h3, _, _, h6⟩ := callHead_ok_spec ceil mono line vects lens ucellA shifts cur c' a hd h
    refine ⟨⟨_, h1⟩, ?_, fun hm => ⟨_, h6 hm⟩⟩
    intro hg
    rw [if_pos hg] at h3
    exact ⟨_, h3⟩
  · rintro ⟨⟨sz, hs⟩, hsh, hshape⟩
    unfold callHead
    rw [hs]
    simp only [ShiftCall.step]
    cases hg : a.sh.given
    · cases mono
      · simp
      · obtain ⟨shp, hshp⟩ := hshape rfl
        simp [hshp]
    · obtain ⟨s, hs'⟩ := hsh hg
      simp only [if_true, hs']
      cases mono
      · simp
      · obtain ⟨shp, hshp⟩ := hshape rfl
        simp [hshp]

/-- **monopole_refuses_iff**: once the arguments are accepted, building the systems is refused exactly when a cylinder
    boundary of positive width leaves no positive radius (the assertion of `Cylinder`). -/
theorem monopole_refuses_iff (fl : K → Int) (pad : K) (sqrt : K → K) (u : V3 K → V3 K) (o : Orient) (rcell : Sys K)
    (sz : Sizes) (shift center : V3 K) (shape : Shape) (width : K) (nsym : Nat) :
    monopole fl pad sqrt u o rcell sz shift center shape width nsym = none ↔
      (0 < width ∧ shape = .cylinder ∧
        ¬ 0 < cylRadius sqrt o.motion o.cut o.line (baseSystem fl pad rcell sz shift).box width) := by
  unfold monopole monopoleBoundary
  simp only [Option.map_eq_none_iff, gt_iff_lt]
  by_cases hw : 0 < width
  · simp only [hw, if_true, true_and]
    cases shape
    · simp
    · by_cases hr : 0 < cylRadius sqrt o.motion o.cut o.line (baseSystem fl pad rcell sz shift).box width
      · simp [hr]
      · simp [hr]
  · simp [hw]


example : monopole Rat.floor (1 / 1000) (fun x => x) exU exO exRcell exSz ⟨0, 0, 1 / 2⟩ ⟨0, 0, 0⟩ .cylinder 40 1 = none ∧
    (monopole Rat.floor (1 / 1000) (fun x => x) exU exO exRcell exSz ⟨0, 0, 1 / 2⟩ ⟨0, 0, 0⟩ .box 40 1).isSome = true := by
  decide +kernel

end Atomman.C13
