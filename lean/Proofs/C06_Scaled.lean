/-
  C06 — the reading branches of `System.atoms_prop(…, scale=True)` and `copy.deepcopy(system)`:
  invariant, "reads do not write", freshness of the returned object.
-/
import Proofs.C06_Aux

namespace Atomman.C06
set_option linter.unusedSimpArgs false
set_option linter.unusedVariables false

/-! ### `box.position_cartesian_to_relative` on a value -/

theorem cartToRel_ok (box : Box Rat) (v v' : Val) (hv : ValOK v) (h : cartToRelVal box v = .ok v') : ValOK v' := by
  unfold cartToRelVal at h
  split at h
  · cases h
  · rename_i d hd
    split at h
    · cases h
    · rename_i hd3
      have hd3 : d = 3 := by simpa using hd3
      subst hd3
      split at h
      · cases h
      · split at h
        · cases h
        · rename_i cells hcells
          injection h with h
          subst h
          have hlen := (mapM_option _ _ _ hcells).1
          obtain ⟨k, hk⟩ := prod_getLast_dvd _ _ hd
          constructor
          · simp only []
            rw [flatten_length_const _ 3]
            · simp only [List.length_map, List.length_range, hlen, hv.1, hk]
              rw [Nat.mul_div_cancel_left k (by decide : 0 < 3)]
              exact Nat.mul_comm _ _
            · intro r hr
              simp only [List.mem_map] at hr
              obtain ⟨j, _, rfl⟩ := hr
              rfl
          · intro c hc
            simp only [List.mem_flatten, List.mem_map] at hc
            obtain ⟨r, ⟨j, _, rfl⟩, hcr⟩ := hc
            simp at hcr
            rcases hcr with rfl | rfl | rfl <;> rfl

/-- the shape of a converted value is the shape of the value read. -/
theorem cartToRel_shape (box : Box Rat) (v v' : Val) (h : cartToRelVal box v = .ok v') :
    v'.shape = v.shape ∧ v'.dt = .flt := by
  unfold cartToRelVal at h
  split at h
  · cases h
  · split at h
    · cases h
    · split at h
      · cases h
      · split at h
        · cases h
        · injection h with h; subst h; exact ⟨rfl, rfl⟩

/-! ### `atoms_prop(key, index, scale=True)`: a pure read -/

/-- **reads do not write** — `System.atoms_prop(key, index, scale=True)` without value leaves the whole state
    (heap, objects, systems) literally unchanged, whatever it returns or raises. -/
theorem sysPropGetScaled_post (i : Nat) (key : String) (ix : Option Index) (s : State) :
    Post (sysPropGetScaled i key ix) s (fun _ s' => s' = s) := by
  unfold sysPropGetScaled
  rw [post_bind_getS]
  simp only []
  rw [post_bind]
  apply Post.mono (propGet_post _ key ix s)
  intro r s1 he
  subst he
  cases r with
  | error e => rfl
  | ok v => rfl

/-- the value returned is the exact box-relative image of what `prop(key, index)` returns. -/
theorem sysPropGetScaled_value (i : Nat) (key : String) (ix : Option Index) (s : State) (v' : Val)
    (h : (sysPropGetScaled i key ix s).1 = .ok v') :
    ∃ v, (propGet (s.sys i).atoms key ix s).1 = .ok v ∧ cartToRelVal (s.sys i).box v = .ok v' := by
  unfold sysPropGetScaled at h
  change (M.bind getS _ s).1 = _ at h
  simp only [M.bind, getS] at h
  change (M.bind (propGet (s.sys i).atoms key ix) _ s).1 = _ at h
  simp only [M.bind] at h
  have hp := propGet_post (s.sys i).atoms key ix s
  unfold Post at hp
  cases hr : propGet (s.sys i).atoms key ix s with
  | mk r s1 =>
    rw [hr] at hp h
    simp only at hp h
    cases r with
    | error e => simp at h
    | ok v =>
      simp only [liftE] at h
      exact ⟨v, rfl, h⟩

/-! ### `atoms_prop(index=…, scale=True)`: a new object with box-relative positions -/

theorem inv_sysPropGetAtomsScaled {κ : Nat → String} {s : State} (h : InvK κ s) (i : Nat) (ix : Option Index) :
    Post (sysPropGetAtomsScaled i ix) s (fun _ s' => Good κ s s') := by
  unfold sysPropGetAtomsScaled
  rw [post_bind_getS]
  simp only []
  apply post_good_bind (P := fun _ _ => True)
  · cases ix with
    | none => exact Post.mono (inv_deepcopy h _) (fun _ _ hm => ⟨Good.of_made hm, trivial⟩)
    | some jx => exact Post.mono (inv_propGetAtoms h _ jx) (fun _ _ hq => ⟨hq.1, trivial⟩)
  · intro t κ1 s1 hinv1 hext1 hb1 _
    rw [post_bind_getS]
    rw [post_bind_keyErr]
    split
    · rename_i pa hfind
      have hp := hinv1.find_ok t "pos" pa hfind
      rw [post_bind_liftE]
      cases hr : cartToRelVal (s.sys i).box (arrVal s1 pa) with
      | error e => exact Good.refl hinv1
      | ok v' =>
        simp only []
        rw [post_bind]
        apply Post.mono (inv_viewSet hinv1 t "pos" (.lit v') (cartToRel_ok _ _ _ (arrVal_ok hinv1 hp.valid) hr))
        intro r s2 ⟨hk, _⟩
        cases r with
        | error e => exact Good.of_kept hk
        | ok u => exact Good.of_kept hk
    · exact Good.refl hinv1

/-- `prop(index=…)` once more, with the two facts the scaled read needs on top of `propGetAtoms_frame`: the new
    object's id lies above every object that existed, and the heap only grew. -/
theorem propGetAtoms_frame2 {κ : Nat → String} {s : State} (h : InvK κ s) (hb : Boundary s) (o : Nat) (ix : Index)
    (ho : o < s.objs.length) :
    Post (propGetAtoms o ix) s (fun r s' => (∀ e, r = .error e → s' = s) ∧
      ∀ o', r = .ok o' → FrameOK s.heap.length s.objs.length s s' ∧ FreshObj s.heap.length o' s' ∧
        s.objs.length ≤ o' ∧ s.heap.length ≤ s'.heap.length) := by
  unfold propGetAtoms
  rw [post_atomic, post_bind]
  apply Post.mono (Post.and (inv_getItem h o ix) (getItem_refines h o ix (hb o ho)))
  intro r s1 ⟨hm, _, hok1⟩
  cases r with
  | error e =>
    refine ⟨fun _ _ => (by first | exact rfl | exact trivial), ?_⟩
    intro o' hc; cases hc
  | ok d =>
    simp only []
    obtain ⟨sel, _, hgr⟩ := hok1 d rfl
    have hap1 : HasAP (s1.obj d) := by
      obtain ⟨_, _, _, _, _, hok⟩ := hm
      exact (hok d rfl).2.2
    obtain ⟨κ1, hinv1, _, _, _, _⟩ := hm
    apply Post.mono (deepcopy_refines hinv1 d hap1)
    intro r s2 ⟨_, hok2⟩
    cases r with
    | error e =>
      refine ⟨fun _ _ => (by first | exact rfl | exact trivial), ?_⟩
      intro o' hc; cases hc
    | ok o' =>
      refine ⟨?_, ?_⟩
      · intro e hc; cases hc
      · intro o'' ho''
        have : o'' = o' := by
          have : (Except.ok o' : Except Err Nat) = .ok o'' := ho''
          injection this with this; exact this.symm
        subst this
        have hgr2 := hok2 o'' rfl
        have hl1 : s.objs.length ≤ s1.objs.length := by rw [hgr.objsLen]; omega
        refine ⟨hgr.frame.trans (hgr2.frame.weaken hgr.heap.len hl1), ?_, ?_, ?_⟩
        · intro p hp
          exact Nat.le_trans hgr.heap.len (hgr2.freshObj (Or.inl rfl) p hp)
        · rw [hgr2.id]; exact hl1
        · exact Nat.le_trans hgr.heap.len hgr2.heap.len

theorem deepcopy_frame2 {κ : Nat → String} {s : State} (h : InvK κ s) (hb : Boundary s) (o : Nat)
    (ho : o < s.objs.length) :
    Post (deepcopy o) s (fun r s' => (∀ e, r = .error e → s' = s) ∧
      ∀ o', r = .ok o' → FrameOK s.heap.length s.objs.length s s' ∧ FreshObj s.heap.length o' s' ∧
        s.objs.length ≤ o' ∧ s.heap.length ≤ s'.heap.length) := by
  apply Post.mono (deepcopy_refines h o (hb o ho))
  intro r s' ⟨herr, hok⟩
  refine ⟨herr, ?_⟩
  intro o' ho'
  have hgr := hok o' ho'
  exact ⟨hgr.frame, hgr.freshObj (Or.inl rfl), by rw [hgr.id]; exact Nat.le_refl _, hgr.heap.len⟩

/-- **frame of the scaled read** — `System.atoms_prop(index=…, scale=True)` (no key, no value; `index` may be
    absent), whatever it returns or raises, leaves every buffer and every object that existed before and every
    system literally unchanged, and the object it returns keeps all of its arrays — `pos`, overwritten in
    place with the box-relative positions, included — in buffers allocated by the call. -/
theorem sysPropGetAtomsScaled_frame {κ : Nat → String} {s : State} (h : InvK κ s) (hb : Boundary s) (i : Nat)
    (ix : Option Index) (hi : (s.sys i).atoms < s.objs.length) :
    Post (sysPropGetAtomsScaled i ix) s (fun r s' => FrameOK s.heap.length s.objs.length s s' ∧
      ∀ o', r = .ok o' → FreshObj s.heap.length o' s') := by
  unfold sysPropGetAtomsScaled
  rw [post_bind_getS]
  simp only []
  rw [post_bind]
  have hfirst : Post (match ix with
      | none => deepcopy (s.sys i).atoms
      | some ix => propGetAtoms (s.sys i).atoms ix : M Nat) s (fun r s' => (∀ e, r = .error e → s' = s) ∧
      ∀ o', r = .ok o' → FrameOK s.heap.length s.objs.length s s' ∧ FreshObj s.heap.length o' s' ∧
        s.objs.length ≤ o' ∧ s.heap.length ≤ s'.heap.length) := by
    cases ix with
    | none => exact deepcopy_frame2 h hb _ hi
    | some jx => exact propGetAtoms_frame2 h hb _ jx hi
  apply Post.mono hfirst
  intro r s1 ⟨herr, hok⟩
  cases r with
  | error e =>
    rw [herr e rfl]
    exact ⟨FrameOK.refl _ _ s, fun o' hc => by cases hc⟩
  | ok t =>
    simp only []
    obtain ⟨hf1, hfr1, hlt, hheap1⟩ := hok t rfl
    rw [post_bind_getS]
    rw [post_bind_keyErr]
    split
    · rw [post_bind_liftE]
      split
      · rename_i v' _
        rw [post_bind]
        apply Post.mono (viewSet_lit_frame t "pos" v' s1 s.heap.length s.objs.length hlt hheap1 hfr1)
        intro r s2 ⟨hf2, hfr2, _, _⟩
        cases r with
        | error e => exact ⟨hf1.trans hf2, fun o' hc => by cases hc⟩
        | ok u =>
          refine ⟨hf1.trans hf2, ?_⟩
          intro o' ho'
          have : o' = t := by
            have : (Except.ok t : Except Err Nat) = .ok o' := ho'
            injection this with this; exact this.symm
          subst this
          exact hfr2
      · exact ⟨hf1, fun o' hc => by cases hc⟩
    · exact ⟨hf1, fun o' hc => by cases hc⟩

/-! ### `copy.deepcopy(system)` -/

theorem inv_sysDeepcopy {κ : Nat → String} {s : State} (h : InvK κ s) (i : Nat) (hi : i < s.syss.length) :
    Post (sysDeepcopy i) s (fun _ s' => Good κ s s') := by
  unfold sysDeepcopy
  rw [post_bind_getS]
  simp only []
  have hy : s.sys i ∈ s.syss := by
    simp only [State.sys, List.getElem?_eq_getElem hi, Option.getD_some]
    exact List.getElem_mem hi
  have hpbc := (h.syss _ hy).2
  apply post_good_bind (P := fun r s1 => ∀ a, r = .ok a → a < s1.objs.length)
  · apply Post.mono (inv_deepcopy h _)
    intro r s1 hm
    refine ⟨Good.of_made hm, ?_⟩
    intro a ha; subst ha; exact hm.lt
  · intro a κ1 s1 hinv1 hext1 hb1 ha
    rw [post_bind]
    apply Post.of_eq _ _ (pushSys_eq _ s1)
    simp only []
    exact (inv_pushSys hinv1 { s.sys i with atoms := a } (ha a rfl) hpbc).good

/-! ### `System(…, scale=True, safecopy=True)` -/

theorem inv_mkSysX {κ : Nat → String} {s : State} (h : InvK κ s) (o : Nat) (box : Box Rat) (pbc : List Bool)
    (symbols : Option (List (Option String))) (masses : Option (List (Option Rat))) (scale safecopy : Bool)
    (ho : o < s.objs.length) :
    Post (mkSysX o box pbc symbols masses scale safecopy) s (fun _ s' => Good κ s s') := by
  unfold mkSysX
  rw [post_atomic]
  suffices hall : Post (do
      let a ← (if safecopy then deepcopy o else pure o : M Nat)
      let i ← mkSys a box pbc symbols masses
      (if scale then do
        let s ← getS
        let pa ← keyErr ((s.obj a).find "pos")
        sysPropSetScaled i "pos" none (arrVal s pa)
       else pure () : M Unit)
      pure (a, i) : M (Nat × Nat)) s (fun _ s' => Good κ s s') by
    apply Post.mono hall
    intro r s' hg
    cases r with
    | error e => exact Good.refl h
    | ok a => exact hg
  apply post_good_bind (P := fun r s1 => ∀ a, r = .ok a → a < s1.objs.length)
  · cases safecopy with
    | true =>
      apply Post.mono (inv_deepcopy h o)
      intro r s1 hm
      refine ⟨Good.of_made hm, ?_⟩
      intro a ha; subst ha; exact hm.lt
    | false =>
      refine ⟨Good.refl h, ?_⟩
      intro a ha
      have : (Except.ok o : Except Err Nat) = .ok a := ha
      injection this with this
      subst this
      exact ho
  · intro a κ1 s1 hinv1 hext1 hb1 ha
    apply post_good_bind (P := fun r s2 => s2.objs = s1.objs)
    · apply Post.mono (inv_mkSys hinv1 a box pbc symbols masses (ha a rfl))
      intro r s2 hk
      exact ⟨hk.good, hk.objs⟩
    · intro i κ2 s2 hinv2 hext2 hb2 hobjs
      apply post_good_bind (P := fun _ _ => True)
      · cases scale with
        | false => exact ⟨Good.refl hinv2, trivial⟩
        | true =>
          simp only [if_true]
          rw [post_bind_getS, post_bind_keyErr]
          split
          · rename_i pa hfind
            have hp := hinv2.find_ok a "pos" pa hfind
            apply Post.mono (inv_sysPropSetScaled hinv2 i "pos" none (arrVal s2 pa) (arrVal_ok hinv2 hp.valid))
            intro r s3 hk
            exact ⟨Good.of_kept hk, trivial⟩
          · exact ⟨Good.refl hinv2, trivial⟩
      · intro u κ3 s3 hinv3 hext3 hb3 _
        exact Good.refl hinv3

/-! ### `System(…, safecopy=True)`: the given atoms are left alone -/

theorem sys_push_last (s : State) (y : SysObj) :
    ({ s with syss := s.syss ++ [y] } : State).sys s.syss.length = y := by
  simp [State.sys]

/-- `System(...)` once more, with what the caller gets back: the new system is bound to the atoms and the box handed in. -/
theorem mkSys_result {κ : Nat → String} {s : State} (h : InvK κ s) (o : Nat) (box : Box Rat) (pbc : List Bool)
    (symbols : Option (List (Option String))) (masses : Option (List (Option Rat))) (ho : o < s.objs.length) :
    Post (mkSys o box pbc symbols masses) s (fun r s' => SysKept κ s s' ∧
      ∀ i, r = .ok i → (s'.sys i).atoms = o ∧ (s'.sys i).box = box) := by
  unfold mkSys
  rw [post_atomic]
  simp only []
  rw [post_bind]
  apply Post.of_eq _ _ (pushSys_eq _ s)
  simp only []
  have hk0 := inv_pushSys h ⟨o, box, [true, true, true], [], []⟩ ho rfl
  have hlast := sys_push_last s ⟨o, box, [true, true, true], [], []⟩
  have hlt : s.syss.length < ({ s with syss := s.syss ++ [⟨o, box, [true, true, true], [], []⟩] } : State).syss.length := by
    simp
  rw [post_bind]
  apply Post.mono (inv_pbcSet hk0.inv _ pbc)
  intro r s1 hk1
  cases r with
  | error e => exact ⟨SysKept.refl h, fun i hc => by cases hc⟩
  | ok u =>
    simp only []
    rw [post_bind]
    apply Post.mono (inv_symbolsSet hk1.1.inv _ _)
    intro r s2 ⟨hk2, _⟩
    cases r with
    | error e => exact ⟨SysKept.refl h, fun i hc => by cases hc⟩
    | ok u =>
      simp only []
      rw [post_bind]
      apply Post.mono (inv_massesSet hk2.1.inv _ _)
      intro r s3 ⟨hk3, _⟩
      cases r with
      | error e => exact ⟨SysKept.refl h, fun i hc => by cases hc⟩
      | ok u =>
        simp only []
        rw [post_pure]
        refine ⟨((hk0.trans hk1.1).trans hk2.1).trans hk3.1, ?_⟩
        intro i hi
        have : i = s.syss.length := by
          have : (Except.ok s.syss.length : Except Err Nat) = .ok i := hi
          injection this with this; exact this.symm
        subst this
        have h13 := ((hk1.1.trans hk2.1).trans hk3.1).sys s.syss.length hlt
        rw [hlast] at h13
        exact h13

/-- buffers below `n` and objects below `m` are literally the same in `s'` (`FrameOK` without the systems: a
    constructor of a `System` adds one). -/
def ObjFrame (n m : Nat) (s s' : State) : Prop :=
  (∀ b, b < n → s'.buf b = s.buf b) ∧ (∀ o, o < m → s'.obj o = s.obj o)

theorem ObjFrame.refl (n m : Nat) (s : State) : ObjFrame n m s s := ⟨fun _ _ => rfl, fun _ _ => rfl⟩

theorem mkSysX_safecopy_frame {κ : Nat → String} {s : State} (h : InvK κ s) (hb : Boundary s) (o : Nat) (box : Box Rat)
    (pbc : List Bool) (symbols : Option (List (Option String))) (masses : Option (List (Option Rat))) (scale : Bool)
    (ho : o < s.objs.length) :
    Post (mkSysX o box pbc symbols masses scale true) s (fun r s' => ObjFrame s.heap.length s.objs.length s s' ∧
      ∀ a i, r = .ok (a, i) → FreshObj s.heap.length a s' ∧ (s'.sys i).atoms = a ∧ (s'.sys i).box = box) := by
  unfold mkSysX
  rw [post_atomic]
  simp only [if_true]
  rw [post_bind]
  apply Post.mono (Post.and (inv_deepcopy h o) (deepcopy_frame2 h hb o ho))
  intro r s1 ⟨hm, herr, hok⟩
  cases r with
  | error e => exact ⟨ObjFrame.refl _ _ s, fun a i hc => by cases hc⟩
  | ok a =>
    simp only []
    obtain ⟨hf1, hfr1, hlt, hheap1⟩ := hok a rfl
    have ha : a < s1.objs.length := hm.lt
    obtain ⟨κ1, hinv1, _, _, _, _⟩ := hm
    rw [post_bind]
    apply Post.mono (mkSys_result hinv1 a box pbc symbols masses ha)
    intro r s2 ⟨hk, hres⟩
    cases r with
    | error e => exact ⟨ObjFrame.refl _ _ s, fun a i hc => by cases hc⟩
    | ok i =>
      simp only []
      obtain ⟨hat, hbox⟩ := hres i rfl
      have hbuf2 : ∀ b, s2.buf b = s1.buf b := by intro b; simp [State.buf, hk.heap]
      have hobj2 : ∀ o', s2.obj o' = s1.obj o' := by intro o'; simp [State.obj, hk.objs]
      have hframe2 : ObjFrame s.heap.length s.objs.length s s2 :=
        ⟨fun b hb' => (hbuf2 b).trans (hf1.1 b hb'), fun o' ho' => (hobj2 o').trans (hf1.2.1 o' ho')⟩
      have hfr2 : FreshObj s.heap.length a s2 := by
        intro p hp; rw [hobj2] at hp; exact hfr1 p hp
      have hheap2 : s.heap.length ≤ s2.heap.length := by rw [hk.heap]; exact hheap1
      rw [post_bind]
      cases scale with
      | false =>
        exact ⟨hframe2, fun a' i' hc => by
          have : (Except.ok (a, i) : Except Err (Nat × Nat)) = .ok (a', i') := hc
          injection this with this
          injection this with h1 h2
          subst h1; subst h2
          exact ⟨hfr2, hat, hbox⟩⟩
      | true =>
        simp only [if_true]
        rw [post_bind_getS, post_bind_keyErr]
        split
        · rename_i pa hfind
          unfold sysPropSetScaled
          rw [post_bind_getS]
          simp only []
          rw [post_bind_liftE]
          split
          · rename_i v' hv'
            rw [hat]
            show Post (viewSet a "pos" (.lit v')) s2 _
            apply Post.mono (viewSet_lit_frame a "pos" v' s2 s.heap.length s.objs.length hlt hheap2 hfr2)
            intro r s3 ⟨hf3, hfr3, _, _⟩
            have hframe3 : ObjFrame s.heap.length s.objs.length s s3 :=
              ⟨fun b hb' => (hf3.1 b hb').trans (hframe2.1 b hb'), fun o' ho' => (hf3.2.1 o' ho').trans (hframe2.2 o' ho')⟩
            cases r with
            | error e => exact ⟨ObjFrame.refl _ _ s, fun a i hc => by cases hc⟩
            | ok u =>
              refine ⟨hframe3, fun a' i' hc => ?_⟩
              have : (Except.ok (a, i) : Except Err (Nat × Nat)) = .ok (a', i') := hc
              injection this with this
              injection this with h1 h2
              subst h1; subst h2
              have hsys : s3.sys i = s2.sys i := by simp [State.sys, hf3.2.2]
              exact ⟨hfr3, by show (s3.sys i).atoms = a; rw [hsys]; exact hat,
                by show (s3.sys i).box = box; rw [hsys]; exact hbox⟩
          · exact ⟨ObjFrame.refl _ _ s, fun a i hc => by cases hc⟩
        · exact ⟨ObjFrame.refl _ _ s, fun a i hc => by cases hc⟩

/-- a bind that returns went through a returning first step. -/
theorem bind_ok_inv {α β : Type} (m : M α) (f : α → M β) (s s' : State) (b : β) (h : (m >>= f) s = (.ok b, s')) :
    ∃ a s1, m s = (.ok a, s1) ∧ f a s1 = (.ok b, s') := by
  change M.bind m f s = _ at h
  unfold M.bind at h
  cases hm : m s with
  | mk r s1 =>
    rw [hm] at h
    cases r with
    | error e => simp at h
    | ok a => exact ⟨a, s1, rfl, h⟩

end Atomman.C06
