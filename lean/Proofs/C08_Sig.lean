/-
  C08 — the data-file loader factors through the *significant lines* of the file: a simulation between the
  first pass as coded (physical line numbers, `skiprows` offsets) and a fold over the lines that have terms.
-/
import Proofs.C08_Lemmas
namespace Atomman.C08
open Atomman Atomman.C07
set_option linter.unusedSimpArgs false


/-- what the data-file loader looks at in a physical line: its terms, and on an `Atoms` line its comment. -/
structure SigLine where
  terms : Line
  hint : Option (List Char)
deriving DecidableEq

def sigOf (l : RawLine) : SigLine := ⟨termsC l, if classify (termsC l) = .atoms then hintOf l else none⟩

/-- the significant lines of a data file, in order. -/
def sig (lines : List RawLine) : List SigLine := (lines.map sigOf).filter fun s => !s.terms.isEmpty

/-- first-pass state with the two offsets replaced by the rows they select. -/
structure FPA where
  st : FP
  rowsA : Option (List Line)
  rowsV : Option (List Line)

def FP.erase (s : FP) : FP :=
  { s with atomsStart := s.atomsStart.map fun _ => 1, velStart := s.velStart.map fun _ => 1 }

def setsVel (terms : Line) (s : FP) : Bool :=
  decide (classify terms = .velocities) && !s.firstAtoms && decide (s.massesToRead = 0)

def fpStepA (lf : Option Rat) (sl : SigLine) (a : FPA) : Res FPA := do
  let st' ← fpStepT lf 0 sl.terms sl.hint a.st
  pure ⟨st', if classify sl.terms = .atoms then some [] else a.rowsA.map (· ++ [sl.terms]),
        if setsVel sl.terms a.st then some [] else a.rowsV.map (· ++ [sl.terms])⟩

def fpLoopA (lf : Option Rat) : List SigLine → FPA → Res FPA
  | [], a => pure a
  | sl :: sls, a => do let a' ← fpStepA lf sl a; fpLoopA lf sls a'

theorem fpStepT_hint (lf : Option Rat) (i : Nat) (t : Line) (h : Option (List Char)) (s : FP) :
    fpStepT lf i t h s = fpStepT lf i t (if classify t = .atoms then h else none) s := by
  unfold fpStepT
  by_cases hc : classify t = .atoms
  · simp [hc]
  · simp only [hc, if_false]
    split
    · rfl
    · cases hk : classify t <;> simp_all

theorem fpStep_sig (lf : Option Rat) (i : Nat) (l : RawLine) (s : FP) :
    fpStep lf i l s = fpStepT lf i (sigOf l).terms (sigOf l).hint s := by
  unfold fpStep sigOf
  exact fpStepT_hint lf i (termsC l) (hintOf l) s



theorem erase_fields (s : FP) : s.erase.firstAtoms = s.firstAtoms ∧ s.erase.massesToRead = s.massesToRead ∧
    s.erase.natypes = s.natypes ∧ s.erase.masses = s.masses := ⟨rfl, rfl, rfl, rfl⟩

theorem fpStepT_erase (lf : Option Rat) (i : Nat) (t : Line) (h : Option (List Char)) (s : FP) :
    (fpStepT lf i t h s).map FP.erase = fpStepT lf 0 t h s.erase := by
  unfold fpStepT
  split
  · rfl
  · cases hk : classify t with
    | natoms n => cases hp : pyInt n <;> simp [bind, Except.bind, pure, Except.pure, Except.map, FP.erase, hp]
    | natypes n => cases hp : pyInt n <;> simp [bind, Except.bind, pure, Except.pure, Except.map, FP.erase, hp]
    | xb a b =>
      cases hp : pyFloat a <;> cases hq : pyFloat b <;>
        simp [bind, Except.bind, pure, Except.pure, Except.map, FP.erase, hp, hq]
    | yb a b =>
      cases hp : pyFloat a <;> cases hq : pyFloat b <;>
        simp [bind, Except.bind, pure, Except.pure, Except.map, FP.erase, hp, hq]
    | zb a b =>
      cases hp : pyFloat a <;> cases hq : pyFloat b <;>
        simp [bind, Except.bind, pure, Except.pure, Except.map, FP.erase, hp, hq]
    | tilt a b c =>
      cases hp : pyFloat a <;> cases hq : pyFloat b <;> cases hr : pyFloat c <;>
        simp [bind, Except.bind, pure, Except.pure, Except.map, FP.erase, hp, hq, hr]
    | atoms => simp [pure, Except.pure, Except.map, FP.erase]
    | masses =>
      simp only [erase_fields]
      by_cases h1 : s.firstAtoms = true
      · simp [h1, pure, Except.pure, Except.map, FP.erase]
      · simp only [h1]
        cases hn : s.natypes <;> simp [pure, Except.pure, Except.map, FP.erase, throw, throwThe, MonadExceptOf.throw]
    | velocities =>
      simp only [erase_fields]
      by_cases h1 : s.firstAtoms = true
      · simp [h1, pure, Except.pure, Except.map, FP.erase]
      · simp only [h1]
        by_cases h2 : 0 < s.massesToRead
        · simp only [h2]
          cases hm : s.masses with
          | none => simp [Except.map, throw, throwThe, MonadExceptOf.throw]
          | some m =>
            cases hr : readMass t m <;> simp [bind, Except.bind, pure, Except.pure, Except.map, FP.erase, hr]
        · simp [h2, pure, Except.pure, Except.map, FP.erase]
    | other =>
      simp only [erase_fields]
      by_cases h1 : s.firstAtoms = true
      · simp [h1, pure, Except.pure, Except.map, FP.erase]
      · simp only [h1]
        by_cases h2 : 0 < s.massesToRead
        · simp only [h2]
          cases hm : s.masses with
          | none => simp [Except.map, throw, throwThe, MonadExceptOf.throw]
          | some m =>
            cases hr : readMass t m <;> simp [bind, Except.bind, pure, Except.pure, Except.map, FP.erase, hr]
        · simp [h2, pure, Except.pure, Except.map, FP.erase]


/-- which offsets a step sets. -/
theorem fpStepT_offsets (lf : Option Rat) (i : Nat) (t : Line) (h : Option (List Char)) (s s' : FP)
    (hs : fpStepT lf i t h s = .ok s') (hne : t.isEmpty = false) :
    s'.atomsStart = (if classify t = .atoms then some (i + 1) else s.atomsStart) ∧
    s'.velStart = (if setsVel t s = true then some (i + 1) else s.velStart) := by
  unfold fpStepT at hs
  simp only [hne, Bool.false_eq_true, if_false] at hs
  unfold setsVel
  cases hk : classify t with
  | natoms n =>
    rw [hk] at hs
    cases hp : pyInt n <;> simp [bind, Except.bind, pure, Except.pure, hp] at hs
    subst hs; simp
  | natypes n =>
    rw [hk] at hs
    cases hp : pyInt n <;> simp [bind, Except.bind, pure, Except.pure, hp] at hs
    subst hs; simp
  | xb a b =>
    rw [hk] at hs
    cases hp : pyFloat a <;> cases hq : pyFloat b <;> simp [bind, Except.bind, pure, Except.pure, hp, hq] at hs
    subst hs; simp
  | yb a b =>
    rw [hk] at hs
    cases hp : pyFloat a <;> cases hq : pyFloat b <;> simp [bind, Except.bind, pure, Except.pure, hp, hq] at hs
    subst hs; simp
  | zb a b =>
    rw [hk] at hs
    cases hp : pyFloat a <;> cases hq : pyFloat b <;> simp [bind, Except.bind, pure, Except.pure, hp, hq] at hs
    subst hs; simp
  | tilt a b c =>
    rw [hk] at hs
    cases hp : pyFloat a <;> cases hq : pyFloat b <;> cases hr : pyFloat c <;>
      simp [bind, Except.bind, pure, Except.pure, hp, hq, hr] at hs
    subst hs; simp
  | atoms =>
    rw [hk] at hs
    simp [pure, Except.pure] at hs
    subst hs; simp
  | masses =>
    rw [hk] at hs
    by_cases h1 : s.firstAtoms = true
    · simp [h1, pure, Except.pure] at hs; subst hs; simp
    · simp only [h1] at hs
      cases hn : s.natypes <;> simp [hn, pure, Except.pure, throw, throwThe, MonadExceptOf.throw] at hs
      subst hs; simp
  | velocities =>
    rw [hk] at hs
    by_cases h1 : s.firstAtoms = true
    · simp [h1, pure, Except.pure] at hs; subst hs; simp [h1]
    · simp only [h1] at hs
      by_cases h2 : 0 < s.massesToRead
      · simp only [h2] at hs
        cases hm : s.masses with
        | none => simp [hm, throw, throwThe, MonadExceptOf.throw] at hs
        | some m =>
          cases hr : readMass t m <;> simp [hm, bind, Except.bind, pure, Except.pure, hr] at hs
          subst hs
          have : s.massesToRead ≠ 0 := by omega
          simp [h1, this]
      · have h0 : s.massesToRead = 0 := by omega
        simp [h2, pure, Except.pure] at hs; subst hs
        simp [h1, h0]
  | other =>
    rw [hk] at hs
    by_cases h1 : s.firstAtoms = true
    · simp [h1, pure, Except.pure] at hs; subst hs; simp
    · simp only [h1] at hs
      by_cases h2 : 0 < s.massesToRead
      · simp only [h2] at hs
        cases hm : s.masses with
        | none => simp [hm, throw, throwThe, MonadExceptOf.throw] at hs
        | some m =>
          cases hr : readMass t m <;> simp [hm, bind, Except.bind, pure, Except.pure, hr] at hs
          subst hs; simp
      · simp [h2, pure, Except.pure] at hs; subst hs; simp


theorem rowsOf_append (c : Bool) (a b : List RawLine) : rowsOf c (a ++ b) = rowsOf c a ++ rowsOf c b := by
  simp [rowsOf, List.map_append, List.filter_append]

theorem rowsOf_single_empty (l : RawLine) (h : (termsC l).isEmpty = true) : rowsOf true [l] = [] := by
  simp [rowsOf, termsOf, h]

theorem rowsOf_single (l : RawLine) (h : (termsC l).isEmpty = false) : rowsOf true [l] = [termsC l] := by
  simp [rowsOf, termsOf, h]

def offRel (done : List RawLine) (off : Option Nat) (rows : Option (List Line)) : Prop :=
  match off with
  | none => rows = none
  | some k => k ≤ done.length ∧ rows = some (rowsOf true (done.drop k))

def rel (done : List RawLine) (s : FP) (a : FPA) : Prop :=
  a.st = s.erase ∧ offRel done s.atomsStart a.rowsA ∧ offRel done s.velStart a.rowsV

theorem offRel_skip (done : List RawLine) (l : RawLine) (off : Option Nat) (rows : Option (List Line))
    (h : offRel done off rows) (he : (termsC l).isEmpty = true) : offRel (done ++ [l]) off rows := by
  cases off with
  | none => exact h
  | some k =>
    obtain ⟨h1, h2⟩ := h
    refine ⟨by simp; omega, ?_⟩
    rw [List.drop_append_of_le_length h1, rowsOf_append, rowsOf_single_empty l he, List.append_nil]
    exact h2

theorem offRel_push (done : List RawLine) (l : RawLine) (off : Option Nat) (rows : Option (List Line))
    (h : offRel done off rows) (he : (termsC l).isEmpty = false) :
    offRel (done ++ [l]) off (rows.map (· ++ [termsC l])) := by
  cases off with
  | none => simp [offRel] at h ⊢; exact h
  | some k =>
    obtain ⟨h1, h2⟩ := h
    refine ⟨by simp; omega, ?_⟩
    rw [List.drop_append_of_le_length h1, rowsOf_append, rowsOf_single l he, h2]
    rfl

theorem offRel_set (done : List RawLine) (l : RawLine) :
    offRel (done ++ [l]) (some (done.length + 1)) (some []) := by
  refine ⟨by simp, ?_⟩
  have : (done ++ [l]).drop (done.length + 1) = [] := by
    apply List.drop_eq_nil_of_le; simp
  rw [this]; rfl

theorem sig_cons (l : RawLine) (ls : List RawLine) :
    sig (l :: ls) = if (termsC l).isEmpty then sig ls else sigOf l :: sig ls := by
  unfold sig
  simp only [List.map_cons, List.filter_cons]
  have : (sigOf l).terms = termsC l := rfl
  rw [this]
  cases (termsC l).isEmpty <;> simp

theorem fpStepT_empty (lf : Option Rat) (i : Nat) (t : Line) (h : Option (List Char)) (s : FP)
    (he : t.isEmpty = true) : fpStepT lf i t h s = .ok s := by
  unfold fpStepT; simp [he]; rfl

theorem setsVel_erase (t : Line) (s : FP) : setsVel t s.erase = setsVel t s := rfl

/-- one line of the file against one step over its significant lines. -/
theorem sim_step (lf : Option Rat) (done : List RawLine) (l : RawLine) (s : FP) (a : FPA) (hr : rel done s a)
    (he : (termsC l).isEmpty = false) :
    (∀ s', fpStep lf done.length l s = .ok s' → ∃ a', fpStepA lf (sigOf l) a = .ok a' ∧ rel (done ++ [l]) s' a') ∧
    (∀ e, fpStep lf done.length l s = .error e → fpStepA lf (sigOf l) a = .error e) := by
  obtain ⟨h1, h2, h3⟩ := hr
  have herase := fpStepT_erase lf done.length (sigOf l).terms (sigOf l).hint s
  rw [fpStep_sig]
  constructor
  · intro s' hs
    rw [hs] at herase
    have hoff := fpStepT_offsets lf done.length (sigOf l).terms (sigOf l).hint s s' hs he
    refine ⟨⟨s'.erase, if classify (sigOf l).terms = .atoms then some [] else a.rowsA.map (· ++ [(sigOf l).terms]),
        if setsVel (sigOf l).terms a.st then some [] else a.rowsV.map (· ++ [(sigOf l).terms])⟩, ?_, rfl, ?_, ?_⟩
    · unfold fpStepA
      rw [h1, ← herase]
      rfl
    · rw [hoff.1]
      by_cases hc : classify (sigOf l).terms = .atoms
      · simp only [hc, if_true]; exact offRel_set done l
      · simp only [hc, if_false]; exact offRel_push done l _ _ h2 he
    · rw [hoff.2, h1, setsVel_erase]
      by_cases hc : setsVel (sigOf l).terms s = true
      · simp only [hc, if_true]; exact offRel_set done l
      · simp only [hc, if_false]; exact offRel_push done l _ _ h3 he
  · intro e hs
    rw [hs] at herase
    unfold fpStepA
    rw [h1, ← herase]
    rfl

theorem sim (lf : Option Rat) : ∀ (ls done : List RawLine) (s : FP) (a : FPA), rel done s a →
    (∀ s', fpLoop lf done.length ls s = .ok s' → ∃ a', fpLoopA lf (sig ls) a = .ok a' ∧ rel (done ++ ls) s' a') ∧
    (∀ e, fpLoop lf done.length ls s = .error e → fpLoopA lf (sig ls) a = .error e) := by
  intro ls
  induction ls with
  | nil =>
    intro done s a hr
    constructor
    · intro s' h
      simp only [fpLoop, pure, Except.pure] at h
      injection h with h; subst h
      exact ⟨a, rfl, by simpa using hr⟩
    · intro e h; simp [fpLoop, pure, Except.pure] at h
  | cons l ls ih =>
    intro done s a hr
    have hlen : (done ++ [l]).length = done.length + 1 := by simp
    have happ : done ++ l :: ls = (done ++ [l]) ++ ls := by simp
    rw [sig_cons]
    by_cases he : (termsC l).isEmpty = true
    · -- a line without terms: no step on either side
      have hstep : fpStep lf done.length l s = .ok s := by
        unfold fpStep; exact fpStepT_empty _ _ _ _ _ he
      have hr' : rel (done ++ [l]) s a := ⟨hr.1, offRel_skip _ _ _ _ hr.2.1 he, offRel_skip _ _ _ _ hr.2.2 he⟩
      have := ih (done ++ [l]) s a hr'
      simp only [he, if_true]
      unfold fpLoop
      simp only [hstep, bind, Except.bind]
      rw [hlen] at this
      rw [happ]
      exact this
    · have he' : (termsC l).isEmpty = false := by simpa using he
      simp only [he', Bool.false_eq_true, if_false]
      obtain ⟨hok, herr⟩ := sim_step lf done l s a hr he'
      unfold fpLoop fpLoopA
      cases hs : fpStep lf done.length l s with
      | error e =>
        rw [herr e hs]
        simp only [bind, Except.bind]
        exact ⟨fun s' h => (by cases h), fun e' h => (by injection h with h; rw [h])⟩
      | ok s1 =>
        obtain ⟨a1, ha1, hr1⟩ := hok s1 hs
        rw [ha1]
        simp only [bind, Except.bind]
        have := ih (done ++ [l]) s1 a1 hr1
        rw [hlen] at this
        rw [happ]
        exact this

/-! ### the loader as a function of the significant lines -/

def FPA.init : FPA := ⟨{}, none, none⟩

/-- the data-file loader as a function of the significant lines only (`short`: the file has at most one line). -/
def loadDataSig (sl : List SigLine) (short : Bool) (pbc : V3 Bool) (symbols : Option (List (Option String)))
    (styleArg : Option String) (u : Units) : Res Loaded := do
  let lf ← lengthFactor u
  let a ← fpLoopA lf sl FPA.init
  let fp ← fpFinish a.st short
  loadDataCore fp (a.rowsA.getD []) a.rowsV pbc symbols styleArg u

theorem fpFinish_erase (s : FP) (short : Bool) : fpFinish s.erase short = fpFinish s short := by
  unfold fpFinish
  have : s.erase.atomsStart.isNone = s.atomsStart.isNone := by
    simp [FP.erase]
  simp only [this]
  rfl

theorem fpFinish_atomsStart (s : FP) (short : Bool) (fp : FirstPass) (h : fpFinish s short = .ok fp) :
    s.atomsStart.isSome = true := by
  unfold fpFinish at h
  cases hs : s.atomsStart with
  | some k => rfl
  | none =>
    exfalso
    simp only [hs, Option.isNone_none] at h
    cases short <;> cases hn : s.natoms <;> cases hx : s.x <;> cases hy : s.y <;> cases hz : s.z <;>
      simp [hn, hx, hy, hz, bind, Except.bind, pure, Except.pure, throw, throwThe, MonadExceptOf.throw] at h

theorem rel_init : rel [] {} FPA.init := ⟨rfl, rfl, rfl⟩

/-- **the loader factors through the significant lines.** -/
theorem loadDataLines_eq_sig (lines : List RawLine) (pbc : V3 Bool) (symbols : Option (List (Option String)))
    (styleArg : Option String) (u : Units) :
    loadDataLines lines pbc symbols styleArg u =
      loadDataSig (sig lines) (decide (lines.length ≤ 1)) pbc symbols styleArg u := by
  unfold loadDataLines loadDataSig
  cases hlf : lengthFactor u with
  | error e => rfl
  | ok lf =>
    simp only [bind, Except.bind]
    obtain ⟨hok, herr⟩ := sim lf lines [] {} FPA.init rel_init
    simp only [List.length_nil, List.nil_append] at hok herr
    cases hs : fpLoop lf 0 lines {} with
    | error e => rw [herr e hs]
    | ok s =>
      obtain ⟨a, ha, h1, h2, h3⟩ := hok s hs
      rw [ha]
      simp only []
      rw [h1, fpFinish_erase]
      cases hf : fpFinish s (decide (lines.length ≤ 1)) with
      | error e => rfl
      | ok fp =>
        simp only []
        have hA := fpFinish_atomsStart s _ fp hf
        cases hk : s.atomsStart with
        | none => rw [hk] at hA; cases hA
        | some k =>
          rw [hk] at h2
          obtain ⟨_, h2⟩ := h2
          rw [h2]
          simp only [Option.getD_some]
          cases hv : s.velStart with
          | none =>
            rw [hv] at h3
            simp only [offRel] at h3
            rw [h3]; rfl
          | some kv =>
            rw [hv] at h3
            obtain ⟨_, h3⟩ := h3
            rw [h3]; rfl

/-! ### header fields are set only by their own line kind -/

/-- a step changes a header field only on the line kind that carries it. -/
theorem fpStepT_frame (lf : Option Rat) (i : Nat) (t : Line) (h : Option (List Char)) (s s' : FP)
    (hs : fpStepT lf i t h s = .ok s') :
    ((∀ n, classify t ≠ .natoms n) → s'.natoms = s.natoms) ∧
    ((∀ a b, classify t ≠ .xb a b) → s'.x = s.x) ∧
    ((∀ a b, classify t ≠ .yb a b) → s'.y = s.y) ∧
    ((∀ a b, classify t ≠ .zb a b) → s'.z = s.z) ∧
    (classify t ≠ .atoms → s'.atomsStart = s.atomsStart) := by
  unfold fpStepT at hs
  by_cases hne : t.isEmpty = true
  · simp only [hne, if_true, pure, Except.pure] at hs
    injection hs with hs; subst hs
    exact ⟨fun _ => rfl, fun _ => rfl, fun _ => rfl, fun _ => rfl, fun _ => rfl⟩
  · simp only [hne, Bool.false_eq_true, if_false] at hs
    cases hk : classify t with
    | natoms n =>
      rw [hk] at hs
      cases hp : pyInt n <;> simp [bind, Except.bind, pure, Except.pure, hp] at hs
      subst hs
      exact ⟨fun hc => absurd rfl (hc n), fun _ => rfl, fun _ => rfl, fun _ => rfl, fun _ => rfl⟩
    | natypes n =>
      rw [hk] at hs
      cases hp : pyInt n <;> simp [bind, Except.bind, pure, Except.pure, hp] at hs
      subst hs
      exact ⟨fun _ => rfl, fun _ => rfl, fun _ => rfl, fun _ => rfl, fun _ => rfl⟩
    | xb a b =>
      rw [hk] at hs
      cases hp : pyFloat a <;> cases hq : pyFloat b <;> simp [bind, Except.bind, pure, Except.pure, hp, hq] at hs
      subst hs
      exact ⟨fun _ => rfl, fun hc => absurd rfl (hc a b), fun _ => rfl, fun _ => rfl, fun _ => rfl⟩
    | yb a b =>
      rw [hk] at hs
      cases hp : pyFloat a <;> cases hq : pyFloat b <;> simp [bind, Except.bind, pure, Except.pure, hp, hq] at hs
      subst hs
      exact ⟨fun _ => rfl, fun _ => rfl, fun hc => absurd rfl (hc a b), fun _ => rfl, fun _ => rfl⟩
    | zb a b =>
      rw [hk] at hs
      cases hp : pyFloat a <;> cases hq : pyFloat b <;> simp [bind, Except.bind, pure, Except.pure, hp, hq] at hs
      subst hs
      exact ⟨fun _ => rfl, fun _ => rfl, fun _ => rfl, fun hc => absurd rfl (hc a b), fun _ => rfl⟩
    | tilt a b c =>
      rw [hk] at hs
      cases hp : pyFloat a <;> cases hq : pyFloat b <;> cases hr : pyFloat c <;>
        simp [bind, Except.bind, pure, Except.pure, hp, hq, hr] at hs
      subst hs
      exact ⟨fun _ => rfl, fun _ => rfl, fun _ => rfl, fun _ => rfl, fun _ => rfl⟩
    | atoms =>
      rw [hk] at hs
      simp [pure, Except.pure] at hs
      subst hs
      exact ⟨fun _ => rfl, fun _ => rfl, fun _ => rfl, fun _ => rfl, fun hc => absurd rfl hc⟩
    | masses =>
      rw [hk] at hs
      by_cases h1 : s.firstAtoms = true
      · simp [h1, pure, Except.pure] at hs; subst hs
        exact ⟨fun _ => rfl, fun _ => rfl, fun _ => rfl, fun _ => rfl, fun _ => rfl⟩
      · simp only [h1] at hs
        cases hn : s.natypes <;> simp [hn, pure, Except.pure, throw, throwThe, MonadExceptOf.throw] at hs
        subst hs
        exact ⟨fun _ => rfl, fun _ => rfl, fun _ => rfl, fun _ => rfl, fun _ => rfl⟩
    | velocities =>
      rw [hk] at hs
      by_cases h1 : s.firstAtoms = true
      · simp [h1, pure, Except.pure] at hs; subst hs
        exact ⟨fun _ => rfl, fun _ => rfl, fun _ => rfl, fun _ => rfl, fun _ => rfl⟩
      · simp only [h1] at hs
        by_cases h2 : 0 < s.massesToRead
        · simp only [h2] at hs
          cases hm : s.masses with
          | none => simp [hm, throw, throwThe, MonadExceptOf.throw] at hs
          | some m =>
            cases hr : readMass t m <;> simp [hm, bind, Except.bind, pure, Except.pure, hr] at hs
            subst hs
            exact ⟨fun _ => rfl, fun _ => rfl, fun _ => rfl, fun _ => rfl, fun _ => rfl⟩
        · simp [h2, pure, Except.pure] at hs; subst hs
          exact ⟨fun _ => rfl, fun _ => rfl, fun _ => rfl, fun _ => rfl, fun _ => rfl⟩
    | other =>
      rw [hk] at hs
      by_cases h1 : s.firstAtoms = true
      · simp [h1, pure, Except.pure] at hs; subst hs
        exact ⟨fun _ => rfl, fun _ => rfl, fun _ => rfl, fun _ => rfl, fun _ => rfl⟩
      · simp only [h1] at hs
        by_cases h2 : 0 < s.massesToRead
        · simp only [h2] at hs
          cases hm : s.masses with
          | none => simp [hm, throw, throwThe, MonadExceptOf.throw] at hs
          | some m =>
            cases hr : readMass t m <;> simp [hm, bind, Except.bind, pure, Except.pure, hr] at hs
            subst hs
            exact ⟨fun _ => rfl, fun _ => rfl, fun _ => rfl, fun _ => rfl, fun _ => rfl⟩
        · simp [h2, pure, Except.pure] at hs; subst hs
          exact ⟨fun _ => rfl, fun _ => rfl, fun _ => rfl, fun _ => rfl, fun _ => rfl⟩

/-- a required item that no significant line carries stays unset through the whole first pass. -/
theorem fpLoopA_frame (lf : Option Rat) (sl : List SigLine) (a a' : FPA) (h : fpLoopA lf sl a = .ok a') :
    ((∀ e ∈ sl, ∀ n, classify e.terms ≠ .natoms n) → a'.st.natoms = a.st.natoms) ∧
    ((∀ e ∈ sl, ∀ p q, classify e.terms ≠ .xb p q) → a'.st.x = a.st.x) ∧
    ((∀ e ∈ sl, ∀ p q, classify e.terms ≠ .yb p q) → a'.st.y = a.st.y) ∧
    ((∀ e ∈ sl, ∀ p q, classify e.terms ≠ .zb p q) → a'.st.z = a.st.z) ∧
    ((∀ e ∈ sl, classify e.terms ≠ .atoms) → a'.st.atomsStart = a.st.atomsStart) := by
  induction sl generalizing a with
  | nil =>
    simp only [fpLoopA, pure, Except.pure] at h
    injection h with h; subst h
    exact ⟨fun _ => rfl, fun _ => rfl, fun _ => rfl, fun _ => rfl, fun _ => rfl⟩
  | cons e es ih =>
    unfold fpLoopA at h
    cases hs : fpStepA lf e a with
    | error err => simp [hs, bind, Except.bind] at h
    | ok a1 =>
      simp only [hs, bind, Except.bind] at h
      obtain ⟨i1, i2, i3, i4, i5⟩ := ih a1 h
      unfold fpStepA at hs
      cases ht : fpStepT lf 0 e.terms e.hint a.st with
      | error err => simp [ht, bind, Except.bind] at hs
      | ok st1 =>
        simp only [ht, bind, Except.bind, pure, Except.pure] at hs
        injection hs with hs
        have hst : a1.st = st1 := by rw [← hs]
        obtain ⟨f1, f2, f3, f4, f5⟩ := fpStepT_frame lf 0 e.terms e.hint a.st st1 ht
        refine ⟨fun hc => ?_, fun hc => ?_, fun hc => ?_, fun hc => ?_, fun hc => ?_⟩
        · rw [i1 (fun x hx => hc x (List.mem_cons_of_mem _ hx)), hst, f1 (hc e List.mem_cons_self)]
        · rw [i2 (fun x hx => hc x (List.mem_cons_of_mem _ hx)), hst, f2 (hc e List.mem_cons_self)]
        · rw [i3 (fun x hx => hc x (List.mem_cons_of_mem _ hx)), hst, f3 (hc e List.mem_cons_self)]
        · rw [i4 (fun x hx => hc x (List.mem_cons_of_mem _ hx)), hst, f4 (hc e List.mem_cons_self)]
        · rw [i5 (fun x hx => hc x (List.mem_cons_of_mem _ hx)), hst, f5 (hc e List.mem_cons_self)]

/-! ### the dump-file loader through the lines that have terms -/

theorem rowsOfN_single_empty (l : RawLine) (h : (termsN l).isEmpty = true) : rowsOf false [l] = [] := by
  simp [rowsOf, termsOf, h]

theorem rowsOfN_single (l : RawLine) (h : (termsN l).isEmpty = false) : rowsOf false [l] = [termsN l] := by
  simp [rowsOf, termsOf, h]

def dsStepA (lf : Option Rat) (t : Line) (a : DSC × Option (List Line)) : Res (DSC × Option (List Line)) := do
  let r ← dsCore lf t a.1
  pure (r.1, if r.2 then some [] else a.2.map (· ++ [t]))

def dsLoopA (lf : Option Rat) : List Line → DSC × Option (List Line) → Res (DSC × Option (List Line))
  | [], a => pure a
  | t :: ts, a => do let a' ← dsStepA lf t a; dsLoopA lf ts a'

def offRelN (done : List RawLine) (off : Option Nat) (rows : Option (List Line)) : Prop :=
  match off with
  | none => rows = none
  | some k => k ≤ done.length ∧ rows = some (rowsOf false (done.drop k))

theorem dsCore_empty (lf : Option Rat) (t : Line) (s : DSC) (h : t.isEmpty = true) : dsCore lf t s = .ok (s, false) := by
  unfold dsCore; simp [h]; rfl

theorem rowsOf_cons_N (l : RawLine) (ls : List RawLine) :
    rowsOf false (l :: ls) = if (termsN l).isEmpty then rowsOf false ls else termsN l :: rowsOf false ls := by
  unfold rowsOf
  simp only [List.map_cons, List.filter_cons, termsOf]
  cases h : (termsN l).isEmpty <;> simp [h]

theorem simN (lf : Option Rat) : ∀ (ls done : List RawLine) (s : DS) (rows : Option (List Line)),
    offRelN done s.atomsStart rows →
    (∀ s', dsLoop lf done.length ls s = .ok s' →
      ∃ rows', dsLoopA lf (rowsOf false ls) (s.c, rows) = .ok (s'.c, rows') ∧ offRelN (done ++ ls) s'.atomsStart rows') ∧
    (∀ e, dsLoop lf done.length ls s = .error e → dsLoopA lf (rowsOf false ls) (s.c, rows) = .error e) := by
  intro ls
  induction ls with
  | nil =>
    intro done s rows hr
    constructor
    · intro s' h
      simp only [dsLoop, pure, Except.pure] at h
      injection h with h; subst h
      exact ⟨rows, rfl, by simpa using hr⟩
    · intro e h; simp [dsLoop, pure, Except.pure] at h
  | cons l ls ih =>
    intro done s rows hr
    have hlen : (done ++ [l]).length = done.length + 1 := by simp
    have happ : done ++ l :: ls = (done ++ [l]) ++ ls := by simp
    rw [rowsOf_cons_N]
    unfold dsLoop dsStep dsStepT
    by_cases he : (termsN l).isEmpty = true
    · simp only [he, if_true, dsCore_empty lf _ s.c he, bind, Except.bind, pure, Except.pure, Bool.false_eq_true, if_false]
      have hr' : offRelN (done ++ [l]) s.atomsStart rows := by
        cases hs : s.atomsStart with
        | none => rw [hs] at hr; exact hr
        | some k =>
          rw [hs] at hr
          obtain ⟨h1, h2⟩ := hr
          refine ⟨by simp; omega, ?_⟩
          rw [List.drop_append_of_le_length h1, rowsOf_append, rowsOfN_single_empty l he, List.append_nil]
          exact h2
      have := ih (done ++ [l]) ⟨s.c, s.atomsStart⟩ rows hr'
      rw [hlen] at this
      rw [happ]
      exact this
    · have he' : (termsN l).isEmpty = false := by simpa using he
      simp only [he', Bool.false_eq_true, if_false]
      unfold dsLoopA dsStepA
      cases hc : dsCore lf (termsN l) s.c with
      | error e =>
        simp only [bind, Except.bind]
        exact ⟨fun s' h => (by cases h), fun e' h => (by injection h with h; rw [h])⟩
      | ok r =>
        simp only [bind, Except.bind, pure, Except.pure]
        have hr' : offRelN (done ++ [l]) (if r.2 = true then some (done.length + 1) else s.atomsStart)
            (if r.2 = true then some [] else rows.map (· ++ [termsN l])) := by
          by_cases h2 : r.2 = true
          · simp only [h2, if_true]
            refine ⟨by simp, ?_⟩
            have : (done ++ [l]).drop (done.length + 1) = [] := by apply List.drop_eq_nil_of_le; simp
            rw [this]; rfl
          · simp only [h2, if_false]
            cases hs : s.atomsStart with
            | none => rw [hs] at hr; simp [offRelN] at hr ⊢; exact hr
            | some k =>
              rw [hs] at hr
              obtain ⟨h1, h3⟩ := hr
              refine ⟨by simp; omega, ?_⟩
              rw [List.drop_append_of_le_length h1, rowsOf_append, rowsOfN_single l he', h3]
              rfl
        have := ih (done ++ [l]) ⟨r.1, if r.2 = true then some (done.length + 1) else s.atomsStart⟩ _ hr'
        rw [hlen] at this
        rw [happ]
        exact this

/-- the dump-file loader as a function of the lines that have terms. -/
def loadDumpRows (rows : List Line) (symbols : Option (List (Option String))) (given : Option (List PCol))
    (u : Units) : Res Loaded := do
  let lf ← lengthFactor u
  let a ← dsLoopA lf rows ({}, none)
  loadDumpCore a.1 a.2 symbols given u

theorem loadDumpLines_eq_rows (lines : List RawLine) (symbols : Option (List (Option String)))
    (given : Option (List PCol)) (u : Units) :
    loadDumpLines lines symbols given u = loadDumpRows (rowsOf false lines) symbols given u := by
  unfold loadDumpLines loadDumpRows
  cases hlf : lengthFactor u with
  | error e => rfl
  | ok lf =>
    simp only [bind, Except.bind]
    obtain ⟨hok, herr⟩ := simN lf lines [] {} none rfl
    simp only [List.length_nil, List.nil_append] at hok herr
    cases hs : dsLoop lf 0 lines {} with
    | error e =>
      have := herr e hs
      rw [this]
    | ok s =>
      obtain ⟨rows', h1, h2⟩ := hok s hs
      rw [h1]
      simp only []
      congr 1
      cases hk : s.atomsStart with
      | none => rw [hk] at h2; simp only [offRelN] at h2; rw [h2]; rfl
      | some k => rw [hk] at h2; obtain ⟨_, h2⟩ := h2; rw [h2]; rfl

end Atomman.C08
