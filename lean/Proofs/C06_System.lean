/-
  C06 — invariant preservation, part 4: `System` (symbols / masses / pbc setters and getters,
  `atoms_prop` with `scale`, `atoms_ix`, `atoms_extend`), and the padding theorems.
-/
import Proofs.C06_Atoms

namespace Atomman.C06
set_option linter.unusedSimpArgs false
set_option linter.unusedVariables false

/-! ### `natypes` is a function of heap and objects only -/

theorem natypes_closed (o : Nat) (s : State) :
    natypes o s = match (s.obj o).find "atype" with
      | none => (.error .key, s)
      | some a => match (arrVal s a).data.mapM Cell.num? with
        | none => (.error .unmodelled, s)
        | some nums => match listMin nums, listMax nums with
          | some mn, some mx => if mn < 1 then (.error .value, s) else (.ok (truncRat mx).toNat, s)
          | _, _ => (.error .value, s) := by
  unfold natypes
  show M.bind getS _ s = _
  unfold M.bind getS
  simp only []
  cases hf : (s.obj o).find "atype" with
  | none => rfl
  | some a =>
    simp only [keyErr, liftO]
    show M.bind (M.pure a) _ s = _
    unfold M.bind M.pure
    simp only []
    cases hm : (arrVal s a).data.mapM Cell.num? with
    | none => rfl
    | some nums =>
      simp only []
      cases hmin : listMin nums with
      | none => cases hmax : listMax nums <;> rfl
      | some mn =>
        cases hmax : listMax nums with
        | none => rfl
        | some mx =>
          simp only []
          by_cases hlt : mn < 1
          · simp only [hlt, if_true]; rfl
          · simp only [hlt, if_false]; rfl

theorem natypes_snd (o : Nat) (s : State) : (natypes o s).2 = s := (natypes_post o s).1

theorem natypes_eq (o : Nat) (s : State) : natypes o s = ((natypes o s).1, s) :=
  Prod.ext rfl (natypes_snd o s)

theorem natypes_fst_congr (o : Nat) (s s' : State) (h1 : s'.heap = s.heap) (h2 : s'.objs = s.objs) :
    (natypes o s').1 = (natypes o s).1 := by
  have hobj : s'.obj o = s.obj o := by simp [State.obj, h2]
  have harr : ∀ a, arrVal s' a = arrVal s a := by
    intro a; simp [arrVal, arrDt, arrTrail, arrRows, State.buf, h1]
  rw [natypes_closed, natypes_closed, hobj]
  cases hf : (s.obj o).find "atype" with
  | none => rfl
  | some a =>
    simp only [harr]
    cases hm : (arrVal s a).data.mapM Cell.num? with
    | none => rfl
    | some nums =>
      simp only []
      split
      · split <;> rfl
      · rfl

/-! ### steps that only edit systems -/

/-- a step that only edits the `symbols` / `masses` / `pbc` of systems. -/
structure SysKept (κ : Nat → String) (s s' : State) : Prop where
  inv : InvK κ s'
  heap : s'.heap = s.heap
  objs : s'.objs = s.objs
  len : s.syss.length ≤ s'.syss.length
  sys : ∀ j, j < s.syss.length → (s'.sys j).atoms = (s.sys j).atoms ∧ (s'.sys j).box = (s.sys j).box

theorem SysKept.refl {κ : Nat → String} {s : State} (h : InvK κ s) : SysKept κ s s :=
  ⟨h, rfl, rfl, Nat.le_refl _, fun _ _ => ⟨rfl, rfl⟩⟩

theorem SysKept.trans {κ : Nat → String} {s s1 s2 : State} (h1 : SysKept κ s s1) (h2 : SysKept κ s1 s2) :
    SysKept κ s s2 :=
  ⟨h2.inv, h2.heap.trans h1.heap, h2.objs.trans h1.objs, Nat.le_trans h1.len h2.len,
    fun j hj => ⟨(h2.sys j (Nat.lt_of_lt_of_le hj h1.len)).1.trans (h1.sys j hj).1,
      (h2.sys j (Nat.lt_of_lt_of_le hj h1.len)).2.trans (h1.sys j hj).2⟩⟩

theorem SysKept.ext {κ : Nat → String} {s s' : State} (h : SysKept κ s s') : Ext κ s κ s' := by
  have hbuf : ∀ b, s'.buf b = s.buf b := by intro b; simp [State.buf, h.heap]
  have hobj : ∀ o, s'.obj o = s.obj o := by intro o; simp [State.obj, h.objs]
  refine ⟨⟨by rw [h.heap]; exact Nat.le_refl _, fun b _ => by rw [hbuf]; exact ⟨rfl, rfl, rfl⟩,
    by rw [h.objs]; exact Nat.le_refl _, fun o _ => by rw [hobj]; exact ⟨rfl, fun _ _ hf => hf⟩,
    h.len, fun j hj => h.sys j hj⟩, fun _ _ => rfl⟩

theorem SysKept.good {κ : Nat → String} {s s' : State} (h : SysKept κ s s') : Good κ s s' :=
  ⟨κ, h.inv, h.ext, fun hb => hb.of_le h.ext.le (by rw [h.objs])⟩

/-- `SysKept` and no system was created. -/
def SysSame (κ : Nat → String) (s s' : State) : Prop := SysKept κ s s' ∧ s'.syss.length = s.syss.length

theorem SysSame.refl {κ : Nat → String} {s : State} (h : InvK κ s) : SysSame κ s s := ⟨SysKept.refl h, rfl⟩

theorem SysSame.trans {κ : Nat → String} {s s1 s2 : State} (h1 : SysSame κ s s1) (h2 : SysSame κ s1 s2) :
    SysSame κ s s2 := ⟨h1.1.trans h2.1, h2.2.trans h1.2⟩

theorem sys_set (s : State) (i j : Nat) (x : SysObj) :
    ({ s with syss := s.syss.set i x } : State).sys j = if j = i ∧ i < s.syss.length then x else s.sys j := by
  simp only [State.sys, List.getElem?_set]
  by_cases h : i = j
  · subst h
    by_cases h2 : i < s.syss.length
    · simp [h2]
    · simp [h2]
  · have : ¬ j = i := fun h' => h h'.symm
    simp [h, this]

theorem modifySys_eq (i : Nat) (f : SysObj → SysObj) (s : State) :
    modifySys i f s = (.ok (), { s with syss := s.syss.set i (f (s.sys i)) }) := rfl

theorem inv_modifySys {κ : Nat → String} {s : State} (h : InvK κ s) (i : Nat) (f : SysObj → SysObj)
    (hf : ∀ y, (f y).atoms = y.atoms ∧ (f y).box = y.box) (hpbc : ∀ y, y.pbc.length = 3 → (f y).pbc.length = 3) :
    SysSame κ s { s with syss := s.syss.set i (f (s.sys i)) } := by
  refine ⟨⟨⟨h.heap, ?_, h.nodup, ?_⟩, rfl, rfl, by simp, ?_⟩, by simp⟩
  · intro o ho p hp
    exact (h.props o ho p hp).of_heap_eq rfl
  · intro y hy
    by_cases hi : i < s.syss.length
    · rcases List.mem_or_eq_of_mem_set hy with h1 | h1
      · exact h.syss y h1
      · subst h1
        have := h.syss _ (sys_mem s i hi)
        exact ⟨by rw [(hf _).1]; exact this.1, hpbc _ this.2⟩
    · have : s.syss.set i (f (s.sys i)) = s.syss := List.set_eq_of_length_le (Nat.le_of_not_lt hi)
      simp only [this] at hy
      exact h.syss y hy
  · intro j _
    rw [sys_set]
    split
    · rename_i hc; rw [hc.1]; exact hf _
    · exact ⟨rfl, rfl⟩

theorem padTo_length {α : Type} (l : List (Option α)) (n : Nat) : n ≤ (padTo l n).length ∧ l.length ≤ (padTo l n).length := by
  unfold padTo
  split
  · simp; omega
  · omega

/-! ### `symbols` -/

/-- `natypes` of the atoms of system `i`, as a value. -/
def ntOf (s : State) (i : Nat) : Except Err Nat := (natypes (s.sys i).atoms s).1

theorem ntOf_congr {κ : Nat → String} {s s' : State} (h : SysKept κ s s') (i : Nat) (hi : i < s.syss.length) :
    ntOf s' i = ntOf s i := by
  unfold ntOf
  rw [(h.sys i hi).1]
  exact natypes_fst_congr _ s s' h.heap h.objs

theorem post_bind_natypes {β : Type} (o : Nat) (f : Nat → M β) (s : State) (Q : Except Err β → State → Prop) :
    Post (natypes o >>= f) s Q ↔
    (match (natypes o s).1 with | .ok nt => Post (f nt) s Q | .error e => Q (.error e) s) := by
  rw [post_bind]
  unfold Post
  rw [natypes_eq o s]
  cases (natypes o s).1 <;> rfl

theorem inv_symbolsSet {κ : Nat → String} {s : State} (h : InvK κ s) (i : Nat) (value : List (Option String)) :
    Post (symbolsSet i value) s (fun r s' => SysSame κ s s' ∧
      (r = .ok () → i < s.syss.length → ∃ nt, ntOf s i = .ok nt ∧ (s'.sys i).symbols = padTo value nt)) := by
  unfold symbolsSet
  rw [post_bind_getS, post_bind_natypes]
  cases hnt : (natypes (s.sys i).atoms s).1 with
  | error e => exact ⟨SysSame.refl h, fun hc => by cases hc⟩
  | ok nt =>
    simp only []
    apply Post.of_eq _ _ (modifySys_eq _ _ s)
    refine ⟨inv_modifySys h i (fun y => { y with symbols := padTo value nt }) (fun _ => ⟨rfl, rfl⟩) (fun _ hy => hy), ?_⟩
    intro _ hi
    refine ⟨nt, hnt, ?_⟩
    rw [sys_set]; simp [hi]

theorem inv_symbolsGet {κ : Nat → String} {s : State} (h : InvK κ s) (i : Nat) :
    Post (symbolsGet i) s (fun r s' => SysSame κ s s' ∧
      ∀ l, r = .ok l → l = (s'.sys i).symbols ∧ (i < s.syss.length → ∃ nt, ntOf s i = .ok nt ∧ nt ≤ l.length)) := by
  unfold symbolsGet
  rw [post_bind_getS, post_bind_natypes]
  cases hnt : (natypes (s.sys i).atoms s).1 with
  | error e => exact ⟨SysSame.refl h, fun l hc => by cases hc⟩
  | ok nt =>
    simp only []
    rw [post_bind]
    split
    · rename_i hlt
      apply Post.mono (inv_symbolsSet h i (s.sys i).symbols)
      intro r s1 ⟨hk, hres⟩
      cases r with
      | error e => exact ⟨hk, fun l hc => by cases hc⟩
      | ok u =>
        simp only []
        rw [post_bind_getS, post_pure]
        refine ⟨hk, ?_⟩
        intro l hl
        have : l = (s1.sys i).symbols := by
          have : (Except.ok (s1.sys i).symbols : Except Err _) = .ok l := hl
          injection this with this; exact this.symm
        refine ⟨this, ?_⟩
        intro hi
        obtain ⟨nt', hnt', hsym⟩ := hres rfl hi
        refine ⟨nt', hnt', ?_⟩
        rw [this, hsym]
        exact (padTo_length _ _).1
    · rename_i hge
      rw [post_pure]
      simp only []
      rw [post_bind_getS, post_pure]
      refine ⟨SysSame.refl h, ?_⟩
      intro l hl
      have : l = (s.sys i).symbols := by
        have : (Except.ok (s.sys i).symbols : Except Err _) = .ok l := hl
        injection this with this; exact this.symm
      refine ⟨this, fun _ => ⟨nt, hnt, ?_⟩⟩
      rw [this]; omega

/-! ### `System.natypes`, `masses`, `pbc` -/

theorem inv_sysNatypes {κ : Nat → String} {s : State} (h : InvK κ s) (i : Nat) :
    Post (sysNatypes i) s (fun r s' => SysSame κ s s' ∧
      ∀ n, r = .ok n → i < s.syss.length → ∃ nt, ntOf s i = .ok nt ∧ nt ≤ n) := by
  unfold sysNatypes
  rw [post_bind]
  apply Post.mono (inv_symbolsGet h i)
  intro r s1 ⟨hk, hres⟩
  cases r with
  | error e => exact ⟨hk, fun n hc => by cases hc⟩
  | ok syms =>
    simp only []
    rw [post_bind_getS, post_bind_natypes]
    cases hnt : (natypes (s1.sys i).atoms s1).1 with
    | error e => exact ⟨hk, fun n hc => by cases hc⟩
    | ok nt =>
      simp only []
      rw [post_pure]
      refine ⟨hk, ?_⟩
      intro n hn hi
      have hn' : n = if syms.length > nt then syms.length else nt := by
        have : (Except.ok (if syms.length > nt then syms.length else nt) : Except Err Nat) = .ok n := hn
        injection this with this; exact this.symm
      have h1 : ntOf s1 i = .ok nt := hnt
      rw [ntOf_congr hk.1 i hi] at h1
      refine ⟨nt, h1, ?_⟩
      rw [hn']; split <;> omega

theorem inv_massesSet {κ : Nat → String} {s : State} (h : InvK κ s) (i : Nat) (value : List (Option Rat)) :
    Post (massesSet i value) s (fun r s' => SysSame κ s s' ∧
      (r = .ok () → i < s.syss.length → ∃ nt, ntOf s i = .ok nt ∧ nt ≤ (s'.sys i).masses.length)) := by
  unfold massesSet
  rw [post_bind]
  apply Post.mono (inv_sysNatypes h i)
  intro r s1 ⟨hk, hres⟩
  cases r with
  | error e => exact ⟨hk, fun hc => by cases hc⟩
  | ok n =>
    simp only []
    split
    · exact ⟨hk, fun hc => by cases hc⟩
    · apply Post.of_eq _ _ (modifySys_eq _ _ s1)
      have hk2 := inv_modifySys hk.1.inv i (fun y => { y with masses := padTo value n }) (fun _ => ⟨rfl, rfl⟩) (fun _ hy => hy)
      refine ⟨hk.trans hk2, ?_⟩
      intro _ hi
      obtain ⟨nt, hnt, hle⟩ := hres n rfl hi
      refine ⟨nt, hnt, ?_⟩
      have hi1 : i < s1.syss.length := by rw [hk.2]; exact hi
      rw [sys_set]; simp only [hi1, and_self, if_true]
      exact Nat.le_trans hle (padTo_length _ _).1

theorem inv_massesGet {κ : Nat → String} {s : State} (h : InvK κ s) (i : Nat) :
    Post (massesGet i) s (fun r s' => SysSame κ s s' ∧
      ∀ l, r = .ok l → l = (s'.sys i).masses ∧ (i < s.syss.length → ∃ nt, ntOf s i = .ok nt ∧ nt ≤ l.length)) := by
  unfold massesGet
  rw [post_bind]
  apply Post.mono (inv_sysNatypes h i)
  intro r s1 ⟨hk, hres⟩
  cases r with
  | error e => exact ⟨hk, fun l hc => by cases hc⟩
  | ok n =>
    simp only []
    rw [post_bind_getS, post_bind]
    split
    · apply Post.mono (inv_massesSet hk.1.inv i (s1.sys i).masses)
      intro r s2 ⟨hk2, hres2⟩
      cases r with
      | error e => exact ⟨hk.trans hk2, fun l hc => by cases hc⟩
      | ok u =>
        simp only []
        rw [post_bind_getS, post_pure]
        refine ⟨hk.trans hk2, ?_⟩
        intro l hl
        have : l = (s2.sys i).masses := by
          have : (Except.ok (s2.sys i).masses : Except Err _) = .ok l := hl
          injection this with this; exact this.symm
        refine ⟨this, ?_⟩
        intro hi
        have hi1 : i < s1.syss.length := by rw [hk.2]; exact hi
        obtain ⟨nt, hnt, hle⟩ := hres2 rfl hi1
        rw [ntOf_congr hk.1 i hi] at hnt
        exact ⟨nt, hnt, by rw [this]; exact hle⟩
    · rename_i hge
      rw [post_pure]
      simp only []
      rw [post_bind_getS, post_pure]
      refine ⟨hk, ?_⟩
      intro l hl
      have : l = (s1.sys i).masses := by
        have : (Except.ok (s1.sys i).masses : Except Err _) = .ok l := hl
        injection this with this; exact this.symm
      refine ⟨this, ?_⟩
      intro hi
      obtain ⟨nt, hnt, hle⟩ := hres n rfl hi
      exact ⟨nt, hnt, by rw [this]; omega⟩

theorem inv_pbcSet {κ : Nat → String} {s : State} (h : InvK κ s) (i : Nat) (value : List Bool) :
    Post (pbcSet i value) s (fun _ s' => SysSame κ s s') := by
  unfold pbcSet
  split
  · exact SysSame.refl h
  · rename_i hlen
    apply Post.of_eq _ _ (modifySys_eq _ _ s)
    exact inv_modifySys h i (fun y => { y with pbc := value }) (fun _ => ⟨rfl, rfl⟩)
      (fun _ _ => by simpa using hlen)

/-! ### `System.__init__` -/

theorem sys_push_lt (s : State) (y : SysObj) (j : Nat) (h : j < s.syss.length) :
    ({ s with syss := s.syss ++ [y] } : State).sys j = s.sys j := by
  simp [State.sys, List.getElem?_append_left h]

theorem pushSys_eq (y : SysObj) (s : State) :
    pushSys y s = (.ok s.syss.length, { s with syss := s.syss ++ [y] }) := rfl

theorem inv_pushSys {κ : Nat → String} {s : State} (h : InvK κ s) (y : SysObj) (ho : y.atoms < s.objs.length)
    (hp : y.pbc.length = 3) : SysKept κ s { s with syss := s.syss ++ [y] } := by
  refine ⟨⟨h.heap, ?_, h.nodup, ?_⟩, rfl, rfl, by simp, ?_⟩
  · intro o ho p hp
    exact (h.props o ho p hp).of_heap_eq rfl
  · intro y' hy'
    simp only [List.mem_append, List.mem_singleton] at hy'
    rcases hy' with hy' | rfl
    · exact h.syss y' hy'
    · exact ⟨ho, hp⟩
  · intro j hj
    rw [sys_push_lt s y j hj]
    exact ⟨rfl, rfl⟩

theorem inv_mkSys {κ : Nat → String} {s : State} (h : InvK κ s) (o : Nat) (box : Box Rat) (pbc : List Bool)
    (symbols : Option (List (Option String))) (masses : Option (List (Option Rat))) (ho : o < s.objs.length) :
    Post (mkSys o box pbc symbols masses) s (fun _ s' => SysKept κ s s') := by
  unfold mkSys
  rw [post_atomic]
  simp only []
  rw [post_bind]
  apply Post.of_eq _ _ (pushSys_eq _ s)
  simp only []
  have hk0 := inv_pushSys h ⟨o, box, [true, true, true], [], []⟩ ho rfl
  rw [post_bind]
  apply Post.mono (inv_pbcSet hk0.inv _ pbc)
  intro r s1 hk1
  cases r with
  | error e => exact SysKept.refl h
  | ok u =>
    simp only []
    rw [post_bind]
    apply Post.mono (inv_symbolsSet hk1.1.inv _ _)
    intro r s2 ⟨hk2, _⟩
    cases r with
    | error e => exact SysKept.refl h
    | ok u =>
      simp only []
      rw [post_bind]
      apply Post.mono (inv_massesSet hk2.1.inv _ _)
      intro r s3 ⟨hk3, _⟩
      cases r with
      | error e => exact SysKept.refl h
      | ok u =>
        simp only []
        rw [post_pure]
        exact ((hk0.trans hk1.1).trans hk2.1).trans hk3.1

/-! ### chaining `Good` steps -/

theorem post_good_bind {α β : Type} {κ : Nat → String} {s : State} {m : M α} {f : α → M β}
    {P : Except Err α → State → Prop}
    (h1 : Post m s (fun r s1 => Good κ s s1 ∧ P r s1))
    (h2 : ∀ a κ1 s1, InvK κ1 s1 → Ext κ s κ1 s1 → (Boundary s → Boundary s1) → P (.ok a) s1 →
      Post (f a) s1 (fun _ s2 => Good κ1 s1 s2)) :
    Post (m >>= f) s (fun _ s2 => Good κ s s2) := by
  rw [post_bind]
  apply Post.mono h1
  intro r s1 ⟨⟨κ1, hinv1, hext1, hb1⟩, hp⟩
  cases r with
  | error e => exact ⟨κ1, hinv1, hext1, hb1⟩
  | ok a =>
    simp only []
    apply Post.mono (h2 a κ1 s1 hinv1 hext1 hb1 hp)
    intro r2 s2 hg2
    exact Good.trans hext1 hb1 hg2

/-! ### `atoms_prop(…, scale=True)` -/

theorem prod_getLast_dvd (shape : List Nat) (d : Nat) (h : shape.getLast? = some d) : d ∣ prod shape := by
  induction shape with
  | nil => simp at h
  | cons x t ih =>
    cases t with
    | nil =>
      simp at h; subst h
      simp [prod]
    | cons y t' =>
      have : (y :: t').getLast? = some d := by simpa [List.getLast?_cons_cons] using h
      obtain ⟨k, hk⟩ := ih this
      exact ⟨x * k, by simp only [prod] at hk ⊢; rw [hk]; exact Nat.mul_left_comm _ _ _⟩

theorem relToCart_ok (box : Box Rat) (v v' : Val) (hv : ValOK v) (h : relToCartVal box v = .ok v') : ValOK v' := by
  unfold relToCartVal at h
  split at h
  · cases h
  · rename_i d hd
    split at h
    · cases h
    · rename_i hd3
      have hd3 : d = 3 := by simpa using hd3
      subst hd3
      split at h
      · cases h
      · rename_i cells hcells
        injection h with h
        subst h
        have hlen := (mapM_option _ _ _ hcells).1
        obtain ⟨k, hk⟩ := prod_getLast_dvd _ _ hd
        constructor
        · simp only []
          rw [flatten_length_const _ 3]
          · simp only [List.length_map, List.length_range, hlen, hv.1, hk]
            rw [Nat.mul_div_cancel_left k (by decide : 0 < 3)]
            exact Nat.mul_comm _ _
          · intro r hr
            simp only [List.mem_map] at hr
            obtain ⟨j, _, rfl⟩ := hr
            rfl
        · intro c hc
          simp only [List.mem_flatten, List.mem_map] at hc
          obtain ⟨r, ⟨j, _, rfl⟩, hcr⟩ := hc
          simp at hcr
          rcases hcr with rfl | rfl | rfl <;> rfl

theorem inv_sysPropSetScaled {κ : Nat → String} {s : State} (h : InvK κ s) (i : Nat) (key : String)
    (ix : Option Index) (v : Val) (hv : ValOK v) :
    Post (sysPropSetScaled i key ix v) s (fun _ s' => Kept κ s s') := by
  unfold sysPropSetScaled
  rw [post_bind_getS]
  simp only []
  rw [post_bind_liftE]
  cases hr : relToCartVal (s.sys i).box v with
  | error e => exact Kept.refl h
  | ok v' => exact inv_propSet h _ key ix v' (relToCart_ok _ _ _ hv hr)

theorem inv_sysPropSetAtomsScaled {κ : Nat → String} {s : State} (h : InvK κ s) (i : Nat) (ix : Option Index)
    (src : Nat) : Post (sysPropSetAtomsScaled i ix src) s (fun _ s' => Kept κ s s') := by
  unfold sysPropSetAtomsScaled
  rw [post_bind_getS]
  simp only []
  rw [post_bind_keyErr]
  split
  · rename_i pa hfind
    have hp := h.find_ok src "pos" pa hfind
    rw [post_bind_liftE]
    cases hr : relToCartVal (s.sys i).box (arrVal s pa) with
    | error e => exact Kept.refl h
    | ok v' =>
      simp only []
      rw [post_bind]
      apply Post.mono (inv_viewSet h src "pos" (.lit v') (relToCart_ok _ _ _ (arrVal_ok h hp.valid) hr))
      intro r s1 ⟨⟨κ1, hinv1, hext1, hlen1, hsys1⟩, _⟩
      cases r with
      | error e => exact ⟨κ1, hinv1, hext1, hlen1, hsys1⟩
      | ok u =>
        simp only []
        apply Post.mono (inv_setItem hinv1 _ _ src)
        intro r s2 hk2
        exact Kept.trans hext1 hlen1 hsys1 hk2
  · exact Kept.refl h

/-! ### `atoms_ix[...]`, `atoms_extend` -/

theorem inv_ixGet {κ : Nat → String} {s : State} (h : InvK κ s) (i : Nat) (ix : Index) :
    Post (ixGet i ix) s (fun _ s' => Good κ s s') := by
  unfold ixGet
  rw [post_bind_getS]
  simp only []
  apply post_good_bind (P := fun r s1 => ∀ a, r = .ok a → a < s1.objs.length)
  · apply Post.mono (inv_getItem h _ ix)
    intro r s1 hm
    refine ⟨Good.of_made hm, ?_⟩
    intro a ha; subst ha; exact hm.lt
  · intro a κ1 s1 hinv1 hext1 hb1 ha
    apply post_good_bind (P := fun r s2 => s2.objs = s1.objs)
    · apply Post.mono (inv_symbolsGet hinv1 i)
      intro r s2 ⟨hk, _⟩
      exact ⟨hk.1.good, hk.1.objs⟩
    · intro syms κ2 s2 hinv2 hext2 hb2 hobjs
      rw [post_bind]
      apply Post.mono (inv_mkSys hinv2 a _ _ (some syms) none (by rw [hobjs]; exact ha a rfl))
      intro r s3 hk3
      cases r with
      | error e => exact hk3.good
      | ok j => exact hk3.good

theorem inv_sysExtend {κ : Nat → String} {s : State} (h : InvK κ s) (hb : Boundary s) (off : Bool) (i : Nat)
    (value : Int ⊕ Nat) (scale : Bool) (symbols : Option (List (Option String)))
    (hd : ∀ d, value = .inr d → d < s.objs.length) :
    Post (sysExtend off i value scale symbols) s (fun _ s' => Good κ s s') := by
  unfold sysExtend
  rw [post_bind_getS]
  simp only []
  split
  · exact Good.refl h
  · -- symbols
    apply post_good_bind (P := fun r s1 => s1.objs = s.objs)
    · cases symbols with
      | some l => exact ⟨Good.refl h, rfl⟩
      | none =>
        apply Post.mono (inv_symbolsGet h i)
        intro r s1 ⟨hk, _⟩
        exact ⟨hk.1.good, hk.1.objs⟩
    · intro syms κ1 s1 hinv1 hext1 hb1 hobjs1
      -- the extension
      apply post_good_bind (P := fun r s2 => ∀ a, r = .ok a → a < s2.objs.length)
      · cases value with
        | inl n =>
          apply Post.mono (inv_extendInt hinv1 _ n)
          intro r s2 hg
          exact ⟨hg.1, fun a ha => (hg.2 a ha).1⟩
        | inr d =>
          have hdon : ((s1.obj d).find "atype").isSome := by
            have := hb1 hb d (by rw [hobjs1]; exact hd d rfl)
            exact this.1
          apply Post.mono (inv_extendWith hinv1 _ d hdon)
          intro r s2 hm
          exact ⟨Good.of_made hm, fun a ha => by subst ha; exact hm.lt⟩
      · intro a κ2 s2 hinv2 hext2 hb2 ha
        -- "Unscale pos from Atoms value if needed"
        apply post_good_bind (P := fun r s3 => s3.objs.length = s2.objs.length)
        · split
          · cases value with
            | inl n => exact ⟨Good.refl hinv2, rfl⟩
            | inr d =>
              simp only []
              rw [post_bind_getS, post_bind_keyErr]
              split
              · rw [post_bind_liftE]
                split
                · rw [post_bind_keyErr]
                  split
                  · rename_i pa hfa
                    have hp := hinv2.find_ok a "pos" pa hfa
                    apply Post.mono (inv_assign hinv2 pa _ _ (fun hc => by simp at hc) ?_)
                    · intro r s3 ⟨hinv3, hext3, hobjs3, hsys3⟩
                      exact ⟨Good.of_kept ⟨κ2, hinv3, hext3, by rw [hobjs3], hsys3⟩, by rw [hobjs3]⟩
                    · intro hκ
                      exfalso
                      have : ("pos" : String) = "atype" := hp.key.symm.trans hκ
                      exact absurd this (by decide)
                  · exact ⟨Good.refl hinv2, rfl⟩
                · exact ⟨Good.refl hinv2, rfl⟩
              · exact ⟨Good.refl hinv2, rfl⟩
          · exact ⟨Good.refl hinv2, rfl⟩
        · intro u κ3 s3 hinv3 hext3 hb3 hlen3
          rw [post_bind]
          apply Post.mono (inv_mkSys hinv3 a _ _ (some syms) none (by rw [hlen3]; exact ha a rfl))
          intro r s4 hk4
          cases r with
          | error e => exact hk4.good
          | ok j => exact hk4.good

end Atomman.C06
