"""Shared infrastructure of the atomman verification harness.

* build_tree(): copy /repo/atomman's *working tree* to a scratch directory, compile the
  Cython extensions from the copied .pyx files (cached by content hash under
  /verif/.cache/ext), and make `import atomman` resolve to the copy.
* Lean side: lake build (serialised with a file lock), axiom audit, driver process.
* Evidence, replay and known-findings handling; the verdict logic lives in /verif/check.
"""
from __future__ import annotations

import atexit
import fcntl
import hashlib
import json
import os
import random
import re
import shutil
import subprocess
import sys
import tempfile
import time
from fractions import Fraction
from pathlib import Path

VERIF = Path(__file__).resolve().parent.parent
REPO = Path(os.environ.get('ATOMMAN_REPO', '/repo'))
LEAN = VERIF / 'lean'
CACHE = VERIF / '.cache'
EVIDENCE = VERIF / 'evidence'
REPLAYS = VERIF / 'replays'
PY = '/venv/bin/python'
ALLOWED_AXIOMS = {'propext', 'Classical.choice', 'Quot.sound'}
GUARD = 'ATOMMAN_VERIF'


class InfraError(Exception):
    """Infrastructure failure (exit code 2, never a VIOLATION)."""


# --------------------------------------------------------------------------------------
# code under test
# --------------------------------------------------------------------------------------

_scratch = None


def _pyx_hash(src: Path) -> str:
    h = hashlib.sha256()
    for p in sorted(list(src.rglob('*.pyx')) + list(src.rglob('*.pxd'))):
        h.update(str(p.relative_to(src)).encode())
        h.update(p.read_bytes())
    h.update(sys.version.encode())
    return h.hexdigest()[:24]


def build_tree(verbose: bool = True) -> Path:
    """Copy the working tree of /repo/atomman to scratch, build extensions, put it on sys.path."""
    global _scratch
    if _scratch is not None:
        return _scratch
    os.environ[GUARD] = '1'
    src = REPO / 'atomman'
    if not src.is_dir():
        raise InfraError(f'{src} not found')
    # scratch copies left behind by runs that were killed (no atexit): remove those older than three hours
    try:
        now = time.time()
        for d in Path(tempfile.gettempdir()).glob('atomman_verif_*'):
            if d.is_dir() and now - d.stat().st_mtime > 3 * 3600:
                shutil.rmtree(d, ignore_errors=True)
    except Exception:
        pass
    scratch = Path(tempfile.mkdtemp(prefix='atomman_verif_'))
    atexit.register(shutil.rmtree, scratch, True)
    dst = scratch / 'atomman'
    shutil.copytree(src, dst, ignore=shutil.ignore_patterns('*.so', '*.c', '__pycache__', '*.pyc'))
    key = _pyx_hash(dst)
    cdir = CACHE / 'ext' / key
    lock = CACHE / 'ext.lock'
    CACHE.mkdir(parents=True, exist_ok=True)
    with open(lock, 'w') as lf:
        fcntl.flock(lf, fcntl.LOCK_EX)
        if not (cdir / 'DONE').exists():
            if verbose:
                print(f'[build] compiling Cython extensions (key {key}) ...', flush=True)
            t0 = time.time()
            setup_py = scratch / 'setup_ext.py'
            setup_py.write_text(
                "from setuptools import setup\n"
                "from setuptools.extension import Extension\n"
                "from Cython.Build import cythonize\n"
                "import numpy\n"
                "ext=[Extension('*',['atomman/core/*.pyx'],include_dirs=[numpy.get_include()]),"
                "Extension('*',['atomman/defect/*.pyx'],include_dirs=[numpy.get_include()])]\n"
                "setup(name='x',ext_modules=cythonize(ext,quiet=True,nthreads=0))\n")
            r = subprocess.run([PY, 'setup_ext.py', 'build_ext', '--inplace', '-j', '8', '-q'],
                               cwd=scratch, capture_output=True, text=True)
            if r.returncode != 0:
                # a .pyx that does not compile is "does not build": infra, not a violation
                raise InfraError('Cython build failed:\n' + r.stdout[-2000:] + r.stderr[-4000:])
            tmp = CACHE / 'ext' / (key + '.tmp')
            shutil.rmtree(tmp, ignore_errors=True)
            tmp.mkdir(parents=True)
            for so in dst.rglob('*.so'):
                rel = so.relative_to(dst)
                (tmp / rel.parent).mkdir(parents=True, exist_ok=True)
                shutil.copy2(so, tmp / rel)
            (tmp / 'DONE').write_text('ok')
            shutil.rmtree(cdir, ignore_errors=True)
            tmp.rename(cdir)
            shutil.rmtree(scratch / 'build', ignore_errors=True)
            if verbose:
                print(f'[build] done in {time.time() - t0:.1f}s', flush=True)
            # keep the cache small: at most 6 variants
            olds = sorted([d for d in (CACHE / 'ext').iterdir() if d.is_dir() and d != cdir],
                          key=lambda d: d.stat().st_mtime)
            for d in olds[:-5]:
                shutil.rmtree(d, ignore_errors=True)
        else:
            os.utime(cdir)
        for so in cdir.rglob('*.so'):
            rel = so.relative_to(cdir)
            shutil.copy2(so, dst / rel)
    sys.path.insert(0, str(scratch))
    for m in list(sys.modules):
        if m == 'atomman' or m.startswith('atomman.'):
            del sys.modules[m]
    import warnings
    warnings.filterwarnings('ignore')
    import atomman  # noqa
    if not str(Path(atomman.__file__).resolve()).startswith(str(scratch.resolve())):
        raise InfraError('atomman did not import from the scratch build tree')
    _scratch = scratch
    return scratch


def source(relpath: str) -> str:
    """Text of a file of the working tree of /repo (for translators)."""
    return (REPO / relpath).read_text(encoding='utf-8')


# --------------------------------------------------------------------------------------
# rationals on the wire
# --------------------------------------------------------------------------------------

def fr(x) -> str:
    """exact wire form of a float/int/Fraction."""
    if isinstance(x, Fraction):
        f = x
    elif isinstance(x, (int,)) or hasattr(x, '__index__'):
        f = Fraction(int(x))
    else:
        f = Fraction(float(x))
    return str(f.numerator) if f.denominator == 1 else f'{f.numerator}/{f.denominator}'


def frs(xs) -> str:
    import numpy as np
    if isinstance(xs, np.ndarray):
        xs = xs.ravel().tolist()
    return ' '.join(fr(x) for x in xs)


def unfr(tok: str) -> Fraction:
    return Fraction(tok)


def unfrs(line: str):
    return [Fraction(t) for t in line.split()]


def close(impl, model: Fraction, rtol=1e-9, atol=1e-12) -> bool:
    """impl (float) equals the exact model value up to the stated bound."""
    m = float(model)
    return abs(float(impl) - m) <= atol + rtol * abs(m)


def allclose(impl_seq, model_seq, rtol=1e-9, atol=1e-12) -> bool:
    impl_seq = list(impl_seq)
    model_seq = list(model_seq)
    if len(impl_seq) != len(model_seq):
        return False
    return all(close(a, b, rtol, atol) for a, b in zip(impl_seq, model_seq))


def dyadic(rng: random.Random, lo=-8.0, hi=8.0, bits=3) -> float:
    """random multiple of 2**-bits in [lo,hi]: arithmetic on a few of these is exact in double."""
    q = 1 << bits
    return rng.randint(int(lo * q), int(hi * q)) / q


# --------------------------------------------------------------------------------------
# Lean side
# --------------------------------------------------------------------------------------

class _LakeLock:
    def __enter__(self):
        CACHE.mkdir(parents=True, exist_ok=True)
        self.f = open(CACHE / 'lake.lock', 'w')
        fcntl.flock(self.f, fcntl.LOCK_EX)
        return self

    def __exit__(self, *a):
        fcntl.flock(self.f, fcntl.LOCK_UN)
        self.f.close()


def lake_build(targets, timeout=3000):
    """lake build of the given targets. Returns (ok, log)."""
    with _LakeLock():
        r = subprocess.run(['lake', 'build', *targets], cwd=LEAN, capture_output=True, text=True,
                           timeout=timeout)
    return r.returncode == 0, (r.stdout + r.stderr)


def write_generated(name: str, text: str) -> bool:
    """Write lean/Atomman/Generated/<name>.lean if changed. Returns True if it changed."""
    p = LEAN / 'Atomman' / 'Generated' / f'{name}.lean'
    p.parent.mkdir(parents=True, exist_ok=True)
    with _LakeLock():
        if p.exists() and p.read_text() == text:
            return False
        p.write_text(text)
    return True


def restore_generated(name: str):
    """Put back the committed baseline of a generated file (used when a translator fails)."""
    rel = f'lean/Atomman/Generated/{name}.lean'
    r = subprocess.run(['git', 'show', f'HEAD:{rel}'], cwd=VERIF, capture_output=True, text=True)
    if r.returncode == 0:
        write_generated(name, r.stdout)


FORBIDDEN = re.compile(r'\b(sorry|admit|native_decide|bv_decide|implemented_by|unsafe)\b|^\s*axiom\s|maxHeartbeats\s+0\b',
                       re.M)


def _strip_comments(text: str) -> str:
    text = re.sub(r'/-.*?-/', '', text, flags=re.S)
    return re.sub(r'--.*', '', text)


def grep_forbidden(files):
    hits = []
    for f in files:
        t = _strip_comments(Path(f).read_text())
        for m in FORBIDDEN.finditer(t):
            hits.append(f'{f}: {m.group(0).strip()}')
    return hits


def audit(prop: str, theorems, module=None, timeout=1200):
    """#print axioms for every obligation. Returns dict name -> ('ok'|'missing'|'axioms:..')."""
    module = module or f'Proofs.{prop}'
    lines = [f'import {module}', 'open Atomman']
    for t in theorems:
        lines.append(f'#print axioms {t}')
    f = CACHE / f'Audit_{prop}.lean'
    CACHE.mkdir(parents=True, exist_ok=True)
    f.write_text('\n'.join(lines) + '\n')
    with _LakeLock():
        r = subprocess.run(['lake', 'env', 'lean', str(f)], cwd=LEAN, capture_output=True, text=True,
                           timeout=timeout)
    out = r.stdout + r.stderr
    res = {}
    for t in theorems:
        short = t
        m = re.search(r"'(?:[\w.]*\.)?" + re.escape(short) + r"' depends on axioms: \[([^\]]*)\]", out, re.S)
        m0 = re.search(r"'(?:[\w.]*\.)?" + re.escape(short) + r"' does not depend on any axioms", out)
        if m0:
            res[t] = 'ok'
        elif m:
            ax = {a.strip() for a in m.group(1).replace('\n', ' ').split(',') if a.strip()}
            bad = ax - ALLOWED_AXIOMS
            res[t] = 'ok' if not bad else 'axioms:' + ','.join(sorted(bad))
        else:
            res[t] = 'missing'
    return res, out


class Driver:
    """Line-protocol connection to the compiled Lean model driver."""

    def __init__(self, name='driver'):
        exe = LEAN / '.lake' / 'build' / 'bin' / name
        if not exe.exists():
            raise InfraError(f'driver executable {name} missing (lake build failed?)')
        self.p = subprocess.Popen([str(exe)], stdin=subprocess.PIPE, stdout=subprocess.PIPE, text=True,
                                  bufsize=1 << 20)
        self.n = 0

    def alive(self) -> bool:
        return self.p.poll() is None

    def ask(self, line: str) -> str:
        assert '\n' not in line
        self.p.stdin.write(line + '\n')
        self.p.stdin.flush()
        self.n += 1
        out = self.p.stdout.readline()
        if not out:
            raise InfraError(f'driver died on line: {line[:200]}')
        return out.rstrip('\n')

    def ask_many(self, lines):
        """batch: write all, read all (driver is strictly one line out per line in)."""
        lines = list(lines)
        if not lines:
            return []
        import threading
        outs = []

        def reader():
            for _ in lines:
                o = self.p.stdout.readline()
                if not o:
                    break
                outs.append(o.rstrip('\n'))
        t = threading.Thread(target=reader)
        t.start()
        for l in lines:
            assert '\n' not in l
            self.p.stdin.write(l + '\n')
        self.p.stdin.flush()
        t.join()
        self.n += len(lines)
        if len(outs) != len(lines):
            raise InfraError(f'driver died in batch after {len(outs)} of {len(lines)} lines')
        return outs

    def close(self):
        try:
            self.p.stdin.close()
            self.p.wait(timeout=10)
        except Exception:
            self.p.kill()


# --------------------------------------------------------------------------------------
# results
# --------------------------------------------------------------------------------------

class Stats:
    """Counts of what a run covered (measured, never constants)."""

    def __init__(self):
        self.evaluations = 0
        self.distinct = set()
        self.kinds = {}
        self.samples = []

    def case(self, kind: str, canon, nontrivial=True, sample=None):
        self.evaluations += 1
        self.kinds[kind] = self.kinds.get(kind, 0) + 1
        if nontrivial:
            self.distinct.add(hashlib.md5(repr((kind, canon)).encode()).hexdigest())
        if sample is not None and sum(1 for s in self.samples if s.get('kind') == kind) < 2 \
                and len(self.samples) < 16:
            self.samples.append({'kind': kind, 'case': sample})


class Finding:
    """A concrete violation (with failing input) or a broken tie (no input)."""

    def __init__(self, key: str, what: str, replay: dict, concrete: bool = True):
        self.key = key          # identifies the failing call site / input class
        self.what = what
        self.replay = replay
        self.concrete = concrete


def load_known():
    p = VERIF / 'known_findings.json'
    if not p.exists():
        return []
    return json.loads(p.read_text()).get('open', [])


def write_replay(prop: str, seed: int, n: int, payload: dict) -> Path:
    REPLAYS.mkdir(exist_ok=True)
    p = REPLAYS / f'{prop}-{seed}-{n}.json'
    p.write_text(json.dumps(payload, indent=1, default=str))
    return p


def write_evidence(prop: str, ev: dict):
    # evidence/<id>.json always describes a run against /repo itself; a run pointed at a scratch checkout
    # (ATOMMAN_REPO, used to try the checks on seeded changes) leaves its record under replays/ instead
    if 'ATOMMAN_REPO' in os.environ and REPO.resolve() != Path('/repo'):
        REPLAYS.mkdir(exist_ok=True)
        ev['repo_under_test'] = str(REPO)
        (REPLAYS / f'evidence-{prop}-scratch.json').write_text(json.dumps(ev, indent=1, default=str))
        return
    EVIDENCE.mkdir(exist_ok=True)
    (EVIDENCE / f'{prop}.json').write_text(json.dumps(ev, indent=1, default=str))
