"""C02 — periodic separation (dvect / dmag / System.dvect / System.dmag / displacement).

Tie: (1) translator: the kernels, wrappers, System methods and displacement are regenerated from the current source
(`translate()` -> Generated/DvectSource.lean) and proved equal to the model (Proofs/C02_Source.lean); (2) correspondence between the Lean model (`Atomman.dvect`, `Atomman.dmag2` and the wrappers of
`Atomman/C02.lean`, run by `drv_c02`) and the real code rebuilt from the working tree, on identical
exact inputs.  Exact comparison on the dyadic grid, derived tolerance plus the model's tie margin
elsewhere.  Search: the property's own clauses on the real code with exact integer/Fraction
arithmetic (27-candidate minimality, image form, dmag = |dvect|, displacement atom by atom, true
nearest image by lattice enumeration inside the radius of `search_radius_images`), evaluated for every
broadcast shape and input form, over many length scales, after histories of in-place changes of the
Box / System objects (object level and module level), plus the refusal clauses.
"""
from __future__ import annotations

import itertools
import math
import random
from fractions import Fraction

from .. import common as cm

PROP = 'C02'
THEOREMS = [
    'C02.dvect_is_image', 'C02.dvect_min27', 'C02.dmag2_eq_normsq_dvect', 'C02.dvect_first_shortest',
    'C02.dvect_translate', 'C02.dmag2_translate',
    'C02.search_radius_sound', 'C02.search_radius_images',
    'C02.short_image_unique', 'C02.short_image_admissible', 'C02.tilted_true_nearest',
    'C02.ortho_true_nearest', 'C02.ortho_diag_true_nearest',
    'C02.dvectArr_one_to_many', 'C02.dvectArr_many_to_one', 'C02.dvectArr_many_to_many',
    'C02.dvectArr_none_iff', 'C02.dmag2Arr_eq', 'C02.displacement_atomwise',
    'C02.refBox_final', 'C02.refBox_initial', 'C02.refBox_none',
    'C02.dvectArr_rows', 'C02.sysDvect_rows', 'C02.sysDmag2_eq', 'C02.displacement_refuses',
    'C02.select_idx', 'C02.select_positions', 'C02.dvect_scale', 'C02.dmag2_scale',
    'C02.World.sysDvect_current', 'C02.World.sysDvect_history', 'C02.World.pbcEdit_read',
    'C02.World.boxVects_shared', 'C02.World.sysBoxSet_shared', 'C02.World.arrDmag2_history',
    'C02.World.disp_history',
    'C02.dvect_direct_of_short', 'C02.dispWith_direct_of_short', 'C02.dmag2_nonneg', 'C02.dvect_periodic_copy',
    # round 5: the source tie (Generated/DvectSource.lean, regenerated from dvect.pyx / dmag.pyx / displacement.py / System.py)
    'C02.Source.gen_dvect_loop_eq_model', 'C02.Source.gen_dvect_init_eq_model', 'C02.Source.gen_dvect_body_eq_model',
    'C02.Source.gen_dvectC_eq_model', 'C02.Source.gen_dmag2_loop_eq_model', 'C02.Source.gen_dmag2_init_eq_model',
    'C02.Source.gen_dmag2_body_eq_model', 'C02.Source.gen_dmag2C_eq_model', 'C02.Source.gen_real_types_double',
    'C02.Source.gen_dvectWrap_eq_model', 'C02.Source.gen_dmagWrap_eq_model', 'C02.Source.gen_sysDvect_eq_model',
    'C02.Source.gen_sysDmag_eq_model', 'C02.Source.gen_pbcSetter_eq_model', 'C02.Source.gen_getters_live',
    'C02.Source.gen_box_reference_default', 'C02.Source.gen_displacement_eq_model', 'C02.Source.gen_exports_direct',
    # round 5: API level (argument forms, flags, refusals) and end-to-end statements about the generated definitions
    'C02.dvectApi_eq_arr', 'C02.dvectApi_ok_iff', 'C02.dvectApi_type_iff', 'C02.dvectApi_flag_forms', 'C02.dmag2Api_eq',
    'C02.api_dvect_end_to_end', 'C02.api_dmag_end_to_end', 'C02.displacement_ok_iff', 'C02.api_displacement_end_to_end',
    'C02.api_system_end_to_end', 'C02.pbcSetter_ok_iff', 'C02.dvectApi_flat_eq_rows', 'C02.dvectApi_error_class', 'C02.dvectApi_value_iff',
    'C02.World.disp_source', 'C02.World.sysDvect_source', 'C02.source_true_nearest_ortho', 'C02.source_true_nearest_tilted',
    # second extender pass: a condition on the CELL alone for the last clause (all integer shifts, any pair in the cell), the
    # counterexamples showing it cannot be dropped (within and outside the LAMMPS tilt limits), System.box_set from the source
    'C02.normSq_vecMul_le', 'C02.cover_true_nearest', 'C02.gram_true_nearest', 'C02.source_true_nearest_gram',
    'C02.cell_condition_needed', 'C02.sheared_condition_needed',
    'C02.Source.gen_sysBoxSet_eq_model', 'C02.Source.gen_box_set_scale_default', 'C02.cleanVects_noop', 'C02.Source.gen_unchecked_reads',
    'C02.last_clause_end_to_end', 'C02.World.sysBoxSet_scaled',
    'C02.one_dim_proj', 'C02.one_axis_true_nearest', 'C02.one_axis_condition_needed',
]
PARTIAL = {}
RULE = ('cells: diagonal, rotated/left-handed mutually orthogonal, LAMMPS-triclinic, general 3x3 (det != 0), strongly '
        'tilted; non-zero origin; all 8 pbc settings; points from relative coordinates on the 1/8 grid (inside, on '
        'faces/edges/corners, outside) so that every Cartesian input is a multiple of 1/64 below 2^12 (exact regime), '
        'or random doubles incl. near-tie pairs (tolerance regime); shapes (1,1) (1,m) (m,1) (m,m), mismatched and '
        'empty; list/tuple/array/flat input forms; System selectors int/negative/out-of-range int, slices, index '
        'lists/arrays, int tuples, integer (k,3) arrays, explicit positions; displacement with initial/final/None/default/'
        'invalid reference and unequal atom counts (1 vs N included). Every exact case is multiplied by 2^k, k in '
        '-40..40 (exact), every tolerance case by 10^u, u in -12..12. Histories: 1-3 Box objects, 1-3 Systems (several may '
        'hold the same Box), 8-16 steps mixing in-place changes (Box.vects=, Box.origin=, Box.set in its vects / avect / '
        'lengths / hi-lo forms, System.box_set with and without scale, System.pbc=, System.pbc[k]=, atoms.pos[i]=, '
        'atoms.pos[:]=, atoms.pos=, atoms_prop) with queries (atomman.dvect/dmag with the Box object, System.dvect/dmag, '
        'displacement, state read-back, a moved copy of a System on the same Box followed by displacement). '
        'Round 3: cell kind `sheared` (non-reduced: tilt factors 0.75..2.5 of the edge, axes permuted / mirrored); '
        'decimal supercells (a0 = 4.05, 3.52, ... times 1..13; diagonal, tilted, hexagonal, rotated, sheared; scales '
        '1e-12..1e12) with pairs that are periodic copies of each other up to 0 / 1 ulp / 1e-15..1e-3 L; displacement '
        'cases whose atoms move 0.47..1.0 of one of the shortest lattice combinations (all moves below half the shortest '
        'edge); boolean-mask selectors; input forms rowstrided / colwindow / reversed. '
        'Final round: pairs of LARGE systems (2^18 + 2..2000 atoms and a power of two +- 1 per quick run; thorough up to '
        '3 * 2^18 + 1) whose cells and / or flags differ, positions a function of a short specification on the 2^k/1024 '
        'grid, displacement with all four references + dvect / dmag / System.dvect / System.dmag, every row decided exactly. '
        'distinct = distinct canonical case; non-trivial = at least one periodic direction and a non-zero separation')
ASSUMPTIONS = [
    'IEEE double arithmetic of the compiled loop is exact on multiples of 2^k/64 below 2^k * 2^12, -40 <= k <= 40 '
    '(products and sums stay below 2^53 ulps, no over/underflow): there the comparison is bit for bit, tie order included',
    'elsewhere every component of a candidate carries an absolute rounding error of at most 2^-48 * S '
    '(S = largest input magnitude, no floor); cases whose tie margin (computed exactly by the model) is below the '
    'corresponding bound on squared lengths are exempt from the vector comparison, as are no others',
    'Box.vects= zeroes entries below 1e-9 of the largest one: no longer assumed away - the C02 driver applies C01\'s model '
    'of that statement (C01.cleanVects with the exact double 1e-9; tied to Box.py by C01\'s gen_cleanup_eq_model) to every '
    'cell-defining World operation, histories carry residue entries of 2^-31..2^-45 of the largest one on zero slots, op '
    '`clean` compares the stored cell for residues on both sides of the threshold (ratios are exact powers of two times a '
    'grid ratio, never within rounding of 1e-9); ordinary generated cells are clean-stable (cleanVects_noop)',
    'System.box_set(scale=True) recomputes the positions in floating point: the read-back is compared with the '
    'exact value within 2^-44 * (|p-o| |recip| |vects\'| + |o\'| + |p\'|) and the positions are then re-set on the grid',
    'numpy `** 0.5` on a float64 array returns sqrt within 2 ulp',
    'dvect_c and dmag2_c evaluate the same candidate expression (pos_1 - pos_0 + x a + y b + z c, then x*x + y*y + z*z) in '
    'the same order, as the model does (`dmag2_eq_normsq_dvect`): the distance returned is the correctly rounded-to-a-few-ulp '
    'length of the very row dvect returns (8 * 2^-53 on the square), compared in the correspondence for every pair',
    'a boolean mask of the right length selects the rows of its True entries (numpy): sent to the model as that index list',
    'numpy broadcasting / fancy indexing of atoms.pos is as documented (modelled by `select`/`broadcast`)',
    'a Python object handed to a Cython `bint` parameter is converted by its truth value (pbc[k] = 2, -1, np.True_ are set '
    'flags); a typed memoryview `const double[:,:]` refuses an array of another rank with ValueError (primitives `flagAt`, '
    '`kernelCall` of the model; compared with the compiled code by the `api` op for every rank 0..3 and flag form)',
    'np.asarray(x, dtype=float64) of ints / float32 / lists / tuples yields the same numbers (exact for the generated inputs)',
]
TRUSTED = ['numpy indexing, broadcast_to and sqrt in the wrappers', 'exact integer oracle in harness/props/c02.py',
           'translate() of harness/props/c02.py: the declaration stripper for the .pyx text (only `cdef` declaration syntax is '
           'rewritten; loops, tests, formulas and calls are read from the ast) and the statement compiler; a mistranslation '
           'goes unnoticed only if it coincides with the hand model, which is itself tied to the compiled code by the '
           'correspondence']

U48 = 2.0 ** -48
ORTHO_BASES = [
    [[1, 0, 0], [0, 1, 0], [0, 0, 1]],
    [[0, 1, 0], [1, 0, 0], [0, 0, 1]],          # left-handed permutation
    [[3, 4, 0], [-4, 3, 0], [0, 0, 5]],
    [[3, 4, 0], [4, -3, 0], [0, 0, 1]],         # left-handed
    [[1, 2, 2], [2, 1, -2], [2, -2, 1]],
    [[2, 3, 6], [3, -6, 2], [6, 2, -3]],
    [[0, 0, 1], [1, 0, 0], [0, 1, 0]],
]
CELL_KINDS = ['diag', 'ortho_rot', 'lammps', 'general', 'strong', 'sheared', 'mild']
SHEAR_FACTORS = [-2.5, -2.0, -1.5, -1.25, -1.125, -1.0, -0.875, -0.75, 0.75, 0.875, 1.0, 1.125, 1.25, 1.5, 2.0, 2.5, 0.0, 0.25]


# ----------------------------------------------------------------------------------------
# generators (every random choice from the rng passed in)
# ----------------------------------------------------------------------------------------
def _det3(v):
    return (v[0][0] * (v[1][1] * v[2][2] - v[1][2] * v[2][1])
            - v[0][1] * (v[1][0] * v[2][2] - v[1][2] * v[2][0])
            + v[0][2] * (v[1][0] * v[2][1] - v[1][1] * v[2][0]))


def gen_cell(rng, kind):
    """cell vectors (rows) and origin, all multiples of 1/8."""
    e = lambda lo, hi: rng.randint(int(lo * 8), int(hi * 8)) / 8.0
    while True:
        if kind == 'diag':
            v = [[e(0.5, 12), 0.0, 0.0], [0.0, e(0.5, 12), 0.0], [0.0, 0.0, e(0.5, 12)]]
        elif kind == 'ortho_rot':
            b = rng.choice(ORTHO_BASES)
            ks = [rng.choice([0.125, 0.25, 0.5, 0.75, 1.0, 1.5, 2.0, 3.0]) for _ in range(3)]
            v = [[ks[i] * b[i][j] for j in range(3)] for i in range(3)]
        elif kind == 'lammps':
            lx, ly, lz = e(1, 12), e(1, 12), e(1, 12)
            xy = rng.randint(int(-lx * 4), int(lx * 4)) / 8.0
            xz = rng.randint(int(-lx * 4), int(lx * 4)) / 8.0
            yz = rng.randint(int(-ly * 4), int(ly * 4)) / 8.0
            v = [[lx, 0.0, 0.0], [xy, ly, 0.0], [xz, yz, lz]]
        elif kind == 'mild':
            # near-cubic LAMMPS cell with small tilts: the regime of theorem gram_true_nearest (cover bound below every
            # squared width), where EVERY in-cell pair gets its true nearest image
            L = e(2, 12)
            lx, ly, lz = [L + rng.randint(-1, 1) / 8.0 for _ in range(3)]
            t = lambda: rng.randint(-int(L), int(L)) / 8.0
            v = [[lx, 0.0, 0.0], [t(), ly, 0.0], [t(), t(), lz]]
        elif kind == 'strong':
            lx, ly, lz = e(0.5, 4), e(0.5, 4), e(0.5, 4)
            v = [[lx, 0.0, 0.0], [e(-3, 3) * lx, ly, 0.0], [e(-3, 3) * lx, e(-3, 3) * ly, lz]]
            v = [[round(x * 8) / 8.0 for x in r] for r in v]
        elif kind == 'sheared':
            # a NON-reduced description of a lattice: tilt factors near whole numbers, so that lattice combinations such as
            # a+b or c-a-b are shorter than every edge; optionally with the axes permuted / mirrored
            lx, ly, lz = e(0.5, 5), e(0.5, 5), e(0.5, 5)
            t = [rng.choice(SHEAR_FACTORS) for _ in range(3)]
            v = [[lx, 0.0, 0.0], [t[0] * lx, ly, 0.0], [t[1] * lx, t[2] * ly, lz]]
            v = [[round(x * 8) / 8.0 for x in r] for r in v]
            if rng.random() < 0.4:
                perm = rng.sample(range(3), 3)
                sg = [rng.choice([-1.0, 1.0]) for _ in range(3)]
                v = [[sg[j] * rw[perm[j]] for j in range(3)] for rw in v]
                if rng.random() < 0.5:
                    v = [v[i] for i in rng.sample(range(3), 3)]
        else:
            v = [[e(-8, 8) for _ in range(3)] for _ in range(3)]
        d = _det3(v)
        if abs(d) >= 0.125 and max(abs(x) for r in v for x in r) <= 40:
            break
    origin = [e(-6, 6) for _ in range(3)] if rng.random() < 0.85 else [0.0, 0.0, 0.0]
    return v, origin


def gen_pbc(rng):
    return [rng.random() < 0.6 for _ in range(3)]


def gen_scale_exp(rng):
    """exponent k of the common factor 2^k (multiplying by a power of two is exact)."""
    r = rng.random()
    if r < 0.35:
        return 0
    if r < 0.55:
        return rng.choice([-40, -36, -30, -24, -21, -20, 20, 24, 30, 36, 40])
    return rng.randint(-40, 40)


def _sc(x, f):
    if isinstance(x, (list, tuple)):
        return [_sc(y, f) for y in x]
    return x * f


def gen_cell_scaled(rng, kind, f):
    v, o = gen_cell(rng, kind)
    return _sc(v, f), _sc(o, f)


def rel_to_cart(s, v, o):
    return [s[0] * v[0][j] + s[1] * v[1][j] + s[2] * v[2][j] + o[j] for j in range(3)]


def gen_point(rng, v, o, where=None):
    """Cartesian point from a relative coordinate on the 1/8 grid -> multiple of 1/64, exactly."""
    where = where or rng.choice(['in', 'in', 'in', 'face', 'out'])
    if where == 'in':
        s = [rng.randint(0, 8) / 8.0 for _ in range(3)]
    elif where == 'face':
        s = [rng.choice([0.0, 1.0, rng.randint(0, 8) / 8.0]) for _ in range(3)]
    else:
        s = [rng.randint(-16, 24) / 8.0 for _ in range(3)]
    return rel_to_cart(s, v, o)


def gen_float_cell(rng):
    kind = rng.choice(['diag', 'lammps', 'general'])
    u = lambda lo, hi: rng.uniform(lo, hi)
    g = 1.0 if rng.random() < 0.3 else 10.0 ** rng.uniform(-12, 12)      # length scale (angstrom cell in metres ...)
    while True:
        if kind == 'diag':
            v = [[u(1, 20), 0.0, 0.0], [0.0, u(1, 20), 0.0], [0.0, 0.0, u(1, 20)]]
        elif kind == 'lammps':
            lx, ly, lz = u(2, 20), u(2, 20), u(2, 20)
            v = [[lx, 0.0, 0.0], [u(-.5, .5) * lx, ly, 0.0], [u(-.5, .5) * lx, u(-.5, .5) * ly, lz]]
        else:
            v = [[u(-10, 10) for _ in range(3)] for _ in range(3)]
        big = max(abs(x) for r in v for x in r)
        if abs(_det3(v)) > 1.0 and all(x == 0.0 or abs(x) > 1e-6 * big for r in v for x in r):
            return [[x * g for x in r] for r in v], [u(-5, 5) * g for _ in range(3)]


DECIMAL_A0 = [4.05, 3.52, 3.615, 2.8665, 3.3, 5.43, 3.1652, 0.286, 2.46, 4.0782, 3.6149, 1.1, 0.7]
DECIMAL_TILTS = [0.1, -0.2, 0.3, -0.45, 0.05, 1.0 / 3.0, -1.0 / 3.0, 0.5, -0.5, 0.0]
DECIMAL_SHEARS = [-2.5, -1.9, -1.1, -1.0, -0.9, 0.8, 1.0, 1.2, 2.3, 2.5, 1.0 / 3.0 + 1.0, -0.7]
DECIMAL_FAMILIES = ['diag', 'lammps', 'hex', 'general', 'sheared']


def _matmul3(a, b):
    return [[sum(a[i][k] * b[k][j] for k in range(3)) for j in range(3)] for i in range(3)]


def _rand_rotation(rng):
    def rot(ax, t):
        c, s_ = math.cos(t), math.sin(t)
        m = [[1.0, 0.0, 0.0], [0.0, 1.0, 0.0], [0.0, 0.0, 1.0]]
        i, j = [(1, 2), (0, 2), (0, 1)][ax]
        m[i][i], m[i][j], m[j][i], m[j][j] = c, -s_, s_, c
        return m
    r = rot(0, rng.uniform(0, 6.28))
    r = _matmul3(r, rot(1, rng.uniform(0, 6.28)))
    return _matmul3(r, rot(2, rng.uniform(0, 6.28)))


def gen_decimal_cell(rng, family=None):
    """supercells of lattice constants that are NOT exactly representable (a0 = 4.05, 3.52, ...): no product or sum of the
    search loop is exact, so algebraically equal ways of writing a candidate's length differ by rounding."""
    family = family or rng.choice(DECIMAL_FAMILIES)
    g = 1.0 if rng.random() < 0.6 else 10.0 ** rng.randint(-12, 12)
    while True:
        a0 = rng.choice(DECIMAL_A0)
        L = [a0 * rng.randint(1, 13) * rng.choice([1.0, 1.0, 1.633, 0.9])for _ in range(3)]
        if family == 'diag':
            v = [[L[0], 0.0, 0.0], [0.0, L[1], 0.0], [0.0, 0.0, L[2]]]
        elif family == 'hex':
            v = [[L[0], 0.0, 0.0], [rng.choice([-0.5, 0.5]) * L[0], L[0] * math.sqrt(3.0) / 2.0, 0.0], [0.0, 0.0, L[2]]]
        else:
            tl = DECIMAL_SHEARS if family == 'sheared' else DECIMAL_TILTS
            t = [rng.choice(tl) if rng.random() < 0.8 else rng.uniform(-2.5, 2.5) * (1.0 if family == 'sheared' else 0.2)
                 for _ in range(3)]
            v = [[L[0], 0.0, 0.0], [t[0] * L[0], L[1], 0.0], [t[1] * L[0], t[2] * L[1], L[2]]]
            if family == 'general':
                v = _matmul3(v, _rand_rotation(rng))
                if rng.random() < 0.3:
                    v = [v[1], v[0], v[2]]            # left-handed
        big = max(abs(x) for r in v for x in r)
        if abs(_det3(v)) > 1e-3 * big ** 3 and all(x == 0.0 or abs(x) > 1e-6 * big for r in v for x in r):
            break
    o = [0.0, 0.0, 0.0] if rng.random() < 0.3 else [rng.choice([0.1, 0.2, 0.3, -1.7, 2.05, -0.35]) * rng.choice([1.0, a0])
                                                    for _ in range(3)]
    return [[x * g for x in r] for r in v], [x * g for x in o], family


COPY_OFFSETS = [0.0, 0.0, 0.0, 'ulp', 'ulp', 1e-15, 1e-12, 1e-12, 1e-9, 1e-6, 1e-3]


def gen_copy_pairs(rng, v, o, pbc, n):
    """pairs in which pos_1 is a periodic COPY of pos_0 (reached through a whole non-zero shift along periodic
    directions), exactly as the floats come out, or moved by 1 ulp / a tiny offset: the periodic distance is (almost) 0
    although the direct separation is a whole cell vector."""
    axes = [i for i in range(3) if pbc[i]] or [0, 1, 2]
    p0s, p1s = [], []
    L = max(abs(x) for r in v for x in r)
    for _ in range(n):
        nrep = rng.randint(1, 13)
        rel = [rng.randint(0, nrep) / nrep if rng.random() < 0.6 else rng.uniform(0.0, 1.0) for _ in range(3)]
        while True:
            sh = [0, 0, 0]
            for i in (axes if rng.random() < 0.85 else [0, 1, 2]):
                sh[i] = rng.choice([-1, 0, 1, 1, -1])
            if any(sh):
                break
        p0 = rel_to_cart(rel, v, o)
        if rng.random() < 0.5:
            p1 = [p0[j] + (sh[0] * v[0][j] + sh[1] * v[1][j] + sh[2] * v[2][j]) for j in range(3)]
        else:
            p1 = rel_to_cart([rel[i] + sh[i] for i in range(3)], v, o)
        off = rng.choice(COPY_OFFSETS)
        if off == 'ulp':
            j = rng.randrange(3)
            p1[j] = math.nextafter(p1[j], rng.choice([-math.inf, math.inf]))
        elif off:
            p1 = [x + off * L * rng.uniform(-1.0, 1.0) for x in p1]
        if rng.random() < 0.5:
            p0, p1 = p1, p0
        p0s.append(p0)
        p1s.append(p1)
    return p0s, p1s


def lattice_combos(v, pbc):
    """the (up to 26) non-zero candidate shifts s = n.vects, n_i in {-1,0,1}, zero on non-periodic axes, shortest first."""
    out = []
    for nn in itertools.product(*[([-1, 0, 1] if p else [0]) for p in pbc]):
        if any(nn):
            sv = [nn[0] * v[0][j] + nn[1] * v[1][j] + nn[2] * v[2][j] for j in range(3)]
            out.append((sum(x * x for x in sv), sv))
    out.sort(key=lambda t: t[0])
    return [sv for _, sv in out]


AIM_FRACTIONS = [0.46875, 0.5, 0.53125, 0.5625, 0.625, 0.625, 0.75, 0.75, 0.875, 1.0, 1.0]


def aimed_move(rng, v, pbc, grid=None):
    """a move of an atom roughly ALONG one of the shortest lattice combinations, between half of it and all of it (so
    that the nearest image of the moved atom is on the other side of that lattice vector), plus a little sideways.
    grid: every coordinate a multiple of it (exact regime), or None (floats)."""
    combos = lattice_combos(v, pbc)
    if not combos:
        combos = lattice_combos(v, [True, True, True])
    sv = combos[min(int(rng.expovariate(0.7)), len(combos) - 1)]
    t = rng.choice(AIM_FRACTIONS)
    if grid:
        side = [rng.choice([0, 0, 0, 1, -1, 2, -3]) * grid for _ in range(3)]
        return [round(t * sv[j] / grid) * grid + side[j] for j in range(3)]
    ln = math.sqrt(sum(x * x for x in sv))
    return [(t + rng.uniform(-0.02, 0.02)) * sv[j] + rng.uniform(-0.03, 0.03) * ln for j in range(3)]


def _shape_pair(rng):
    r = rng.random()
    m = rng.randint(2, 6)
    if r < 0.25:
        return 1, 1
    if r < 0.45:
        return 1, m
    if r < 0.6:
        return m, 1
    if r < 0.9:
        return m, m
    if r < 0.95:
        k = rng.randint(2, 6)
        return (m, k) if k != m else (m, m + 1)
    return rng.choice([(0, 0), (0, 1), (1, 0), (0, 3)])


def _form(rng, n):
    """how the positions are handed over (all denote the same numbers)."""
    forms = ['array', 'array', 'list', 'tuple', 'strided', 'fortran', 'f32', 'int', 'pyint', 'readonly', 'rowstrided',
             'colwindow', 'reversed']
    return rng.choice(forms + ['flat', 'flat', 'flatlist'] if n == 1 else forms)


def _as_input(np, pts, form):
    if form == 'array':
        return np.array(pts, dtype=float).reshape(-1, 3)
    if form == 'list':
        return [list(map(float, p)) for p in pts]
    if form == 'tuple':
        return tuple(tuple(map(float, p)) for p in pts)
    if form == 'flat':
        return np.array(pts[0], dtype=float)
    if form == 'flatlist':
        return [float(x) for x in pts[0]]
    if form == 'readonly':
        a = np.array(pts, dtype=float).reshape(-1, 3)
        a.flags.writeable = False
        return a
    if form in ('int', 'pyint'):      # integer dtype / python ints, only when that denotes the same numbers
        a = np.array(pts, dtype=float).reshape(-1, 3)
        if a.size and np.all(a == np.round(a)) and np.abs(a).max() < 2.0 ** 53:
            return a.astype(np.int64) if form == 'int' else [[int(x) for x in p] for p in a.tolist()]
        return a
    if form == 'strided':
        big = np.full((2 * len(pts), 6), 7.5)
        big[::2, ::2] = np.array(pts, dtype=float).reshape(-1, 3)
        return big[::2, ::2]
    if form == 'rowstrided':        # every other row of a larger array: the three coordinates of a row are adjacent in
        big = np.full((2 * len(pts) + 1, 3), -3.25)          # memory, the rows are not (stride 48)
        big[1::2] = np.array(pts, dtype=float).reshape(-1, 3)
        return big[1::2]
    if form == 'colwindow':         # three adjacent columns of a wider table (row stride 40)
        big = np.full((len(pts), 5), 11.5)
        big[:, 1:4] = np.array(pts, dtype=float).reshape(-1, 3)
        return big[:, 1:4]
    if form == 'reversed':          # a reversed view (negative row stride)
        return np.array(pts, dtype=float).reshape(-1, 3)[::-1].copy()[::-1]
    if form == 'fortran':
        return np.asfortranarray(np.array(pts, dtype=float).reshape(-1, 3))
    if form == 'f32':
        a32 = np.array(pts, dtype=np.float32).reshape(-1, 3)
        return a32 if np.array_equal(a32.astype(float), np.array(pts, dtype=float).reshape(-1, 3)) \
            else np.array(pts, dtype=float).reshape(-1, 3)
    raise ValueError(form)


PBC_FORMS = ['tuple', 'list', 'array', 'tuple', 'list', 'array', 'ints', 'truthy', 'npint', 'long', 'npbool', 'uint8']
_TRUTHY = [1, 2, -1, 3, 7, -5, 255, 2 ** 40]


def _as_pbc(np, pbc, form):
    """the three flags in one of the forms a caller may use: only the truth value of entries 0..2 is read (`bint`)."""
    if form == 'tuple':
        return tuple(bool(b) for b in pbc)
    if form == 'list':
        return [bool(b) for b in pbc]
    if form == 'ints':
        return [1 if b else 0 for b in pbc]
    if form == 'truthy':          # any non-zero integer is a set flag (deterministic choice per position)
        return tuple(_TRUTHY[(3 * k + sum(map(bool, pbc))) % len(_TRUTHY)] if b else 0 for k, b in enumerate(pbc))
    if form == 'npint':
        return np.array([2 if b else 0 for b in pbc], dtype=np.int64)
    if form == 'uint8':
        return np.array([1 if b else 0 for b in pbc], dtype=np.uint8)
    if form == 'long':            # entries beyond the third are never read
        return [bool(b) for b in pbc] + [not pbc[0], True]
    if form == 'npbool':
        return [np.bool_(bool(b)) for b in pbc]
    return np.array(pbc, dtype=bool)


def gen_arr_case(rng, regime, big=None):
    f32 = False
    if regime == 'exact':
        f = 2.0 ** gen_scale_exp(rng)
        v, o = gen_cell_scaled(rng, rng.choice(CELL_KINDS), f)
        n0, n1 = _shape_pair(rng)
        if big:
            n0, n1 = rng.choice([(big, big), (1, big), (big, 1)])
        pos0 = [gen_point(rng, v, o) for _ in range(n0)]
        pos1 = [gen_point(rng, v, o) for _ in range(n1)]
        if n0 and n1 and rng.random() < 0.15:          # coincident / exactly tied pairs
            pos1[0] = list(pos0[0]) if rng.random() < 0.3 else \
                [pos0[0][j] + 0.5 * v[rng.randrange(3)][j] for j in range(3)]
        if n0 and rng.random() < 0.1:                  # one side integer-valued (int dtype next to float dtype)
            pos0 = [[float(round(x)) for x in p] for p in pos0]
    else:
        decimal = rng.random() < 0.45
        v, o = gen_decimal_cell(rng)[:2] if decimal else gen_float_cell(rng)
        n0, n1 = _shape_pair(rng)
        if big:
            n0, n1 = rng.choice([(big, big), (1, big), (big, 1)])
        pt = lambda: rel_to_cart([rng.uniform(-0.5, 1.5) for _ in range(3)], v, o)
        pos0 = [pt() for _ in range(n0)]
        pos1 = [pt() for _ in range(n1)]
        pbc_ = gen_pbc(rng)
        if decimal and n0 and n1 and rng.random() < 0.7:    # periodic copies of each other (up to 0 / 1 ulp / tiny offsets)
            if not any(pbc_):
                pbc_[rng.randrange(3)] = True
            c0, c1 = gen_copy_pairs(rng, v, o, pbc_, max(n0, n1))
            if n0 == n1:
                pos0, pos1 = c0, c1
            elif n0 == 1:
                pos0, pos1 = [c0[0]], [c1[0]] + [[c0[0][j] + (c1[i][j] - c0[i][j]) for j in range(3)] for i in range(1, n1)]
            elif n1 == 1:
                pos1, pos0 = [c1[0]], [c0[0]] + [[c1[0][j] - (c1[i][j] - c0[i][j]) for j in range(3)] for i in range(1, n0)]
        if n0 and n1 and rng.random() < 0.3 and not decimal:            # near ties: half a cell vector +- tiny
            i = rng.randrange(3)
            eps = rng.choice(NEAR_TIE_EPS)
            pos1[0] = [pos0[0][j] + (0.5 + eps) * v[i][j] for j in range(3)]
        if n1 and rng.random() < 0.15:
            import numpy as np
            pos1 = [[float(np.float32(x)) for x in p] for p in pos1]
            f32 = True
    return {'op': 'arr', 'regime': regime, 'vects': v, 'origin': o, 'pbc': pbc_ if regime != 'exact' else gen_pbc(rng),
            'pos0': pos0, 'pos1': pos1,
            'form0': _form(rng, n0), 'form1': 'f32' if f32 else _form(rng, n1),
            'pbcform': rng.choice(PBC_FORMS)}


def _gen_mask(rng, natoms):
    r = rng.random()
    if r < 0.15:
        m = [False] * natoms
        m[rng.randrange(natoms)] = True          # exactly one atom: the result is squeezed
    elif r < 0.25:
        m = [True] * natoms
    elif r < 0.3:
        m = [False] * natoms
    else:
        m = [rng.random() < 0.5 for _ in range(natoms)]
    return ['M', m, rng.choice(['py', 'np', 'np'])]


def gen_sel(rng, natoms, v, o, ints_ok=True):
    """ints_ok: integers may be taken as coordinates (only on the unscaled grid, where they are grid points)."""
    r = rng.random()
    if not ints_ok and 0.22 <= r < 0.33:
        r = rng.random() * 0.22
    if r < 0.22:
        i = rng.randint(-natoms, natoms - 1) if rng.random() < 0.85 else rng.choice([natoms, natoms + 2, -natoms - 1])
        return ['I', i, rng.choice(['py', 'np', 'np32', 'np0d'])]
    if r < 0.27:                 # python tuple of ints: a multi-axis index
        k = rng.choice([1, 2, 3, 3])
        if k == 1 or not ints_ok:
            return ['T', [rng.randint(-natoms, natoms - 1)]]
        if k == 2:
            return ['T', [rng.randint(-natoms, natoms - 1), rng.randint(-3, 2)]]
        return ['T', [rng.randint(-9, 9) for _ in range(3)]]
    if r < 0.33:                 # integer-valued positions handed over with an integer dtype
        k = rng.choice([1, 1, 2, 3])
        rows = [[rng.randint(-natoms, natoms - 1) for _ in range(3)] for _ in range(k)]
        if rng.random() < 0.6:
            rows[rng.randrange(k)][rng.randrange(3)] = rng.choice([natoms, natoms + 3, -natoms - 1, 40])
        return ['Q', rows, rng.choice(['py', 'np'])]
    if r < 0.5:
        ch = lambda: None if rng.random() < 0.35 else rng.randint(-natoms - 3, natoms + 3)
        c = rng.choice([None, None, 1, 1, 2, 3, -1, -1, -2, -3, 0] if rng.random() < 0.25 else [None, 1, 2, -1, -2])
        return ['S', ch(), ch(), c]
    if 0.5 <= r < 0.56:           # boolean mask over the atoms (python list of bools / bool array)
        return _gen_mask(rng, natoms)
    if r < 0.75:
        k = rng.choice([0, 1, 1, 2, 3, 3, 4, 5])
        l = [rng.randint(-natoms, natoms - 1) for _ in range(k)]
        if k == 3 and rng.random() < 0.2 and ints_ok:
            l[rng.randrange(3)] = natoms + rng.randint(0, 3)     # not an index -> taken as ONE position
        return ['L', l, rng.choice(['py', 'np'])]
    k = rng.choice([1, 1, 2, 3, natoms])
    form = _form(rng, k)
    return ['P', [gen_point(rng, v, o) for _ in range(k)], 'array' if form in ('int', 'pyint') else form]


def gen_sys_case(rng):
    k = gen_scale_exp(rng)
    v, o = gen_cell_scaled(rng, rng.choice(CELL_KINDS), 2.0 ** k)
    natoms = rng.randint(1, 7)
    atoms = [gen_point(rng, v, o) for _ in range(natoms)]
    return {'op': 'sys', 'vects': v, 'origin': o, 'pbc': gen_pbc(rng), 'atoms': atoms,
            'sel0': gen_sel(rng, natoms, v, o, k == 0), 'sel1': gen_sel(rng, natoms, v, o, k == 0)}


def min_edge(v):
    return min(math.sqrt(sum(x * x for x in r)) for r in v)


def gen_aimed_disp(rng, regime='exact'):
    """displacement between a system and a copy in which every atom moved a SHORT way, roughly along one of the shortest
    lattice combinations of a (mostly strongly sheared, non-reduced) cell, by more than half of that combination: the
    periodic separation is then on the other side of the lattice vector although no atom moved half a cell edge."""
    if regime == 'exact':
        f = 2.0 ** gen_scale_exp(rng)
        v0, o0 = gen_cell_scaled(rng, rng.choice(['sheared', 'sheared', 'strong', 'strong', 'general', 'lammps']), f)
        grid = f / 64
    else:
        v0, o0, _ = gen_decimal_cell(rng, rng.choice(['sheared', 'sheared', 'sheared', 'general', 'hex', 'lammps']))
        grid = None
    pbc0 = gen_pbc(rng)
    if sum(pbc0) < 2 and rng.random() < 0.8:
        pbc0 = [True, True, rng.random() < 0.6]
        rng.shuffle(pbc0)
    n = rng.choice([1, 1, 2, 2, 3, 4])
    where = rng.choice(['in', 'in', 'in', None])
    if regime == 'exact':
        pos0 = [gen_point(rng, v0, o0, where) for _ in range(n)]
    else:
        lo, hi = (0.0, 1.0) if where == 'in' else (-0.7, 1.7)
        pos0 = [rel_to_cart([rng.uniform(lo, hi) for _ in range(3)], v0, o0) for _ in range(n)]
    half = 0.5 * min_edge(v0)
    pos1 = []
    for p in pos0:
        for attempt in range(6):
            mv = aimed_move(rng, v0, pbc0, grid)
            if math.sqrt(sum(x * x for x in mv)) < half or attempt == 5 and rng.random() < 0.3:
                break
        else:
            mv = [rng.choice([0, 1, -1, 2]) * (grid or 1e-3 * half) for _ in range(3)]    # a tiny move
        pos1.append([p[j] + mv[j] for j in range(3)])
    v1, o1, pbc1 = v0, o0, list(pbc0)
    r = rng.random()
    if r < 0.15:
        pbc1 = gen_pbc(rng)
    if 0.1 < r < 0.25 and regime == 'exact':
        g = rng.choice([1.125, 0.875])
        v1 = [[x * g for x in rw] for rw in v0]          # a slightly strained copy of the cell
    if rng.random() < 0.5:      # the moved system is the initial one
        pos0, pos1 = pos1, pos0
    return {'op': 'disp', 'regime': regime, 'ref': rng.choice(['final', 'final', 'initial', 'initial', 'default', None]),
            'sys0': {'vects': v0, 'origin': o0, 'pbc': pbc0, 'pos': pos0},
            'sys1': {'vects': v1, 'origin': o1, 'pbc': pbc1, 'pos': pos1}}


def gen_disp_case(rng):
    if rng.random() < 0.4:
        return gen_aimed_disp(rng)
    f = 2.0 ** gen_scale_exp(rng)
    v0, o0 = gen_cell_scaled(rng, rng.choice(CELL_KINDS), f)
    v1, o1 = gen_cell_scaled(rng, rng.choice(CELL_KINDS), f)
    if rng.random() < 0.3:      # a strained copy of the same cell (the usual use of displacement)
        v1 = [[x * rng.choice([1.0, 1.125, 0.875]) for x in r] for r in v0]
    n0 = rng.randint(1, 6)
    n1 = n0 if rng.random() < 0.85 else rng.choice([1, n0 + 1, n0 + 2, max(n0 - 1, 1)])
    return {'op': 'disp', 'ref': rng.choice(['final', 'final', 'initial', 'initial', None, 'default', 'bogus', 'Final']),
            'sys0': {'vects': v0, 'origin': o0, 'pbc': gen_pbc(rng), 'pos': [gen_point(rng, v0, o0) for _ in range(n0)]},
            'sys1': {'vects': v1, 'origin': o1, 'pbc': gen_pbc(rng), 'pos': [gen_point(rng, v1, o1) for _ in range(n1)]}}


# ----------------------------------------------------------------------------------------
# API level: argument forms of the wrappers themselves (rank 0 / 1 / 2 / 3), integer-valued flags, the pbc setter
# ----------------------------------------------------------------------------------------
API_FLAG_VALUES = [0, 0, 0, 1, 1, 2, -1, 3, 255, -7, 2 ** 40]


def gen_api_case(rng):
    v, o = gen_cell(rng, rng.choice(CELL_KINDS))

    def arg():
        r = rng.random()
        if r < 0.14:
            return ['s', rng.choice(['float', 'int', 'np', '0d', 'none-free'])]
        if r < 0.34:
            return ['f', gen_point(rng, v, o), rng.choice(['list', 'tuple', 'array', 'ints'])]
        if r < 0.88:
            n = rng.choice([0, 1, 1, 2, 2, 3, 4])
            return ['r', [gen_point(rng, v, o) for _ in range(n)], rng.choice(['array', 'list', 'tuple', 'fortran', 'readonly'])]
        return ['k', rng.choice([0, 1, 1, 2, 3])]
    k = rng.choice([3, 3, 3, 3, 4, 5])
    flags = [rng.choice(API_FLAG_VALUES) for _ in range(k)]
    return {'op': 'api', 'vects': v, 'origin': o, 'flags': flags,
            'flagform': rng.choice(['list', 'tuple', 'npint', 'mixed']), 'a0': arg(), 'a1': arg()}


def gen_pbcarg_case(rng):
    k = rng.choice([0, 1, 2, 3, 3, 3, 3, 4, 6])
    return {'op': 'pbcarg', 'vals': [rng.choice(API_FLAG_VALUES) for _ in range(k)],
            'form': rng.choice(['list', 'tuple', 'npint', 'bools', 'construct'])}


def _api_arg_wire(a):
    if a[0] == 's':
        return 's'
    if a[0] == 'f':
        p = [float(round(x)) for x in a[1]] if a[2] == 'ints' else a[1]
        return 'f ' + ' '.join(cm.fr(x) for x in p)
    if a[0] == 'r':
        return f'r {len(a[1])} ' + _flat(a[1])
    return f'k {a[1]}'


def _api_arg_py(np, a):
    if a[0] == 's':
        return {'float': 1.5, 'int': 3, 'np': np.float64(2.25), '0d': np.array(0.5), 'none-free': np.int64(-2)}[a[1]]
    if a[0] == 'f':
        if a[2] == 'ints':
            return [int(round(x)) for x in a[1]]
        return {'list': list, 'tuple': tuple, 'array': lambda p: np.array(p, dtype=float)}[a[2]](a[1])
    if a[0] == 'r':
        arr = np.array(a[1], dtype=float).reshape(-1, 3)
        if a[2] == 'list':
            return arr.tolist() if len(a[1]) else np.zeros((0, 3))
        if a[2] == 'tuple':
            return tuple(tuple(r) for r in arr.tolist()) if len(a[1]) else np.zeros((0, 3))
        if a[2] == 'fortran':
            return np.asfortranarray(arr)
        if a[2] == 'readonly':
            arr.setflags(write=False)
        return arr
    return np.zeros((a[1], 3, 3))


def _api_flags_py(np, flags, form):
    if form == 'tuple':
        return tuple(flags)
    if form == 'npint':
        return np.array(flags, dtype=np.int64)
    if form == 'mixed':
        return [bool(f) if i % 2 else (np.int64(f) if abs(f) < 2 ** 62 else f) for i, f in enumerate(flags)]
    return list(flags)


# ----------------------------------------------------------------------------------------
# wire format
# ----------------------------------------------------------------------------------------
def _b(pbc):
    return ' '.join('1' if x else '0' for x in pbc)


def _flat(rows):
    return ' '.join(cm.fr(x) for r in rows for x in r)


def _sel_wire(sel):
    k = sel[0]
    if k == 'I':
        return f'I {sel[1]}'
    if k == 'S':
        return 'S ' + ' '.join('_' if x is None else str(x) for x in sel[1:4])
    if k == 'L':
        return f'L {len(sel[1])} ' + ' '.join(map(str, sel[1]))
    if k == 'M':      # a boolean mask of the right length is the index list of its True entries (numpy's documented rule)
        idx = [i for i, b in enumerate(sel[1]) if b]
        return f'L {len(idx)} ' + ' '.join(map(str, idx))
    if k == 'T':
        return f'T {len(sel[1])} ' + ' '.join(map(str, sel[1]))
    if k == 'Q':
        return f'Q {len(sel[1])} ' + ' '.join(str(x) for r in sel[1] for x in r)
    return f'P {len(sel[1])} ' + _flat(sel[1])


def lines_for(case):
    op = case['op']
    if op == 'arr':
        return [f"arr full {_b(case['pbc'])} {_flat(case['vects'])} {len(case['pos0'])} {len(case['pos1'])} "
                f"{_flat(case['pos0'])} {_flat(case['pos1'])}".strip()]
    if op == 'sys':
        base = (f"{len(case['atoms'])} {_b(case['pbc'])} {_flat(case['vects'])} {_flat(case['atoms'])} "
                f"{_sel_wire(case['sel0'])} {_sel_wire(case['sel1'])}")
        return ['sys dvect ' + base, 'sys dmag2 ' + base]
    if op == 'disp':
        s0, s1 = case['sys0'], case['sys1']
        ref = {None: 'None', 'default': 'final'}.get(case['ref'], case['ref'])
        return [f"disp {ref} {len(s0['pos'])} {len(s1['pos'])} {_b(s0['pbc'])} {_flat(s0['vects'])} "
                f"{_b(s1['pbc'])} {_flat(s1['vects'])} {_flat(s0['pos'])} {_flat(s1['pos'])}"]
    if op == 'slice':
        f = lambda x: '_' if x is None else str(x)
        return [f"slice {case['n']} {f(case['a'])} {f(case['b'])} {f(case['c'])}"]
    if op == 'api':
        base = (f"{len(case['flags'])} {' '.join(map(str, case['flags']))} {_flat(case['vects'])} "
                f"{_api_arg_wire(case['a0'])} {_api_arg_wire(case['a1'])}")
        return ['api dvect ' + base, 'api dmag2 ' + base]
    if op == 'pbcarg':
        return [f"pbcarg {len(case['vals'])} {' '.join(map(str, case['vals']))}".strip()]
    raise ValueError(op)


# ----------------------------------------------------------------------------------------
# running the implementation
# ----------------------------------------------------------------------------------------
def _errclass(e):
    return {'TypeError': 'type', 'ValueError': 'value', 'AssertionError': 'assert'}.get(type(e).__name__, 'other:' + type(e).__name__)


def _call(f):
    try:
        return 'ok', f()
    except Exception as e:  # noqa: the class is what is compared
        return 'err', _errclass(e)


def _mk_box(am, v, o):
    return am.Box(vects=v, origin=o)


def _mk_system(am, np, v, o, pbc, pos):
    return am.System(atoms=am.Atoms(pos=np.array(pos, dtype=float).reshape(-1, 3)), box=_mk_box(am, v, o),
                     pbc=tuple(bool(b) for b in pbc))


def _py_sel(np, sel):
    k = sel[0]
    if k == 'I':
        return {'py': int, 'np': np.int64, 'np32': np.int32, 'np0d': lambda i: np.array(i)}[sel[2]](sel[1])
    if k == 'T':
        return tuple(int(x) for x in sel[1])
    if k == 'Q':
        return [list(map(int, r)) for r in sel[1]] if sel[2] == 'py' else np.array(sel[1], dtype=np.int64).reshape(-1, 3)
    if k == 'S':
        return slice(sel[1], sel[2], sel[3])
    if k == 'L':
        return list(sel[1]) if sel[2] == 'py' else np.array(sel[1], dtype=np.int64)
    if k == 'M':
        return [bool(b) for b in sel[1]] if sel[2] == 'py' else np.array(sel[1], dtype=bool)
    return _as_input(np, sel[1], sel[2])


def impl_run(case):
    import numpy as np
    import atomman as am
    op = case['op']
    if op == 'arr':
        box = _mk_box(am, case['vects'], case['origin'])
        pbc = _as_pbc(np, case['pbc'], case['pbcform'])
        a, b = _as_input(np, case['pos0'], case['form0']), _as_input(np, case['pos1'], case['form1'])
        if len(case['pos0']) == 0:
            a = np.zeros((0, 3))
        if len(case['pos1']) == 0:
            b = np.zeros((0, 3))
        keep = (np.array(a, dtype=float, copy=True), np.array(b, dtype=float, copy=True))
        res = {'dvect': _call(lambda: am.dvect(a, b, box, pbc)), 'dmag': _call(lambda: am.dmag(a, b, box, pbc))}
        if not (np.array_equal(np.array(a, dtype=float), keep[0]) and np.array_equal(np.array(b, dtype=float), keep[1])):
            res['modified'] = ('ok', True)
        return res
    if op == 'sys':
        s = _mk_system(am, np, case['vects'], case['origin'], case['pbc'], case['atoms'])
        a, b = _py_sel(np, case['sel0']), _py_sel(np, case['sel1'])
        return {'dvect': _call(lambda: s.dvect(a, b)), 'dmag': _call(lambda: s.dmag(a, b))}
    if op == 'disp':
        s0 = _mk_system(am, np, case['sys0']['vects'], case['sys0']['origin'], case['sys0']['pbc'], case['sys0']['pos'])
        s1 = _mk_system(am, np, case['sys1']['vects'], case['sys1']['origin'], case['sys1']['pbc'], case['sys1']['pos'])
        if case['ref'] == 'default':
            return {'disp': _call(lambda: am.displacement(s0, s1))}
        return {'disp': _call(lambda: am.displacement(s0, s1, box_reference=case['ref']))}
    if op == 'slice':
        return {'slice': _call(lambda: list(range(*slice(case['a'], case['b'], case['c']).indices(case['n']))))}
    if op == 'api':
        box = _mk_box(am, case['vects'], case['origin'])
        fl = _api_flags_py(np, case['flags'], case['flagform'])
        a, b = _api_arg_py(np, case['a0']), _api_arg_py(np, case['a1'])
        return {'dvect': _call(lambda: am.dvect(a, b, box, fl)), 'dmag': _call(lambda: am.dmag(a, b, box, fl))}
    if op == 'pbcarg':
        vals = case['vals']
        val = {'list': list, 'tuple': tuple, 'npint': lambda x: np.array(x, dtype=np.int64),
               'bools': lambda x: [bool(t) for t in x], 'construct': list}[case['form']](vals)
        if case['form'] == 'construct':
            return {'pbc': _call(lambda: [bool(t) for t in am.System(pbc=val).pbc])}
        s_ = am.System()

        def setit():
            s_.pbc = val
            return [bool(t) for t in s_.pbc]
        r = _call(setit)
        if r[0] == 'err' and [bool(t) for t in s_.pbc] != [True, True, True]:
            return {'pbc': ('ok', 'refused but changed the flags to ' + str(list(s_.pbc)))}
        return {'pbc': r}
    raise ValueError(op)


# ----------------------------------------------------------------------------------------
# comparison
# ----------------------------------------------------------------------------------------
def _exact_eq(vals, fracs):
    vals = [float(x) for x in vals]
    return len(vals) == len(fracs) and all(math.isfinite(x) and Fraction(x) == f for x, f in zip(vals, fracs))


def _sqrt_ok(s, m2: Fraction):
    """s is sqrt(m2) up to 2 ulp (m2 exact)."""
    s = float(s)
    if not math.isfinite(s) or s < 0:
        return False
    if m2 == 0:
        return s == 0.0
    return abs(Fraction(s) ** 2 - m2) <= m2 * Fraction(8, 2 ** 53)


def _same_expression(row, dist):
    """the model's `dmag2` is `normSq` of the candidate `dvect` keeps (same fold, same expression): in IEEE double the
    distance returned is then sqrt(x*x + y*y + z*z) of the returned row, three positive terms and a square root, i.e.
    within 8 units of 2^-53 on the square -- whatever the cell, however close the two points."""
    d = float(dist)
    if not math.isfinite(d) or d < 0:
        return False
    s2 = sum(Fraction(float(x)) ** 2 for x in row)
    if s2 < Fraction(1, 2 ** 900):          # squares underflow: no statement
        return True
    return abs(Fraction(d) ** 2 - s2) <= s2 * Fraction(8, 2 ** 53)


def _scale(case):
    vals = [abs(x) for r in case['vects'] for x in r] + [abs(x) for p in case['pos0'] + case['pos1'] for x in p]
    return max(vals)


def compare(case, impl, outs):
    """-> list of (key, message). Empty when implementation and model agree."""
    import numpy as np
    op = case['op']
    bad = []
    if op == 'arr':
        out = outs[0]
        if 'modified' in impl:
            bad.append(('arr:input-modified', 'the caller\'s position arrays were modified by am.dvect / am.dmag'))
        for name in ('dvect', 'dmag'):
            st, val = impl[name]
            if out.startswith('err:'):
                if st != 'err' or 'err:' + val != out:
                    bad.append((f'arr:{name}:error', f'am.{name}: model rejects with {out}, implementation gave {st} {val!r:.80}'))
                continue
            if st == 'err':
                bad.append((f'arr:{name}:error', f'am.{name} raised {val}, model accepts'))
        if bad or out.startswith('err:'):
            return bad
        toks = out.split()
        n = len(toks) // 5
        dv, dm = np.asarray(impl['dvect'][1]), np.asarray(impl['dmag'][1])
        if dv.shape != (n, 3) or dm.shape != (n,):
            return [('arr:shape', f'result shapes {dv.shape}/{dm.shape}, model has {n} pairs')]
        exact = case['regime'] == 'exact'
        S = _scale(case)
        delta = U48 * S
        for i in range(n):
            t = toks[5 * i: 5 * i + 5]
            mv = [Fraction(x) for x in t[:3]]
            m2 = Fraction(t[3])
            margin = None if t[4] == '-' else Fraction(t[4])
            if exact:
                if not _exact_eq(dv[i], mv):
                    bad.append(('arr:dvect', f'pair {i}: am.dvect {dv[i].tolist()} != model {[float(x) for x in mv]} '
                                f'(exact regime; tie margin {margin})'))
                if not _sqrt_ok(dm[i], m2):
                    bad.append(('arr:dmag', f'pair {i}: am.dmag {float(dm[i])!r} is not sqrt of model {float(m2)!r}'))
            else:
                L = math.sqrt(float(m2 + (margin or 0))) + delta
                tie = margin is not None and float(margin) <= 8 * L * delta + U48 * L * L
                case.setdefault('_ties', []).append(bool(tie))
                if not tie and not all(abs(float(dv[i][j]) - float(mv[j])) <= delta for j in range(3)):
                    bad.append(('arr:dvect', f'pair {i}: am.dvect {dv[i].tolist()} vs model {[float(x) for x in mv]} '
                                f'beyond {delta:.3g} (margin {float(margin) if margin is not None else None})'))
                if not abs(float(dm[i]) - math.sqrt(float(m2))) <= 2 * delta + 2.0 ** -50 * math.sqrt(float(m2)):
                    bad.append(('arr:dmag', f'pair {i}: am.dmag {float(dm[i])!r} vs model {math.sqrt(float(m2))!r}'))
            if not _same_expression(dv[i], dm[i]):
                bad.append(('arr:dmag-vs-own-dvect', f'pair {i}: am.dmag {float(dm[i])!r} is not the rounded length '
                            f'{math.sqrt(sum(float(x) ** 2 for x in dv[i]))!r} of the row am.dvect returns {dv[i].tolist()} '
                            f'(model: dmag2 is the squared length of the very candidate dvect keeps)'))
        return bad
    if op == 'sys':
        for name, out, width in (('dvect', outs[0], 3), ('dmag', outs[1], 1)):
            st, val = impl[name]
            if out == 'err:undefined':
                continue
            if out.startswith('err:'):
                if st != 'err' or 'err:' + val != out:
                    bad.append((f'sys:{name}:error', f'System.{name}: model rejects with {out}, implementation gave {st} {val!r:.80}'))
                continue
            if st == 'err':
                bad.append((f'sys:{name}:error', f'System.{name} raised {val}, model returns {out[:60]}'))
                continue
            toks = out.split()
            arr = np.asarray(val)
            if toks[0] == 'sq':
                want_shape = (3,) if width == 3 else ()
                fr = [Fraction(x) for x in toks[1:]]
            else:
                k = int(toks[1])
                want_shape = (k, 3) if width == 3 else (k,)
                fr = [Fraction(x) for x in toks[2:]]
            if arr.shape != want_shape:
                bad.append((f'sys:{name}:shape', f'System.{name} returned shape {arr.shape}, model {want_shape} ({toks[0]})'))
                continue
            flat = arr.ravel().tolist()
            if width == 3:
                if not _exact_eq(flat, fr):
                    bad.append((f'sys:{name}', f'System.dvect {flat} != model {[float(x) for x in fr]}'))
            else:
                if not (len(flat) == len(fr) and all(_sqrt_ok(s, m2) for s, m2 in zip(flat, fr))):
                    bad.append((f'sys:{name}', f'System.dmag {flat} is not sqrt of model {[float(x) for x in fr]}'))
        return bad
    if op == 'disp':
        st, val = impl['disp']
        out = outs[0]
        if out.startswith('err:'):
            if st != 'err' or 'err:' + val != out:
                bad.append(('disp:error', f'displacement: model rejects with {out}, implementation gave {st} {val!r:.80}'))
            return bad
        if st == 'err':
            return [('disp:error', f'displacement raised {val}, model accepts')]
        fr = [Fraction(x) for x in out.split()]
        arr = np.asarray(val)
        if arr.shape != (len(fr) // 3, 3) or not _exact_eq(arr.ravel().tolist(), fr):
            bad.append(('disp', f"displacement(box_reference={case['ref']!r}) {arr.tolist()} != model {[float(x) for x in fr]}"))
        return bad
    if op == 'api':
        for name, out, width in (('dvect', outs[0], 3), ('dmag', outs[1], 1)):
            st, val = impl[name]
            what = f"am.{name}({case['a0']}, {case['a1']}, box {case['vects']}, pbc={case['flags']} as {case['flagform']})"
            if out.startswith('err:'):
                if st != 'err' or 'err:' + val != out:
                    bad.append((f'api:{name}:error', f'{what}: model refuses with {out}, implementation gave {st} {str(val)[:80]!r}'))
                continue
            if st == 'err':
                bad.append((f'api:{name}:error', f'{what} raised {val}, model accepts'))
                continue
            toks = out.split()
            n = int(toks[1])
            fr = [Fraction(x) for x in toks[2:]]
            arr = np.asarray(val)
            if arr.shape != ((n, 3) if width == 3 else (n,)):
                bad.append((f'api:{name}:shape', f'{what}: shape {arr.shape}, model has {n} row(s)'))
            elif width == 3 and not _exact_eq(arr.ravel().tolist(), fr):
                bad.append((f'api:{name}', f'{what} = {arr.tolist()} != model {[float(x) for x in fr]}'))
            elif width == 1 and not all(_sqrt_ok(float(x), m2) for x, m2 in zip(arr.tolist(), fr)):
                bad.append((f'api:{name}', f'{what} = {arr.tolist()} != sqrt of model {[float(x) for x in fr]}'))
        return bad
    if op == 'pbcarg':
        st, val = impl['pbc']
        out = outs[0]
        what = f"System.pbc = {case['vals']} (as {case['form']})"
        if out.startswith('err:'):
            return [] if (st == 'err' and 'err:' + val == out) else \
                [('pbcarg:error', f'{what}: model refuses with {out}, implementation gave {st} {str(val)[:80]!r}')]
        if st == 'err':
            return [('pbcarg:error', f'{what} raised {val}, model accepts')]
        exp = [t == '1' for t in out.split()[1:]]
        return [] if val == exp else [('pbcarg', f'{what}: the System holds {val}, model {exp}')]
    if op == 'slice':
        st, val = impl['slice']
        out = outs[0]
        if st == 'err':
            return [] if out == 'err:' + val else [('slice', f'python raises {val}, model {out}')]
        return [] if out.split() == ['ok'] + [str(i) for i in val] else [('slice', f'python {val}, model {out}')]
    raise ValueError(op)


def _nontrivial(case):
    if case['op'] == 'arr':
        return any(case['pbc']) and bool(case['pos0']) and bool(case['pos1']) and case['pos0'][0] != case['pos1'][0]
    if case['op'] == 'sys':
        return any(case['pbc'])
    if case['op'] == 'disp':
        return case['ref'] in ('final', 'initial', 'default')
    return True


def _public(case):
    return {k: v for k, v in case.items() if not k.startswith('_')}


def run_cases(ctx, cases, report=True):
    lines, spans, inner = [], [], {}
    for n, c in enumerate(cases):
        if c['op'] == 'seq':
            ls, inner[n] = history_lines(c)
        else:
            ls = lines_for(c)
        spans.append((len(lines), len(ls)))
        lines += ls
    outs = ctx.driver.ask_many(lines)
    nbad = 0
    for n, (c, (a, k)) in enumerate(zip(cases, spans)):
        if c['op'] == 'seq':
            ctx.stats.case('seq', lines[a:a + k], nontrivial=True, sample=_public(c))
            for key, msg, stepno in compare_history(c, outs[a:a + k], inner[n]):
                nbad += 1
                if report:
                    ctx.disagree(key, msg, {'case': _public(c), 'step': stepno})
            continue
        impl = impl_run(c)
        o = outs[a:a + k]
        kind = c['op'] + (':' + c['regime'] if 'regime' in c else '')
        ctx.stats.case(kind, lines[a:a + k], nontrivial=_nontrivial(c), sample=_public(c))
        for key, msg in compare(c, impl, o):
            nbad += 1
            if report:
                ctx.disagree(key, msg, {'case': _public(c), 'lines': lines[a:a + k], 'model': o,
                                        'impl': {k2: (v[0], repr(v[1])[:400]) for k2, v in impl.items()}})
    return nbad



# ----------------------------------------------------------------------------------------
# histories: Box / System objects changed in place between queries
# ----------------------------------------------------------------------------------------
BOXSET_VIAS = ['vects', 'vects0', 'avect', 'avect0', 'lengths', 'hilos']


def _inv_rows(V):
    """rows of inverse(V)^T = reciprocal vectors, as Fractions."""
    F = [[Fraction(x) for x in r] for r in V]
    c = [_cross(F[1], F[2]), _cross(F[2], F[0]), _cross(F[0], F[1])]
    det = _dot(F[0], c[0])
    return [[x / det for x in ci] for ci in c]


def exact_rescale(p, v0, o0, v1, o1):
    """relative coordinates of p in cell (v0,o0), re-expressed in cell (v1,o1): exact Fractions."""
    rec = _inv_rows(v0)
    d = [Fraction(p[j]) - Fraction(o0[j]) for j in range(3)]
    sp = [_dot(d, rec[i]) for i in range(3)]
    return [sum(sp[i] * Fraction(v1[i][j]) for i in range(3)) + Fraction(o1[j]) for j in range(3)]


class Shadow:
    """what the objects must hold after each step (plain bookkeeping, independent of the Lean model)."""

    def __init__(self):
        self.boxes, self.systems = [], []

    def apply(self, st):
        d = st['do']
        if d == 'newbox':
            self.boxes.append({'v': st['v'], 'o': st['o']})
        elif d == 'newsys':
            self.systems.append({'box': st['box'], 'pbc': list(st['pbc']), 'pos': [list(p) for p in st['pos']]})
        elif d == 'boxvects':
            self.boxes[st['box']]['v'] = st['v']
        elif d == 'boxorigin':
            self.boxes[st['box']]['o'] = st['o']
        elif d == 'boxset':
            self.boxes[st['box']] = {'v': st['v'], 'o': st['o']}
        elif d == 'sysboxset':
            sy = self.systems[st['sys']]
            old = self.boxes[sy['box']]
            if st['scale']:
                sy['pos'] = [exact_rescale(p, old['v'], old['o'], st['v'], st['o']) for p in sy['pos']]
            self.boxes[sy['box']] = {'v': st['v'], 'o': st['o']}
        elif d == 'pbcset':
            self.systems[st['sys']]['pbc'] = list(st['pbc'])
        elif d == 'pbcedit':
            self.systems[st['sys']]['pbc'][st['axis']] = st['flag']
        elif d == 'posedit':
            self.systems[st['sys']]['pos'][st['i']] = list(st['p'])
        elif d == 'posset':
            self.systems[st['sys']]['pos'] = [list(p) for p in st['pos']]

    def cell_of(self, s):
        b = self.boxes[self.systems[s]['box']]
        return b['v'], b['o']


def gen_oracle_sel(rng, natoms, v, o):
    """selectors with an unambiguous meaning (used where the clauses are evaluated on the selected pairs)."""
    r = rng.random()
    if r < 0.35:
        return ['I', rng.randint(-natoms, natoms - 1), rng.choice(['py', 'np', 'np32'])]
    if r < 0.55:
        a = rng.choice([None, None, 0, 1, -2, -natoms])
        b = rng.choice([None, None, natoms, natoms + 3, -1])
        c = rng.choice([None, 1, 1, 2, -1, 3, -2]) if rng.random() < 0.6 else None
        return ['S', a, b, c]
    if r < 0.61:
        return _gen_mask(rng, natoms)
    if r < 0.8:
        k = rng.choice([1, 2, 2, 3, 4, natoms])
        return ['L', [rng.randint(-natoms, natoms - 1) for _ in range(k)], rng.choice(['py', 'np'])]
    k = rng.choice([1, 1, 2, natoms])
    return ['P', [gen_point(rng, v, o) for _ in range(k)], rng.choice(['array', 'list', 'tuple', 'flat' if k == 1 else 'array',
                                                                        'strided', 'readonly', 'rowstrided', 'colwindow',
                                                                        'reversed', 'fortran'])]


def sel_positions(np, pos, sel):
    """positions a (valid) selector denotes: plain numpy indexing of the shadow array / the explicit points."""
    k = sel[0]
    A = np.array(pos, dtype=float).reshape(-1, 3)
    if k == 'I':
        return [A[int(sel[1])].tolist()]
    if k == 'S':
        return A[slice(sel[1], sel[2], sel[3])].tolist()
    if k == 'L':
        return A[np.array(sel[1], dtype=np.int64)].tolist() if sel[1] else []
    if k == 'M':
        return [A[i].tolist() for i, b in enumerate(sel[1]) if b]
    if k == 'P':
        return [list(map(float, p)) for p in sel[1]]
    raise ValueError(k)


def expected_pairs(a, b):
    """the pairing the property names: one-to-many, many-to-one, many-to-many; None = no pairing (refusal)."""
    if len(a) == 1:
        return [(a[0], q) for q in b]
    if len(b) == 1:
        return [(p, b[0]) for p in a]
    if len(a) != len(b):
        return None
    return list(zip(a, b))


CLEAN_THR = Fraction(1e-9)


def clean_cell_exact(v):
    """the `Box.vects` setter's clean-up, exactly (entries with |x| <= 1e-9 * largest |entry| become 0)."""
    M = max(abs(Fraction(float(x))) for rw in v for x in rw)
    return [[0.0 if abs(Fraction(float(x))) <= CLEAN_THR * M else float(x) for x in rw] for rw in v]


def dust_cell(rng, v, exps=(-31, -33, -36, -40, -45)):
    """`v` with 1-3 of its exactly-zero entries replaced by +-2^e of the largest entry (None if it has no zero entry)."""
    zeros = [(i, j) for i in range(3) for j in range(3) if v[i][j] == 0]
    if not zeros:
        return None
    M = max(abs(x) for rw in v for x in rw)
    raw = [list(rw) for rw in v]
    for i, j in rng.sample(zeros, min(len(zeros), rng.randint(1, 3))):
        raw[i][j] = rng.choice([-1.0, 1.0]) * M * 2.0 ** rng.choice(exps)
    return raw


def correspond_clean(ctx, rng):
    """op `clean`: what `Box(vects=v).vects`, `B.vects = v`, `B.set(vects=v)` and `S.box_set(vects=v)` store, against C01's
    `cleanVects` as the C02 driver applies it (`stored`): residue entries on both sides of the threshold (2^-20 .. 2^-29 of
    the largest entry kept, 2^-31 .. 2^-45 removed), on zero and on non-zero slots, every scale 2^k."""
    import numpy as np
    import atomman as am
    cases = []
    for _ in range(ctx.n(150, 1500)):
        k = gen_scale_exp(rng)
        v, o = gen_cell_scaled(rng, rng.choice(CELL_KINDS), 2.0 ** k)
        M = max(abs(x) for rw in v for x in rw)
        raw = [list(rw) for rw in v]
        for _ in range(rng.randint(0, 3)):
            i, j = rng.randrange(3), rng.randrange(3)
            raw[i][j] = rng.choice([-1.0, 1.0]) * M * 2.0 ** rng.choice([-20, -25, -28, -29, -31, -33, -36, -40, -45, -60])
        cases.append({'op': 'clean', 'v': raw, 'o': o, 'via': rng.choice(['init', 'attr', 'set', 'box_set'])})
    outs = ctx.driver.ask_many([f"clean {_flat(c['v'])}" for c in cases])
    for c, out in zip(cases, outs):
        def run():
            if c['via'] == 'init':
                return am.Box(vects=np.array(c['v']), origin=c['o']).vects
            b = am.Box()
            if c['via'] == 'attr':
                b.vects = c['v']
            elif c['via'] == 'set':
                b.set(vects=np.array(c['v']), origin=c['o'])
            else:
                s_ = am.System(atoms=am.Atoms(pos=[[0.0, 0.0, 0.0]]), box=b)
                s_.box_set(vects=c['v'], origin=c['o'])
                return s_.box.vects
            return b.vects
        kind, obs = _call(run)
        ctx.stats.case('clean', (tuple(map(tuple, c['v'])), c['via']), nontrivial=c['v'] != clean_cell_exact(c['v']), sample=c)
        want = clean_cell_exact(c['v'])
        bad = None
        if kind != 'ok':
            bad = f'atomman raised {obs}'
        elif out.startswith('err'):
            bad = f'model: {out}'
        else:
            got = [float(x) for x in np.asarray(obs).ravel()]
            mod = cm.unfrs(out)
            if [Fraction(x) for x in got] != list(mod):
                bad = f'stored cell {got} but the model of the setter (C01 cleanVects) gives {[float(x) for x in mod]}'
            elif got != [x for rw in want for x in rw]:
                bad = f'stored cell {got}, exact evaluation of the clean-up rule gives {want}'
        if bad:
            ctx.disagree('clean', f"cell {c['v']} set through {c['via']}: " + bad, {'op': 'clean', 'case': c})


def gen_history(rng, oracle=False):
    """a history of 8-16 steps on 1-3 Box objects and 1-3 Systems; every value on the grid 2^k/64."""
    k = gen_scale_exp(rng)
    f = 2.0 ** k
    sh = Shadow()
    steps = []
    gsel = gen_oracle_sel if oracle else (lambda r, n, v, o: gen_sel(r, n, v, o, k == 0))

    def add(st):
        # residue entries (second extender pass): 15 % of the cell-defining steps given by vectors carry, on entries that are
        # exactly zero, values of 2^-31 .. 2^-45 of the largest entry - the `Box.vects` setter removes them (model: the driver
        # applies C01's `cleanVects`), so the cell every later query sees is `v`; atomman and the driver get `vraw`.
        if st['do'] in ('newbox', 'boxvects') or (st['do'] in ('boxset', 'sysboxset') and st.get('via') in ('vects', 'vects0', 'avect', 'avect0')):
            if rng.random() < 0.15:
                raw = dust_cell(rng, st['v'])
                if raw is not None:
                    st['vraw'] = raw
        steps.append(st)
        sh.apply(st)

    def cell(kind=None):
        return gen_cell_scaled(rng, kind or rng.choice(CELL_KINDS), f)

    def new_box():
        v, o = cell()
        add({'do': 'newbox', 'v': v, 'o': o})

    def new_sys(b=None):
        b = rng.randrange(len(sh.boxes)) if b is None else b
        bx = sh.boxes[b]
        n = rng.randint(1, 6)
        add({'do': 'newsys', 'box': b, 'pbc': gen_pbc(rng), 'form': rng.choice(['tuple', 'list', 'array']),
             'pos': [gen_point(rng, bx['v'], bx['o']) for _ in range(n)]})

    def boxset_args():
        via = rng.choice(BOXSET_VIAS)
        v, o = cell('lammps' if via in ('lengths', 'hilos') else None)
        if via in ('vects0', 'avect0'):
            o = [0.0, 0.0, 0.0]
        if via == 'hilos' and any((o[j] + v[j][j]) - o[j] != v[j][j] for j in range(3)):
            via = 'lengths'
        return via, v, o

    def query():
        r = rng.random()
        if r < 0.3:          # module level, with the Box object
            b = rng.randrange(len(sh.boxes))
            bx = sh.boxes[b]
            n0, n1 = _shape_pair(rng)
            if oracle and (n0 == 0 or n1 == 0):
                n0, n1 = 1, 3
            add({'do': 'arr', 'kind': rng.choice(['dvect', 'dmag', 'both', 'both']), 'box': b, 'pbc': gen_pbc(rng),
                 'pbcform': rng.choice(PBC_FORMS),
                 'pos0': [gen_point(rng, bx['v'], bx['o']) for _ in range(n0)],
                 'pos1': [gen_point(rng, bx['v'], bx['o']) for _ in range(n1)],
                 'form0': _form(rng, n0), 'form1': _form(rng, n1)})
        elif r < 0.8:
            si = rng.randrange(len(sh.systems))
            v, o = sh.cell_of(si)
            n = len(sh.systems[si]['pos'])
            add({'do': 'sys', 'kind': rng.choice(['dvect', 'dmag', 'both', 'both']), 'sys': si,
                 'sel0': gsel(rng, n, v, o), 'sel1': gsel(rng, n, v, o)})
        elif r < 0.93:
            a, b = rng.randrange(len(sh.systems)), rng.randrange(len(sh.systems))
            add({'do': 'disp', 's0': a, 's1': b, 'ref': rng.choice(['final', 'initial', 'final', 'initial', None, 'default'])})
        else:
            add({'do': 'state', 'sys': rng.randrange(len(sh.systems))})

    def mutate():
        r = rng.random()
        si = rng.randrange(len(sh.systems))
        sy = sh.systems[si]
        if r < 0.22:
            if rng.random() < 0.35:
                add({'do': 'pbcset', 'sys': si, 'pbc': gen_pbc(rng),
                     'form': rng.choice(['tuple', 'list', 'array', 'tuple', 'list', 'array', 'ints', 'truthy', 'npint', 'uint8', 'npbool'])})
            else:
                ax = rng.randrange(3)
                flag = (not sy['pbc'][ax]) if rng.random() < 0.8 else bool(rng.getrandbits(1))
                add({'do': 'pbcedit', 'sys': si, 'axis': ax, 'flag': flag, 'via': rng.choice(['item', 'alias', 'npbool'])})
        elif r < 0.4:
            b = rng.randrange(len(sh.boxes))
            r2 = rng.random()
            if r2 < 0.12:
                # same cell lengths and angles, other orientation: signed permutation of the Cartesian axes
                perm = rng.sample(range(3), 3)
                sg = [rng.choice([-1.0, 1.0]) for _ in range(3)]
                cv = sh.boxes[b]['v']
                add({'do': 'boxvects', 'box': b, 'v': [[sg[j] * rw[perm[j]] for j in range(3)] for rw in cv]})
            elif r2 < 0.35:
                add({'do': 'boxvects', 'box': b, 'v': cell()[0]})
            elif r2 < 0.5:
                add({'do': 'boxorigin', 'box': b, 'o': cell()[1], 'via': rng.choice(['attr', 'set'])})
            else:
                via, v, o = boxset_args()
                add({'do': 'boxset', 'box': b, 'v': v, 'o': o, 'via': via})
        elif r < 0.62:
            via, v, o = boxset_args()
            scale = rng.random() < 0.4
            if scale and rng.random() < 0.5:          # the common use: a strained copy of the current cell
                cv, co = sh.cell_of(si)
                g = rng.choice([0.5, 2.0, 1.125, 0.875, 1.25])
                v, o, via = [[x * g for x in rw] for rw in cv], list(co), 'vects'
            add({'do': 'sysboxset', 'sys': si, 'v': v, 'o': o, 'scale': scale, 'via': via})
            if scale:
                # positions were recomputed in floating point: read back (tolerance), then back onto the grid
                add({'do': 'state', 'sys': si, 'tolpos': True})
                add({'do': 'posset', 'sys': si, 'via': rng.choice(['slice', 'attr', 'prop']),
                     'pos': [gen_point(rng, v, o) for _ in sy['pos']]})
        elif r < 0.85:
            v, o = sh.cell_of(si)
            i = rng.randrange(len(sy['pos']))
            p = gen_point(rng, v, o)
            if rng.random() < 0.3:                    # a small change of one coordinate
                p = list(sy['pos'][i])
                p[rng.randrange(3)] += rng.choice([-1, 1]) * f / 64
            add({'do': 'posedit', 'sys': si, 'i': i, 'p': p, 'via': rng.choice(['pos', 'view', 'prop', 'coord'])})
        else:
            v, o = sh.cell_of(si)
            add({'do': 'posset', 'sys': si, 'via': rng.choice(['slice', 'attr', 'prop']),
                 'pos': [gen_point(rng, v, o) for _ in sy['pos']]})

    def moved_copy():
        # a second System on the SAME Box whose atoms moved a short way along the shortest lattice combinations, then the
        # displacement between the two (the usual use of displacement: before / after a relaxation)
        si = rng.randrange(len(sh.systems))
        sy = sh.systems[si]
        v, o = sh.cell_of(si)
        half = 0.5 * min_edge(v)
        pos = []
        for p_ in sy['pos']:
            for attempt in range(6):
                mv = aimed_move(rng, v, sy['pbc'], f / 64)
                if math.sqrt(sum(x * x for x in mv)) < half:
                    break
            else:
                mv = [rng.choice([0, 1, -1, 2]) * f / 64 for _ in range(3)]
            pos.append([p_[j] + mv[j] for j in range(3)])
        add({'do': 'newsys', 'box': sy['box'], 'pbc': list(sy['pbc']) if rng.random() < 0.8 else gen_pbc(rng),
             'form': rng.choice(['tuple', 'list', 'array']), 'pos': pos})
        sj = len(sh.systems) - 1
        a, b = (si, sj) if rng.random() < 0.6 else (sj, si)
        add({'do': 'disp', 's0': a, 's1': b, 'ref': rng.choice(['final', 'initial', 'default', None, 'final', 'initial'])})

    for _ in range(rng.randint(1, 2)):
        new_box()
    new_sys()
    if rng.random() < 0.6:
        new_sys(b=sh.systems[0]['box'] if rng.random() < 0.5 else None)     # two Systems holding the SAME Box
    query()
    for _ in range(rng.randint(8, 16)):
        r = rng.random()
        if r < 0.04 and len(sh.boxes) < 3:
            new_box()
        elif r < 0.08 and len(sh.systems) < 3:
            new_sys()
        elif r < 0.14 and len(sh.systems) < 4:
            moved_copy()
        elif r < 0.5:
            mutate()
            if rng.random() < 0.7:
                query()
        else:
            query()
    add({'do': 'state', 'sys': rng.randrange(len(sh.systems))})
    return {'op': 'seq', 'k': k, 'steps': steps}


def _raw(st):
    """the cell as handed to atomman / sent to the driver: with its residue entries, if the step has any."""
    return st.get('vraw', st['v'])


def _boxset_kwargs(st):
    via, v, o = st['via'], _raw(st), st['o']
    if via == 'vects':
        return {'vects': v, 'origin': o}
    if via == 'vects0':
        return {'vects': v}
    if via == 'avect':
        return {'avect': v[0], 'bvect': v[1], 'cvect': v[2], 'origin': o}
    if via == 'avect0':
        return {'avect': v[0], 'bvect': v[1], 'cvect': v[2]}
    if via == 'lengths':
        return {'lx': v[0][0], 'ly': v[1][1], 'lz': v[2][2], 'xy': v[1][0], 'xz': v[2][0], 'yz': v[2][1], 'origin': o}
    if via == 'hilos':
        return {'xlo': o[0], 'xhi': o[0] + v[0][0], 'ylo': o[1], 'yhi': o[1] + v[1][1], 'zlo': o[2], 'zhi': o[2] + v[2][2],
                'xy': v[1][0], 'xz': v[2][0], 'yz': v[2][1]}
    raise ValueError(via)


class Live:
    """the real objects of one history."""

    def __init__(self):
        self.boxes, self.systems = [], []

    def step(self, st):
        """-> ('ok', observation) | ('err', class).  Never raises for anything the implementation does."""
        import numpy as np
        import atomman as am
        d = st['do']
        if d == 'newbox':
            return _call(lambda: self.boxes.append(_mk_box(am, _raw(st), st['o'])))
        if d == 'newsys':
            def mk():
                atoms = am.Atoms(pos=np.array(st['pos'], dtype=float).reshape(-1, 3))
                self.systems.append(am.System(atoms=atoms, box=self.boxes[st['box']], pbc=_as_pbc(np, st['pbc'], st['form'])))
            return _call(mk)
        if d == 'boxvects':
            return _call(lambda: setattr(self.boxes[st['box']], 'vects', np.array(_raw(st), dtype=float)))
        if d == 'boxorigin':
            if st['via'] == 'attr':
                return _call(lambda: setattr(self.boxes[st['box']], 'origin', list(st['o'])))
            return _call(lambda: self.boxes[st['box']].set(origin=np.array(st['o'], dtype=float)))
        if d == 'boxset':
            return _call(lambda: self.boxes[st['box']].set(**_boxset_kwargs(st)))
        if d == 'sysboxset':
            kw = _boxset_kwargs(st)
            if st['scale'] or st['via'] == 'vects':
                kw['scale'] = bool(st['scale'])
            return _call(lambda: self.systems[st['sys']].box_set(**kw))
        if d == 'pbcset':
            return _call(lambda: setattr(self.systems[st['sys']], 'pbc', _as_pbc(np, st['pbc'], st['form'])))
        if d == 'pbcedit':
            def ed():
                s = self.systems[st['sys']]
                flag = np.bool_(st['flag']) if st['via'] == 'npbool' else bool(st['flag'])
                if st['via'] == 'alias':
                    flags = s.pbc
                    flags[st['axis']] = flag
                else:
                    s.pbc[st['axis']] = flag
            return _call(ed)
        if d == 'posedit':
            def ed():
                s = self.systems[st['sys']]
                i, pnt = st['i'], np.array(st['p'], dtype=float)
                if st['via'] == 'pos':
                    s.atoms.pos[i] = pnt
                elif st['via'] == 'view':
                    s.atoms.view['pos'][i] = pnt
                elif st['via'] == 'prop':
                    s.atoms_prop('pos', index=i, value=pnt)
                else:
                    for j in range(3):
                        s.atoms.pos[i, j] = pnt[j]
            return _call(ed)
        if d == 'posset':
            def ps():
                s = self.systems[st['sys']]
                arr = np.array(st['pos'], dtype=float).reshape(-1, 3)
                if st['via'] == 'slice':
                    s.atoms.pos[:] = arr
                elif st['via'] == 'attr':
                    s.atoms.pos = arr
                else:
                    s.atoms_prop('pos', value=arr)
            return _call(ps)
        if d == 'state':
            def rd():
                s = self.systems[st['sys']]
                return {'pbc': [bool(x) for x in s.pbc], 'vects': np.asarray(s.box.vects, dtype=float).ravel().tolist(),
                        'origin': np.asarray(s.box.origin, dtype=float).ravel().tolist(),
                        'pos': np.asarray(s.atoms.pos, dtype=float).ravel().tolist()}
            return _call(rd)
        if d == 'arr':
            box = self.boxes[st['box']]
            pbc = _as_pbc(np, st['pbc'], st['pbcform'])
            a = _as_input(np, st['pos0'], st['form0']) if st['pos0'] else np.zeros((0, 3))
            b = _as_input(np, st['pos1'], st['form1']) if st['pos1'] else np.zeros((0, 3))
            keep = (np.array(a, dtype=float, copy=True), np.array(b, dtype=float, copy=True))
            out = {}
            if st['kind'] in ('dmag', 'both'):
                out['dmag'] = _call(lambda: am.dmag(a, b, box, pbc))
            if st['kind'] in ('dvect', 'both'):
                out['dvect'] = _call(lambda: am.dvect(a, b, box, pbc))
            out['inputs_kept'] = bool(np.array_equal(np.array(a, dtype=float), keep[0]) and
                                      np.array_equal(np.array(b, dtype=float), keep[1]))
            return 'ok', out
        if d == 'sys':
            s = self.systems[st['sys']]
            a, b = _py_sel(np, st['sel0']), _py_sel(np, st['sel1'])
            keep = [np.array(x, dtype=float, copy=True) if st[k][0] == 'P' else None for x, k in ((a, 'sel0'), (b, 'sel1'))]
            out = {}
            if st['kind'] in ('dmag', 'both'):
                out['dmag'] = _call(lambda: s.dmag(a, b))
            if st['kind'] in ('dvect', 'both'):
                out['dvect'] = _call(lambda: s.dvect(a, b))
            out['inputs_kept'] = all(kp is None or np.array_equal(np.array(x, dtype=float), kp) for x, kp in zip((a, b), keep))
            return 'ok', out
        if d == 'disp':
            s0, s1 = self.systems[st['s0']], self.systems[st['s1']]
            if st['ref'] == 'default':
                return 'ok', {'disp': _call(lambda: am.displacement(s0, s1))}
            return 'ok', {'disp': _call(lambda: am.displacement(s0, s1, box_reference=st['ref']))}
        raise ValueError(d)


def history_lines(case):
    """model requests of one history: (lines, spans) with spans[i] = (first line, count) of step i."""
    lines, spans = ['w reset'], []
    for st in case['steps']:
        d = st['do']
        a = len(lines)
        if d == 'newbox':
            lines.append(f"w newbox {_flat(_raw(st))} {cm.frs(st['o'])}")
        elif d == 'newsys':
            lines.append(f"w newsys {st['box']} {_b(st['pbc'])} {len(st['pos'])} {_flat(st['pos'])}".strip())
        elif d == 'boxvects':
            lines.append(f"w boxvects {st['box']} {_flat(_raw(st))}")
        elif d == 'boxorigin':
            lines.append(f"w boxorigin {st['box']} {cm.frs(st['o'])}")
        elif d == 'boxset':
            lines.append(f"w boxset {st['box']} {_flat(_raw(st))} {cm.frs(st['o'])}")
        elif d == 'sysboxset':
            lines.append(f"w sysboxset {st['sys']} {_flat(_raw(st))} {cm.frs(st['o'])} {1 if st['scale'] else 0}")
        elif d == 'pbcset':
            lines.append(f"w pbcset {st['sys']} {_b(st['pbc'])}")
        elif d == 'pbcedit':
            lines.append(f"w pbcedit {st['sys']} {st['axis']} {1 if st['flag'] else 0}")
        elif d == 'posedit':
            lines.append(f"w posedit {st['sys']} {st['i']} {cm.frs(st['p'])}")
        elif d == 'posset':
            lines.append(f"w posset {st['sys']} {len(st['pos'])} {_flat(st['pos'])}".strip())
        elif d == 'state':
            lines.append(f"w state {st['sys']}")
        elif d == 'arr':
            base = (f"{st['box']} {_b(st['pbc'])} {len(st['pos0'])} {len(st['pos1'])} "
                    f"{_flat(st['pos0'])} {_flat(st['pos1'])}").strip()
            lines += ['w arr dvect ' + base, 'w arr dmag2 ' + base]
        elif d == 'sys':
            base = f"{st['sys']} {_sel_wire(st['sel0'])} {_sel_wire(st['sel1'])}"
            lines += ['w sys dvect ' + base, 'w sys dmag2 ' + base]
        elif d == 'disp':
            ref = {None: 'None', 'default': 'final'}.get(st['ref'], st['ref'])
            lines.append(f"w disp {ref} {st['s0']} {st['s1']}")
        else:
            raise ValueError(d)
        spans.append((a, len(lines) - a))
    return lines, spans


def _cmp_sys(bad, prefix, who, name, out, obs, width):
    """System.dvect / System.dmag result against the model reply (shared by the stateless and the history form)."""
    import numpy as np
    st, val = obs
    if out == 'err:undefined':
        return
    if out.startswith('err:'):
        if st != 'err' or 'err:' + val != out:
            bad.append((f'{prefix}:{name}:error', f'{who}.{name}: model rejects with {out}, implementation gave {st} {val!r:.80}'))
        return
    if st == 'err':
        bad.append((f'{prefix}:{name}:error', f'{who}.{name} raised {val}, model returns {out[:60]}'))
        return
    toks = out.split()
    arr = np.asarray(val)
    if toks[0] == 'sq':
        want_shape = (3,) if width == 3 else ()
        fr = [Fraction(x) for x in toks[1:]]
    else:
        k = int(toks[1])
        want_shape = (k, 3) if width == 3 else (k,)
        fr = [Fraction(x) for x in toks[2:]]
    if arr.shape != want_shape:
        bad.append((f'{prefix}:{name}:shape', f'{who}.{name} returned shape {arr.shape}, model {want_shape} ({toks[0]})'))
        return
    flat = arr.ravel().tolist()
    if width == 3:
        if not _exact_eq(flat, fr):
            bad.append((f'{prefix}:{name}', f'{who}.dvect {flat} != model {[float(x) for x in fr]}'))
    else:
        if not (len(flat) == len(fr) and all(_sqrt_ok(x, m2) for x, m2 in zip(flat, fr))):
            bad.append((f'{prefix}:{name}', f'{who}.dmag {flat} is not sqrt of model {[float(x) for x in fr]}'))


def _cmp_arr(bad, prefix, who, name, out, obs, width):
    """atomman.dvect / atomman.dmag (exact regime) against `w arr` replies."""
    import numpy as np
    st, val = obs
    if out.startswith('err:'):
        if st != 'err' or 'err:' + val != out:
            bad.append((f'{prefix}:{name}:error', f'{who}: model rejects with {out}, implementation gave {st} {val!r:.80}'))
        return
    if st == 'err':
        bad.append((f'{prefix}:{name}:error', f'{who} raised {val}, model returns {out[:60]}'))
        return
    fr = [Fraction(x) for x in out.split()]
    arr = np.asarray(val)
    want = (len(fr) // 3, 3) if width == 3 else (len(fr),)
    if arr.shape != want:
        bad.append((f'{prefix}:{name}:shape', f'{who} returned shape {arr.shape}, model {want}'))
        return
    flat = arr.ravel().tolist()
    ok = _exact_eq(flat, fr) if width == 3 else all(_sqrt_ok(x, m2) for x, m2 in zip(flat, fr))
    if not ok:
        bad.append((f'{prefix}:{name}', f'{who} {flat} != model {[float(x) for x in fr]}' if width == 3 else
                    f'{who} {flat} is not sqrt of model {[float(x) for x in fr]}'))


def compare_history(case, outs, spans):
    """run the history on the real objects, compare every step with the model; -> list of (key, message, step)."""
    live, sh = Live(), Shadow()
    bad = []
    for i, (st, (a, k)) in enumerate(zip(case['steps'], spans)):
        o = outs[a:a + k]
        d = st['do']
        prev_cell = sh.cell_of(st['sys']) if d == 'sysboxset' else None
        prev_pos = [list(p) for p in sh.systems[st['sys']]['pos']] if d == 'sysboxset' else None
        sh.apply(st)
        if d == 'sysboxset' and st['scale']:
            case.setdefault('_tol', {})[i + 1] = (prev_cell, prev_pos, st['v'], st['o'])
        status, obs = live.step(st)
        local = []
        who = f"step {i} ({d})"
        if status == 'err':
            if not o[0].startswith('err:'):
                local.append((f'seq:{d}:error', f'{who} raised {obs}, model accepts'))
        elif d in ('newbox', 'newsys', 'boxvects', 'boxorigin', 'boxset', 'sysboxset', 'pbcset', 'pbcedit', 'posedit', 'posset'):
            if not o[0].startswith('ok'):
                local.append((f'seq:{d}:error', f'{who}: model says {o[0]}, implementation accepted'))
        elif d == 'state':
            parts = [x.split() for x in o[0].split('|')]
            if len(parts) != 4:
                local.append(('seq:state', f'{who}: model {o[0]}'))
            else:
                mp = [t == '1' for t in parts[0]]
                if mp != obs['pbc']:
                    local.append(('seq:state:pbc', f'{who}: System.pbc reads {obs["pbc"]}, model {mp}'))
                if not _exact_eq(obs['vects'], [Fraction(x) for x in parts[1]]):
                    local.append(('seq:state:vects', f'{who}: box.vects reads {obs["vects"]}, model {[float(Fraction(x)) for x in parts[1]]}'))
                if not _exact_eq(obs['origin'], [Fraction(x) for x in parts[2]]):
                    local.append(('seq:state:origin', f'{who}: box.origin reads {obs["origin"]}, model {[float(Fraction(x)) for x in parts[2]]}'))
                mpos = [Fraction(x) for x in parts[3]]
                if st.get('tolpos'):
                    (pv, po), ppos, nv, no = case['_tol'][i]
                    tol = rescale_tolerance(pv, po, ppos, nv, no, mpos)
                    okp = len(mpos) == len(obs['pos']) and all(abs(Fraction(x) - m) <= tol for x, m in zip(obs['pos'], mpos))
                else:
                    okp = _exact_eq(obs['pos'], mpos)
                if not okp:
                    local.append(('seq:state:pos', f'{who}: atoms.pos reads {obs["pos"]}, model {[float(x) for x in mpos]}'))
        elif d == 'arr':
            if 'dvect' in obs:
                _cmp_arr(local, 'seq:arr', f'{who} atomman.dvect', 'dvect', o[0], obs['dvect'], 3)
            if 'dmag' in obs:
                _cmp_arr(local, 'seq:arr', f'{who} atomman.dmag', 'dmag', o[1], obs['dmag'], 1)
            if not obs['inputs_kept']:
                local.append(('seq:arr:input-modified', f'{who}: the caller\'s position arrays were modified'))
        elif d == 'sys':
            if 'dvect' in obs:
                _cmp_sys(local, 'seq:sys', f'{who} System', 'dvect', o[0], obs['dvect'], 3)
            if 'dmag' in obs:
                _cmp_sys(local, 'seq:sys', f'{who} System', 'dmag', o[1], obs['dmag'], 1)
            if not obs['inputs_kept']:
                local.append(('seq:sys:input-modified', f'{who}: the caller\'s position arrays were modified'))
        elif d == 'disp':
            _cmp_arr(local, 'seq:disp', f'{who} displacement(box_reference={st["ref"]!r})', 'disp', o[0], obs['disp'], 3)
        bad += [(kk, m, i) for kk, m in local]
        if status == 'err' or any(kk.endswith(':error') and d not in ('arr', 'sys', 'disp') for kk, _ in local):
            break          # objects and model are out of step from here on
    return bad


def rescale_tolerance(pv, po, ppos, nv, no, mpos):
    """bound on the rounding of box_set(scale=True): spos = (p-o).recip, p' = spos.vects' + o'."""
    rec = _inv_rows(pv)
    mrec = max(abs(x) for r in rec for x in r)
    mdp = max([abs(Fraction(p[j]) - Fraction(po[j])) for p in ppos for j in range(3)] + [Fraction(0)])
    mv = max(abs(Fraction(x)) for r in nv for x in r)
    mo = max(abs(Fraction(x)) for x in no)
    mp = max([abs(x) for x in mpos] + [Fraction(0)])
    return Fraction(1, 2 ** 44) * (9 * mdp * mrec * mv + mo + mp)


# ----------------------------------------------------------------------------------------
# correspondence
# ----------------------------------------------------------------------------------------
FIXED_CASES = [
    # exact ties: the direct separation (first candidate) must be kept, in both directions
    {'op': 'arr', 'regime': 'exact', 'vects': [[2.0, 0, 0], [0, 2.0, 0], [0, 0, 2.0]], 'origin': [0.0, 0, 0],
     'pbc': [True, True, True], 'pos0': [[0.0, 0, 0], [1.0, 1, 1]], 'pos1': [[1.0, 1, 1], [0.0, 0, 0]],
     'form0': 'array', 'form1': 'array', 'pbcform': 'tuple'},
    # tie between two shifted candidates only (direct one longer): the earlier loop index wins
    {'op': 'arr', 'regime': 'exact', 'vects': [[2.0, 0, 0], [0, 2.0, 0], [0, 0, 2.0]], 'origin': [0.5, 0.5, 0.5],
     'pbc': [True, True, True], 'pos0': [[0.5, 0.5, 0.5]], 'pos1': [[2.0, 1.5, 1.5], [1.5, 2.0, 1.5], [1.5, 1.5, 2.0]],
     'form0': 'flat', 'form1': 'list', 'pbcform': 'list'},
    # every single-axis periodicity with a separation that wants a shift on every axis
    *[{'op': 'arr', 'regime': 'exact', 'vects': [[4.0, 0, 0], [1.0, 4.0, 0], [0.5, 1.0, 4.0]], 'origin': [1.0, -2.0, 3.0],
       'pbc': list(p), 'pos0': [[1.25, -1.75, 3.25]], 'pos1': [[6.0, 2.5, 6.5]], 'form0': 'tuple', 'form1': 'array',
       'pbcform': 'array'} for p in itertools.product([False, True], repeat=3)],
]


def correspond_big(ctx, rng):
    """model tie above the sizes at which block-wise / vectorised paths switch on: displacement (both references) of two
    large systems is computed by the real code ONCE on all atoms; the model (atom by atom: `displacement_atomwise`)
    is asked for ~100 of the atoms (first / last rows, rows around every multiple of 2^16, random rows) as a small pair of
    systems, and the rows of the large result must be those, bit for bit."""
    import numpy as np
    import atomman as am
    for n in [2 ** 18 + rng.randint(2, 2000)] + ([2 ** 19 + rng.randint(2, 8000), 2 ** 18 + 1] if ctx.thorough else []):
        spec = gen_big_disp(rng, n)
        S = big_systems(np, spec)
        pos0, pos1 = S['P0'].astype(float) * S['unit'], S['P1'].astype(float) * S['unit']
        s0d, s1d = spec['sys0'], spec['sys1']
        s0 = _mk_system(am, np, s0d['vects'], s0d['origin'], s0d['pbc'], pos0)
        s1 = _mk_system(am, np, s1d['vects'], s1d['origin'], s1d['pbc'], pos1)
        rows = sorted({r for b in range(0, n + 1, 2 ** 16) for r in (b - 1, b, b + 1) if 0 <= r < n} | {n - 1} |
                      {rng.randrange(n) for _ in range(80)})
        for ref in ('initial', 'final'):
            small = {'op': 'disp', 'regime': 'exact', 'ref': ref,
                     'sys0': {**s0d, 'pos': pos0[rows].tolist()}, 'sys1': {**s1d, 'pos': pos1[rows].tolist()}}
            lines = lines_for(small)
            out = ctx.driver.ask_many(lines)
            r = _call(lambda: am.displacement(s0, s1, box_reference=ref))
            impl = {'disp': (r[0], np.asarray(r[1])[rows] if r[0] == 'ok' and np.asarray(r[1]).shape == (n, 3) else r[1])}
            ctx.stats.case('bigdisp', (spec['posseed'], n, ref), nontrivial=True, sample={**spec, 'ref': ref})
            for key, msg in compare(small, impl, out):
                ctx.disagree('big:' + key, f'two systems of {n} atoms, rows {rows[:6]}... of the result: ' + msg[:1500],
                             {'op': 'bigdisp', 'case': spec, 'call': f'disp:{ref}'})
        ctx.extra.setdefault('big_tie_sizes', []).append(n)


def correspond(ctx):
    rng = ctx.rng
    cases = [dict(c) for c in FIXED_CASES]
    cases += [gen_arr_case(rng, 'exact') for _ in range(ctx.n(3000, 40000))]
    cases += [gen_arr_case(rng, 'tol') for _ in range(ctx.n(1000, 12000))]
    cases += [gen_arr_case(rng, 'exact', big=rng.choice([130, 257, 600, 1025])) for _ in range(ctx.n(4, 30))]
    cases += [gen_sys_case(rng) for _ in range(ctx.n(1500, 20000))]
    cases += [gen_disp_case(rng) for _ in range(ctx.n(600, 8000))]
    cases += [gen_history(rng) for _ in range(ctx.n(500, 6000))]
    cases += [gen_api_case(rng) for _ in range(ctx.n(600, 6000))]
    cases += [gen_pbcarg_case(rng) for _ in range(ctx.n(150, 1500))]
    for _ in range(ctx.n(200, 2000)):
        ch = lambda: None if rng.random() < 0.3 else rng.randint(-12, 12)
        cases.append({'op': 'slice', 'n': rng.randint(0, 9), 'a': ch(), 'b': ch(),
                      'c': rng.choice([None, 1, 2, 3, -1, -2, -3, 0, 5, -7])})
    run_cases(ctx, cases)
    correspond_big(ctx, rng)
    correspond_clean(ctx, rng)
    ties = [t for c in cases for t in c.get('_ties', [])]
    ctx.extra['tolerance_pairs'] = len(ties)
    ctx.extra['tolerance_pairs_exempt_as_ties'] = sum(ties)
    hs = [c for c in cases if c['op'] == 'seq']
    ctx.extra['histories'] = len(hs)
    ctx.extra['history_steps'] = sum(len(c['steps']) for c in hs)
    ctx.extra['scale_exponents_seen'] = sorted({c['k'] for c in hs})
    ctx.extra['pbc_settings_seen'] = sorted({''.join('1' if b else '0' for b in c['pbc']) for c in cases if 'pbc' in c})


# ----------------------------------------------------------------------------------------
# search: the property's clauses on the real code, exact integer arithmetic
# ----------------------------------------------------------------------------------------
def _ints(*groups):
    """common power-of-two denominator D and the integer numerators of every float (exact)."""
    frs = [[Fraction(float(x)) for x in g] for g in groups]
    D = max([f.denominator for g in frs for f in g] + [1])
    return D, [[int(f * D) for f in g] for g in frs]


def _cross(a, b):
    return [a[1] * b[2] - a[2] * b[1], a[2] * b[0] - a[0] * b[2], a[0] * b[1] - a[1] * b[0]]


def _dot(a, b):
    return a[0] * b[0] + a[1] * b[1] + a[2] * b[2]


def _isqrt_floor_ratio(num, den):
    """floor(sqrt(num/den)) for integers num >= 0, den > 0."""
    r = math.isqrt(num // den)
    while (r + 1) * (r + 1) * den <= num:
        r += 1
    return r


class Geo:
    """exact geometry of one cell on the integer scale D (all inputs floats, hence dyadic)."""

    def __init__(self, vects, origin, pts):
        flat = [x for r in vects for x in r]
        self.D, (vi, oi, pi) = _ints(flat, origin, [x for p in pts for x in p])
        self.V = [vi[0:3], vi[3:6], vi[6:9]]
        self.o = oi
        self.pts = [pi[3 * k:3 * k + 3] for k in range(len(pts))]
        self.c = [_cross(self.V[1], self.V[2]), _cross(self.V[2], self.V[0]), _cross(self.V[0], self.V[1])]
        self.det = _dot(self.V[0], self.c[0])

    def to_int(self, floats):
        out = []
        for x in floats:
            f = Fraction(float(x)) * self.D
            if f.denominator != 1:
                return None
            out.append(int(f))
        return out

    def image(self, d0, n):
        return [d0[j] + n[0] * self.V[0][j] + n[1] * self.V[1][j] + n[2] * self.V[2][j] for j in range(3)]

    def shift_of(self, e, d0):
        """n with e = d0 + n.V, as Fractions (integers iff e is an image)."""
        diff = [e[j] - d0[j] for j in range(3)]
        return [Fraction(_dot(diff, self.c[i]), self.det) for i in range(3)]

    def in_cell(self, p):
        rel = [p[j] - self.o[j] for j in range(3)]
        for i in range(3):
            s = Fraction(_dot(rel, self.c[i]), self.det)
            if s < 0 or s > 1:
                return False
        return True

    def orthogonal(self):
        return all(_dot(self.V[i], self.V[j]) == 0 for i, j in ((0, 1), (0, 2), (1, 2)))

    def nearest(self, d0, e, m, pbc, cap=60000):
        """min |d0 + n.V|^2 over all integer n vanishing off the periodic axes, enumerated inside the proven
        radius (n_i - m_i)^2 <= 4 |e|^2 |recip_i|^2 around the image e = d0 + m.V (search_radius_images)."""
        e2 = _dot(e, e)
        rng_ = []
        total = 1
        for i in range(3):
            if not pbc[i]:
                rng_.append([0])
                continue
            R = _isqrt_floor_ratio(4 * e2 * _dot(self.c[i], self.c[i]), self.det * self.det)
            rng_.append(list(range(m[i] - R, m[i] + R + 1)))
            total *= 2 * R + 1
        if total > cap:
            return None
        best, arg = None, None
        for n in itertools.product(*rng_):
            t = self.image(d0, n)
            q = _dot(t, t)
            if best is None or q < best:
                best, arg = q, n
        return best, arg, total

    def gram_ok(self, pbc):
        """the cell condition of theorem `gram_true_nearest`: coverBound * |recip_i|^2 < 1 on every periodic axis, with
        coverBound = sum_ij h_i h_j |v_i.v_j|, h = 1/2 on periodic axes and 1 on the others (integers, times 4)."""
        h2 = [1 if p else 2 for p in pbc]
        r2x4 = sum(h2[i] * h2[j] * abs(_dot(self.V[i], self.V[j])) for i in range(3) for j in range(3))
        return all(r2x4 * _dot(self.c[i], self.c[i]) < 4 * self.det * self.det for i in range(3) if pbc[i])

    def width2_ok(self, q, pbc):
        """4 q < w^2 with w^2 = min over periodic axes of 1/|recip_i|^2  (q on scale D^2)."""
        return all(4 * q * _dot(self.c[i], self.c[i]) < self.det * self.det for i in range(3) if pbc[i])


def _candidates(pbc):
    return list(itertools.product(*[([-1, 0, 1] if p else [0]) for p in pbc]))


def _viol(ctx, key, what, rep):
    """at most 3 reports per clause, so that one broken clause does not use up the report budget of the others."""
    counts = ctx.__dict__.setdefault('_c02_counts', {})
    counts[key] = counts.get(key, 0) + 1
    if counts[key] <= 3:
        ctx.violate(key, what, rep)


STAT_KEYS = ('pairs', 'true_nearest_claimed', 'claimed_ortho', 'claimed_width', 'inside_no_claim', 'inside_gram_cell',
             'inside_gram_cell_not_nearest',
             'inside_no_claim_not_nearest', 'outside_not_nearest', 'enumeration_skipped', 'lattice_points_enumerated',
             'one_to_many', 'many_to_one', 'many_to_many', 'refusals_checked', 'history_queries', 'history_steps',
             'history_aborted', 'pairs_after_inplace_change', 'shift_beyond_one', 'disp_cases',
             'disp_all_moves_below_half_edge', 'disp_small_moves_not_direct', 'copy_pairs_near_zero', 'big_cases', 'big_rows')


def new_stats():
    return {k: 0 for k in STAT_KEYS}


def clauses(ctx, stats, pre, label, v, o, pbc, pairs, dv, dm, exact, rep, claim=True):
    """the property's clauses for result rows dv[k] (and distances dm[k]; either may be None) of the point
    pairs `pairs` under the cell (v, o) and flags pbc, in exact integer arithmetic on the common power-of-two
    scale of all the floats involved.  `label(k)` names the call for the message, `rep` is the replay record."""
    pts = [q for pq in pairs for q in pq]
    g = Geo(v, o, pts)
    S = max([abs(x) for r in v for x in r] + [abs(float(x)) for q in pts for x in q])
    delta = U48 * S
    cands = _candidates(pbc)
    for k in range(len(pairs)):
        P0, P1 = g.pts[2 * k], g.pts[2 * k + 1]
        d0 = [P1[j] - P0[j] for j in range(3)]
        stats['pairs'] += 1
        c2 = [(c, _dot(t, t)) for c in cands for t in [g.image(d0, c)]]
        cbest = min(c2, key=lambda x: x[1])
        if dv is None:
            # only the scalar distance is available: it must be the length of the shortest candidate
            m2 = Fraction(cbest[1], g.D * g.D)
            okm = _sqrt_ok(dm[k], m2) if exact else \
                abs(float(dm[k]) - math.sqrt(float(m2))) <= 2 * delta + 2.0 ** -50 * float(dm[k])
            if not okm:
                _viol(ctx, pre + 'dmag-vs-min27', f'{label(k)} pbc={pbc} = {float(dm[k])!r} but the shortest of the candidates '
                            f'(shift {cbest[0]}) has length {math.sqrt(float(m2))!r}', {**rep, 'pair': k})
            continue
        row = [float(x) for x in dv[k]]
        e = g.to_int(row) if exact else None
        if exact and e is None:
            _viol(ctx, pre + 'image-form', f'{label(k)} = {row} is off the input grid: not a lattice image', {**rep, 'pair': k})
            continue
        if exact:
            nn = g.shift_of(e, d0)
        else:
            ef = [Fraction(x) * g.D for x in row]
            nn = [Fraction(sum((ef[j] - d0[j]) * g.c[i][j] for j in range(3)), g.det) for i in range(3)]
            nn = [Fraction(round(x)) for x in nn]
            img = g.image(d0, [int(x) for x in nn])
            if any(abs(ef[j] - img[j]) > Fraction(delta) * g.D for j in range(3)):
                _viol(ctx, pre + 'image-form', f'{label(k)} = {row} is not (p1-p0) + n.vects for integer n '
                            f'(closest n = {[int(x) for x in nn]})', {**rep, 'pair': k})
                continue
            e = img
        # clause 1: the direct separation shifted by WHOLE cell vectors along PERIODIC directions only
        if any(x.denominator != 1 for x in nn) or any((not pbc[i]) and nn[i] != 0 for i in range(3)):
            _viol(ctx, pre + 'image-form', f'{label(k)} pbc={pbc}: {row} = (p1-p0) + n.vects with '
                        f'n = {[str(x) for x in nn]}: not whole cell vectors along periodic directions only', {**rep, 'pair': k})
            continue
        if any(abs(x) > 1 for x in nn):
            # the text allows any whole shift as long as the result is not longer than the 27 candidates (the model
            # never produces one: `dvect_is_image`; the correspondence reports the difference)
            stats['shift_beyond_one'] += 1
        m = [int(x) for x in nn]
        e2 = _dot(e, e)
        # clause 2: not longer than any of the 27 candidates
        slack = 0 if exact else int(Fraction(8 * (math.sqrt(float(Fraction(e2, g.D * g.D))) + delta) * delta) * g.D * g.D) + 1
        if e2 > cbest[1] + slack:
            _viol(ctx, pre + 'min27', f'{label(k)} pbc={pbc} has squared length {float(Fraction(e2, g.D ** 2))!r}, candidate shift '
                        f'{cbest[0]} has {float(Fraction(cbest[1], g.D ** 2))!r}', {**rep, 'pair': k})
        # clause 3: scalar distance = length of the vector
        m2 = Fraction(e2, g.D * g.D)
        if dm is not None:
            okm = _sqrt_ok(dm[k], m2) if exact else \
                abs(float(dm[k]) - math.sqrt(float(m2))) <= 2 * delta + 2.0 ** -50 * float(dm[k])
            if not okm:
                _viol(ctx, pre + 'dmag-vs-dvect', f'{label(k).replace("dvect", "dmag")} = {float(dm[k])!r} but |dvect| = '
                            f'{math.sqrt(float(m2))!r}', {**rep, 'pair': k})
        # clause 5: true nearest image
        if not any(pbc) or not claim:
            continue
        inside = g.in_cell(P0) and g.in_cell(P1)
        res = g.nearest(d0, e, m, pbc)
        if res is None:
            stats['enumeration_skipped'] += 1
            continue
        best, arg, total = res
        stats['lattice_points_enumerated'] += total
        ortho = g.orthogonal()
        narrow = g.width2_ok(best, pbc)
        if inside and (ortho or narrow):
            stats['true_nearest_claimed'] += 1
            stats['claimed_ortho' if ortho else 'claimed_width'] += 1
            if e2 > best + slack:
                _viol(ctx, pre + 'true-nearest', f'points in the cell ({"orthogonal cell" if ortho else "nearest image below half the smallest width"}), '
                            f'{label(k)} pbc={pbc} = {row} (|.|^2 = {float(Fraction(e2, g.D ** 2))!r}) but the image with '
                            f'n = {list(arg)} has |.|^2 = {float(Fraction(best, g.D ** 2))!r}', {**rep, 'pair': k})
        elif inside:
            stats['inside_no_claim'] += 1
            if e2 > best:
                stats['inside_no_claim_not_nearest'] += 1
            # beyond the property text, theorem gram_true_nearest: in a cell meeting the cover-bound condition EVERY in-cell
            # pair gets its true nearest image (counted, and noted if the compiled code ever disagrees with the theorem)
            if g.gram_ok(pbc):
                stats['inside_gram_cell'] += 1
                if e2 > best + slack:
                    stats['inside_gram_cell_not_nearest'] += 1
        elif e2 > best:
            stats['outside_not_nearest'] += 1


def _shape_ok(np, val, rows, width, squeeze):
    a = np.asarray(val)
    if squeeze and rows == 1:
        return a.shape == ((3,) if width == 3 else ())
    return a.shape == ((rows, 3) if width == 3 else (rows,))


def _rows(np, val, width):
    a = np.asarray(val, dtype=float)
    return a.reshape(-1, 3).tolist() if width == 3 else a.reshape(-1).tolist()


def oracle_pairs(ctx, case, stats):
    """all clauses of the property for the pairs of one cell, on the real code (module-level wrappers)."""
    import numpy as np
    import atomman as am
    v, o, pbc = case['vects'], case['origin'], case['pbc']
    p0s, p1s = case['p0'], case['p1']
    box = _mk_box(am, v, o)
    A = _as_input(np, p0s, case.get('form0', 'array'))
    B = _as_input(np, p1s, case.get('form1', 'array'))
    keep = (np.array(A, dtype=float, copy=True), np.array(B, dtype=float, copy=True))
    pb = _as_pbc(np, pbc, case.get('pbcform', 'tuple'))
    rdv = _call(lambda: am.dvect(A, B, box, pb))
    rdm = _call(lambda: am.dmag(A, B, box, pb))
    exact = case['regime'] == 'exact'
    rep = {'op': 'oracle', 'case': case}
    pairs = expected_pairs(p0s, p1s)
    shapes = f'{len(p0s)} reference point(s) against {len(p1s)} point(s)'
    if pairs is None:
        stats['refusals_checked'] += 1
        for name, r in (('dvect', rdv), ('dmag', rdm)):
            if r != ('err', 'value'):
                _viol(ctx, 'refusal:lengths', f'am.{name} with {shapes} (neither one-to-many nor many-to-many) must raise '
                            f'ValueError; it gave {r[0]} {str(r[1])[:120]!r}; cell {v}, pos_0 {p0s}, pos_1 {p1s}', rep)
        return
    for name, r in (('dvect', rdv), ('dmag', rdm)):
        if r[0] == 'err':
            _viol(ctx, 'raises', f'am.{name} with {shapes} raised {r[1]}; cell {v} pbc={pbc} pos_0 {p0s} pos_1 {p1s}', rep)
            return
    for name, r, w in (('dvect', rdv, 3), ('dmag', rdm, 1)):
        if not _shape_ok(np, r[1], len(pairs), w, False):
            _viol(ctx, 'shape', f'am.{name} with {shapes} returned shape {np.asarray(r[1]).shape}, expected '
                        f'{(len(pairs), 3) if w == 3 else (len(pairs),)}', rep)
            return
    if not (np.array_equal(np.array(A, dtype=float), keep[0]) and np.array_equal(np.array(B, dtype=float), keep[1])):
        _viol(ctx, 'input-modified', f'am.dvect / am.dmag changed the position arrays handed in ({shapes}); pos_0 was {p0s}, '
                    f'pos_1 was {p1s}', rep)
    stats['one_to_many' if len(p0s) == 1 and len(p1s) > 1 else 'many_to_one' if len(p1s) == 1 and len(p0s) > 1
          else 'many_to_many'] += 1
    dv, dm = _rows(np, rdv[1], 3), _rows(np, rdm[1], 1)
    if not exact:
        me = min_edge(v)
        stats['copy_pairs_near_zero'] += sum(1 for (a_, b_), row in zip(pairs, dv)
                                             if sum(x * x for x in row) < (1e-9 * me) ** 2 and
                                             sum((b_[j] - a_[j]) ** 2 for j in range(3)) > (0.1 * me) ** 2)
    tshift = case.get('translate')
    if tshift is not None and exact:
        T = np.array(tshift, dtype=float)
        rt = _call(lambda: am.dvect(keep[0] + T, keep[1] + T, box, pb))
        if rt[0] == 'err' or not np.array_equal(np.asarray(rt[1]), np.asarray(rdv[1])):
            _viol(ctx, 'translate', f'dvect changes under a common translation {tshift}: {dv} -> '
                        f'{rt[1] if rt[0] == "err" else np.asarray(rt[1]).tolist()}; cell {v} pbc={pbc} pos_0 {p0s} pos_1 {p1s}', rep)
    clauses(ctx, stats, '', lambda k: f'dvect({pairs[k][0]}, {pairs[k][1]}) [{shapes}, cell {v}]', v, o, pbc, pairs, dv, dm,
            exact, rep, claim=len(pairs) <= 64)


def oracle_disp(ctx, case, stats):
    """displacement(system_0, system_1, box_reference) on the real code: atom by atom the periodic separation under the
    reference system's cell and flags (image form, 27-candidate minimality, true nearest image where the property claims
    it), the plain difference for None, ValueError for different atom counts."""
    import numpy as np
    import atomman as am
    s0d, s1d, ref = case['sys0'], case['sys1'], case['ref']
    s0 = _mk_system(am, np, s0d['vects'], s0d['origin'], s0d['pbc'], s0d['pos'])
    s1 = _mk_system(am, np, s1d['vects'], s1d['origin'], s1d['pbc'], s1d['pos'])
    r = _call(lambda: am.displacement(s0, s1)) if ref == 'default' else \
        _call(lambda: am.displacement(s0, s1, box_reference=ref))
    rep = {'op': 'disp', 'case': case}
    exact = case.get('regime', 'exact') == 'exact'
    refd = {'final': s1d, 'default': s1d, 'initial': s0d}.get(ref)
    who = (f"displacement(system_0 pos={s0d['pos']}, system_1 pos={s1d['pos']}, box_reference={ref!r})" +
           (f" [reference cell {refd['vects']}, pbc={refd['pbc']}]" if refd else ''))
    stats['disp_cases'] += 1
    if len(s0d['pos']) != len(s1d['pos']):
        stats['refusals_checked'] += 1
        if r != ('err', 'value'):
            _viol(ctx, 'disp:refusal:natoms', who + f': different atom counts, ValueError expected, got {r[0]} {str(r[1])[:100]!r}', rep)
        return
    if r[0] == 'err':
        _viol(ctx, 'disp:raises', who + f' raised {r[1]}', rep)
        return
    pairs = list(zip(s0d['pos'], s1d['pos']))
    if not _shape_ok(np, r[1], len(pairs), 3, False):
        _viol(ctx, 'disp:shape', who + f' returned shape {np.asarray(r[1]).shape} for {len(pairs)} atoms', rep)
        return
    rows = _rows(np, r[1], 3)
    if not (np.array_equal(np.asarray(s0.atoms.pos), np.array(s0d['pos'], dtype=float).reshape(-1, 3)) and
            np.array_equal(np.asarray(s1.atoms.pos), np.array(s1d['pos'], dtype=float).reshape(-1, 3))):
        _viol(ctx, 'disp:input-modified', who + ' changed the positions of one of the systems', rep)
    if refd is None:
        for k, (p_, q_) in enumerate(pairs):
            want = [float(q_[j]) - float(p_[j]) for j in range(3)]
            if rows[k] != want:
                _viol(ctx, 'disp:none', who + f' atom {k}: {rows[k]} is not the plain difference {want}', rep)
                break
        return
    # coverage: every atom moved less than half the shortest cell edge, and yet some periodic separation is not the
    # straight difference (the class a "small move" short cut gets wrong)
    v = refd['vects']
    half = 0.5 * min_edge(v)
    direct = [[float(q_[j]) - float(p_[j]) for j in range(3)] for p_, q_ in pairs]
    if all(math.sqrt(sum(x * x for x in d_)) < half for d_ in direct):
        stats['disp_all_moves_below_half_edge'] += 1
        combos = lattice_combos(v, refd['pbc'])
        if any(sum((d_[j] + sv[j]) ** 2 for j in range(3)) < sum(x * x for x in d_) * (1 - 1e-9) for d_ in direct for sv in combos):
            stats['disp_small_moves_not_direct'] += 1
    clauses(ctx, stats, 'disp:', lambda k: who + f' atom {k}', v, refd['origin'], refd['pbc'], pairs, rows, None, exact, rep,
            claim=True)


# ----------------------------------------------------------------------------------------
# large systems (block-wise / vectorised code paths that switch on at a SIZE): a short specification, positions derived
# from it with a numpy generator, every row decided exactly in int64 arithmetic
# ----------------------------------------------------------------------------------------
BIG_UNIT = 1024          # positions and cell vectors are whole multiples of 2^k / 1024
BIG_EDGE_SIZES = [2 ** 18 + 1, 2 ** 18, 2 ** 18 - 1, 2 ** 17 + 1, 2 ** 16 + 1, 2 ** 16, 2 ** 15 + 1]
BIG_REFS = ['initial', 'final', 'default', None]


def gen_big_disp(rng, n):
    """two LARGE systems of n atoms whose cells and / or periodicity flags differ (strained copy, the same lattice described
    by other vectors, an unrelated cell, the same cell with other flags, a shifted origin); positions are a function of
    `posseed` (see big_systems): in / on / outside cell 0; moves that are tiny, about half of a lattice combination of
    either cell, anywhere in cell 1, or tiny plus a few whole cells."""
    k = gen_scale_exp(rng)
    f = 2.0 ** k
    while True:
        v0, o0 = gen_cell(rng, rng.choice(CELL_KINDS))
        mode = rng.choice(['strained', 'strained', 'relabelled', 'other', 'same', 'origin'])
        v1, o1 = [list(r) for r in v0], list(o0)
        if mode == 'strained':
            gs = [rng.choice([1.125, 0.875, 1.0, 1.25, 1.5]) for _ in range(3)]
            if gs == [1.0, 1.0, 1.0]:
                gs[rng.randrange(3)] = 1.125
            v1 = [[gs[i] * x for x in v0[i]] for i in range(3)]
        elif mode == 'relabelled':
            i, j = rng.sample(range(3), 2)
            s = rng.choice([-1.0, 1.0, 2.0])
            v1[i] = [v0[i][c] + s * v0[j][c] for c in range(3)]
        elif mode == 'other':
            v1, o1 = gen_cell(rng, rng.choice(CELL_KINDS))
        elif mode == 'origin':
            o1 = [x + rng.randint(-16, 16) / 8.0 for x in o0]
        if max(abs(x) for r in v1 for x in r) <= 64 and abs(_det3(v1)) >= 0.125:
            break
    pbc0 = gen_pbc(rng)
    if not any(pbc0):
        pbc0[rng.randrange(3)] = True
    pbc1 = list(pbc0)
    if mode in ('same', 'origin') or rng.random() < 0.7:
        for i in rng.sample(range(3), rng.choice([1, 1, 2])):
            pbc1[i] = not pbc1[i]
    return {'op': 'bigdisp', 'n': n, 'k': k, 'mode': mode, 'posseed': rng.randrange(2 ** 32),
            'sys0': {'vects': _sc(v0, f), 'origin': _sc(o0, f), 'pbc': pbc0},
            'sys1': {'vects': _sc(v1, f), 'origin': _sc(o1, f), 'pbc': pbc1}}


def _big_int_rows(np, arr, inv):
    """floats -> whole numbers of the unit (int64), None when some entry is off the grid / not finite / huge."""
    a = np.asarray(arr, dtype=float) * inv
    if not np.all(np.isfinite(a)) or np.any(np.abs(a) >= 2.0 ** 28) or np.any(a != np.rint(a)):
        return None
    return a.astype(np.int64)


def big_systems(np, spec):
    """the integer cell vectors / origins (unit 2^k/1024) and integer positions of the two systems of a specification."""
    inv = BIG_UNIT / 2.0 ** spec['k']
    V0, V1 = (_big_int_rows(np, spec[s]['vects'], inv) for s in ('sys0', 'sys1'))
    O0, O1 = (_big_int_rows(np, spec[s]['origin'], inv) for s in ('sys0', 'sys1'))
    g = np.random.default_rng(spec['posseed'])
    n = spec['n']
    rel = g.integers(0, 9, size=(n, 3))                     # on the 1/8 grid of cell 0: inside, on faces / edges / corners
    out = g.random(n) < 0.05
    rel[out] = g.integers(-16, 25, size=(int(out.sum()), 3))
    P0 = (rel @ V0) // 8 + O0
    cls = g.integers(0, 5, size=n)
    small = g.integers(-48, 49, size=(n, 3))
    m = g.integers(-1, 2, size=(n, 3))
    frac = g.choice(np.array([15, 16, 16, 17, 20, 24, 28, 32]), size=n)[:, None]
    jit = g.integers(-2, 3, size=(n, 3))
    rel1 = g.integers(0, 9, size=(n, 3))
    cells = g.integers(-3, 4, size=(n, 3))
    which = g.integers(0, 2, size=n)[:, None]
    P1 = P0 + small
    for c, V in ((1, V0), (2, V1)):
        k_ = cls == c
        P1[k_] = (P0 + ((m @ V) * frac) // 32 + jit)[k_]
    k_ = cls == 3
    P1[k_] = ((rel1 @ V1) // 8 + O1)[k_]
    k_ = cls == 4
    P1[k_] = (P0 + small + np.where(which == 0, cells @ V0, cells @ V1))[k_]
    return {'V0': V0, 'V1': V1, 'O0': O0, 'O1': O1, 'P0': P0, 'P1': P1, 'unit': 2.0 ** spec['k'] / BIG_UNIT, 'inv': inv}


def big_row_check(np, P0, P1, V, pbc, rows, inv, dist=None):
    """every row of `rows` against the property's clauses, exactly, in int64: on the grid, the direct separation plus WHOLE
    cell vectors along periodic directions only, not longer than any of the <= 27 candidates; `dist` (if given) the length
    of the shortest candidate within 2 ulp.  Returns the boolean mask of rows that break a clause and the squared length
    of the shortest candidate."""
    n = len(P0)
    d0 = P1 - P0
    best = None
    for c in _candidates(pbc):
        t = d0 + (np.array(c, dtype=np.int64) @ V)
        q = (t * t).sum(axis=1)
        best = q if best is None else np.minimum(best, q)
    bad = np.zeros(n, dtype=bool)
    if rows is not None:
        a = np.asarray(rows, dtype=float).reshape(n, 3) * inv
        ok = np.isfinite(a).all(axis=1) & (np.abs(np.nan_to_num(a)) < 2.0 ** 28).all(axis=1)
        a = np.where(ok[:, None], np.nan_to_num(a), 0.0)
        ok &= (a == np.rint(a)).all(axis=1)
        E = np.rint(a).astype(np.int64)
        diff = E - d0
        C = np.array([np.cross(V[1], V[2]), np.cross(V[2], V[0]), np.cross(V[0], V[1])], dtype=np.int64)
        det = int(V[0] @ C[0])
        num = diff @ C.T                                     # n_i * det
        ok &= (num % det == 0).all(axis=1)
        for i in range(3):
            if not pbc[i]:
                ok &= num[:, i] == 0
        ok &= (E * E).sum(axis=1) <= best
        bad |= ~ok
    if dist is not None:
        dm = np.asarray(dist, dtype=float).reshape(n) * inv
        want = np.sqrt(best.astype(float))
        with np.errstate(invalid='ignore'):
            okd = np.isfinite(dm) & (np.abs(dm - want) <= 2.0 ** -51 * want)
        bad |= ~okd
    return bad, best


def oracle_bigdisp(ctx, spec, stats, sample_rng=None):
    """displacement (all four references), am.dvect / am.dmag (many-to-many, one-to-many, many-to-one) and System.dvect /
    System.dmag with slices on two large systems: all rows screened exactly in int64, the rows that fail (and a sample of
    the others, the first and last row of every 2^16 block included) then go through `clauses` (exhaustive lattice search
    for the true-nearest clause, the concrete message)."""
    import numpy as np
    import atomman as am
    S = big_systems(np, spec)
    n, unit, inv = spec['n'], S['unit'], S['inv']
    pos0, pos1 = S['P0'].astype(float) * unit, S['P1'].astype(float) * unit
    keep0, keep1 = pos0.copy(), pos1.copy()
    s0d, s1d = spec['sys0'], spec['sys1']
    s0 = _mk_system(am, np, s0d['vects'], s0d['origin'], s0d['pbc'], pos0)
    s1 = _mk_system(am, np, s1d['vects'], s1d['origin'], s1d['pbc'], pos1)
    srng = sample_rng or random.Random(spec['posseed'])
    edges = sorted({r for b in range(0, n, 2 ** 16) for r in (b - 1, b, b + 1) if 0 <= r < n} | {n - 1})
    base = f"two systems of {n} atoms (specification: posseed={spec['posseed']}, k={spec['k']}, cells '{spec['mode']}'): "
    stats['big_cases'] = stats.get('big_cases', 0) + 1

    def refof(ref):
        return {'initial': (s0d, S['V0'], s0), 'final': (s1d, S['V1'], s1), 'default': (s1d, S['V1'], s1)}.get(ref)

    def judge(key, name, r, V, sd, A, B, PA, PB, width, tag):
        """r = ('ok', value) of one call whose rows pair positions A[k] (ints PA) with B[k] (ints PB) under cell sd."""
        rep = {'op': 'bigdisp', 'case': spec, 'call': tag}
        if r[0] == 'err':
            _viol(ctx, key + ':raises', base + f'{name} raised {r[1]}', rep)
            return
        if not _shape_ok(np, r[1], len(PA), width, False):
            _viol(ctx, key + ':shape', base + f'{name} returned shape {np.asarray(r[1]).shape} for {len(PA)} rows', rep)
            return
        bad, _best = big_row_check(np, PA, PB, V, sd['pbc'], r[1] if width == 3 else None, inv,
                                   dist=r[1] if width == 1 else None)
        stats['big_rows'] = stats.get('big_rows', 0) + len(PA)
        nbad = int(bad.sum())
        worst = [int(x) for x in np.flatnonzero(bad)[:3]]
        extra = [x for x in edges if x < len(PA)]
        picks = worst + srng.sample(extra, min(len(extra), 8)) + [srng.randrange(len(PA)) for _ in range(8)]
        pairs = [(A[k_].tolist(), B[k_].tolist()) for k_ in picks]
        val = np.asarray(r[1], dtype=float)
        before = len(ctx.violations)
        lab = lambda j: base + f'{name} [cell {sd["vects"]}, pbc={sd["pbc"]}] row {picks[j]} = ({pairs[j][0]}, {pairs[j][1]})' + \
            (f'; {nbad} of {len(PA)} rows break a clause' if nbad else '')
        if width == 3:
            clauses(ctx, stats, key + ':', lab, sd['vects'], sd['origin'], sd['pbc'], pairs, [val[k_].tolist() for k_ in picks],
                    None, True, {**rep, 'rows': picks}, claim=True)
        else:
            clauses(ctx, stats, key + ':', lab, sd['vects'], sd['origin'], sd['pbc'], pairs, None, [float(val[k_]) for k_ in picks],
                    True, {**rep, 'rows': picks}, claim=False)
        if nbad and len(ctx.violations) == before:
            _viol(ctx, key + ':rows', base + f'{name}: {nbad} of {len(PA)} rows break a clause, first rows {worst}', rep)

    for ref in BIG_REFS:
        r = _call(lambda: am.displacement(s0, s1)) if ref == 'default' else \
            _call(lambda: am.displacement(s0, s1, box_reference=ref))
        name = f'displacement(box_reference={ref!r})'
        got = refof(ref)
        if got is None:
            if r[0] == 'err' or np.asarray(r[1]).shape != (n, 3) or not np.array_equal(np.asarray(r[1]), keep1 - keep0):
                _viol(ctx, 'big:disp:none', base + name + ' is not the plain difference of the positions'
                      + (f' (raised {r[1]})' if r[0] == 'err' else ''), {'op': 'bigdisp', 'case': spec, 'call': 'disp:None'})
            continue
        sd, V, _ = got
        judge('big:disp', name, r, V, sd, keep0, keep1, S['P0'], S['P1'], 3, f'disp:{ref}')
    # the wrappers themselves on long arrays, under the cell of one of the two systems
    sd, V, sref = refof(srng.choice(['initial', 'final']))
    box, pbc = sref.box, sref.pbc
    judge('big:dvect', 'am.dvect(pos_0, pos_1) many-to-many', _call(lambda: am.dvect(pos0, pos1, box, pbc)), V, sd,
          keep0, keep1, S['P0'], S['P1'], 3, 'dvect:mm')
    judge('big:dmag', 'am.dmag(pos_0, pos_1) many-to-many', _call(lambda: am.dmag(pos0, pos1, box, pbc)), V, sd,
          keep0, keep1, S['P0'], S['P1'], 1, 'dmag:mm')
    i0 = srng.randrange(n)
    one = np.broadcast_to(keep0[i0], (n, 3))
    onei = np.broadcast_to(S['P0'][i0], (n, 3))
    judge('big:dvect', f'am.dvect(pos_0[{i0}], pos_1) one-to-many', _call(lambda: am.dvect(pos0[i0], pos1, box, pbc)), V, sd,
          one, keep1, onei, S['P1'], 3, 'dvect:1m')
    judge('big:dmag', f'am.dmag(pos_1, pos_0[{i0}]) many-to-one', _call(lambda: am.dmag(pos1, pos0[i0], box, pbc)), V, sd,
          keep1, one, S['P1'], onei, 1, 'dmag:m1')
    half = n // 2
    judge('big:sysdvect', f'System.dvect(slice(0, {half}), slice({n - half}, {n}))',
          _call(lambda: sref.dvect(slice(0, half), slice(n - half, n))), V, sd,
          (keep0 if sref is s0 else keep1)[:half], (keep0 if sref is s0 else keep1)[n - half:],
          (S['P0'] if sref is s0 else S['P1'])[:half], (S['P0'] if sref is s0 else S['P1'])[n - half:], 3, 'sys:dvect')
    judge('big:sysdmag', f'System.dmag({i0}, slice(None))', _call(lambda: sref.dmag(i0, slice(None))), V, sd,
          np.broadcast_to((keep0 if sref is s0 else keep1)[i0], (n, 3)), keep0 if sref is s0 else keep1,
          np.broadcast_to((S['P0'] if sref is s0 else S['P1'])[i0], (n, 3)), S['P0'] if sref is s0 else S['P1'], 1, 'sys:dmag')
    if not (np.array_equal(pos0, keep0) and np.array_equal(pos1, keep1) and
            np.array_equal(np.asarray(s0.atoms.pos), keep0) and np.array_equal(np.asarray(s1.atoms.pos), keep1)):
        _viol(ctx, 'big:input-modified', base + 'the calls changed the positions handed in / held by the systems',
              {'op': 'bigdisp', 'case': spec, 'call': 'inputs'})
    # unequal atom counts must be refused whatever the size
    s1m = _mk_system(am, np, s1d['vects'], s1d['origin'], s1d['pbc'], keep1[:-1])
    r = _call(lambda: am.displacement(s0, s1m, box_reference=srng.choice(['initial', 'final'])))
    stats['refusals_checked'] += 1
    if r != ('err', 'value'):
        _viol(ctx, 'big:refusal:natoms', base + f'displacement with {n} and {n - 1} atoms: ValueError expected, got {r[0]}',
              {'op': 'bigdisp', 'case': spec, 'call': 'natoms'})


def big_sizes(ctx, rng):
    """sizes of the large cases of one run: always one a little above 2^18 (~263 000), one at a power of two +- 1;
    thorough: also 2^19 + 1, ~530 000 and 3 * 2^18 + 1."""
    sizes = [2 ** 18 + rng.randint(2, 2000), rng.choice(BIG_EDGE_SIZES)]
    if ctx.thorough:
        sizes += [2 ** 19 + 1, 2 ** 19 + rng.randint(2, 8000), 3 * 2 ** 18 + 1, 2 ** 18 + 1, 2 ** 18]
    return sizes


NEAR_TIE_EPS = [0.0, 1e-16, -1e-16, 1e-15, 1e-14, -1e-14, 1e-13, -1e-13, 1e-12, 1e-11, -1e-11, 1e-10, 1e-9, -1e-9, 1e-8,
                1e-7, -1e-6]


def _oracle_case(rng, regime, kind=None, inside=None, big=None):
    shape = rng.choice(['mm', 'mm', 'mm', '1m', 'm1'])
    f32 = False
    pbc_copy = None
    if regime == 'exact':
        f = 2.0 ** gen_scale_exp(rng)
        v, o = gen_cell_scaled(rng, kind or rng.choice(CELL_KINDS), f)
        n = big or rng.randint(1, 5)
        where = inside if inside is not None else rng.choice(['in', 'in', 'face', None])
        p0 = [gen_point(rng, v, o, where) for _ in range(n)]
        p1 = [gen_point(rng, v, o, where) for _ in range(n)]
        if where == 'in' and rng.random() < 0.4:
            # close pairs across the cell boundary: s1 = (s0 + small step) wrapped back into the cell
            p0, p1 = [], []
            for _ in range(n):
                s0 = [rng.randint(0, 8) / 8.0 for _ in range(3)]
                s1 = [((s0[i] + rng.choice([-0.125, 0.0, 0.0, 0.125])) % 1.0) for i in range(3)]
                p0.append(rel_to_cart(s0, v, o))
                p1.append(rel_to_cart(s1, v, o))
        if rng.random() < 0.08:          # exactly half a cell vector (or half a face diagonal) apart
            h = [rng.choice([0, 0, 0.5, -0.5]) for _ in range(3)]
            p1[0] = [p0[0][j] + sum(h[i] * v[i][j] for i in range(3)) for j in range(3)]
        if rng.random() < 0.08:          # one side integer-valued (handed over with an integer dtype / as python ints)
            p0 = [[float(round(x)) for x in p] for p in p0]
        tr = [rng.randint(-64, 64) / 8.0 * f for _ in range(3)] if rng.random() < 0.5 else None
    else:
        decimal = rng.random() < 0.45
        v, o = gen_decimal_cell(rng)[:2] if decimal else gen_float_cell(rng)
        n = big or rng.randint(1, 4)
        lo, hi = (0.0, 1.0) if rng.random() < 0.7 else (-1.0, 2.0)
        pt = lambda: rel_to_cart([rng.uniform(lo, hi) for _ in range(3)], v, o)
        p0, p1 = [pt() for _ in range(n)], [pt() for _ in range(n)]
        if decimal and rng.random() < 0.75:
            # periodic copies of each other, up to 0 / 1 ulp / tiny offsets
            pbc_copy = gen_pbc(rng)
            if not any(pbc_copy):
                pbc_copy[rng.randrange(3)] = True
            p0, p1 = gen_copy_pairs(rng, v, o, pbc_copy, n)
            if shape == '1m':
                p1 = [[p0[0][j] + (p1[i][j] - p0[i][j]) for j in range(3)] for i in range(n)]
            elif shape == 'm1':
                p0 = [[p1[0][j] - (p1[i][j] - p0[i][j]) for j in range(3)] for i in range(n)]
        elif rng.random() < 0.3:           # near ties: half a cell vector +- a ladder of relative offsets
            i = rng.randrange(3)
            eps = rng.choice(NEAR_TIE_EPS)
            p1[0] = [p0[0][j] + (0.5 + eps) * v[i][j] for j in range(3)]
        tr = None
        if rng.random() < 0.15:          # single-precision input: the float32 values ARE the points
            import numpy as np
            p0 = [[float(np.float32(x)) for x in p] for p in p0]
            f32 = True
    if shape == '1m':
        p0 = p0[:1]
    elif shape == 'm1':
        p1 = p1[:1]
    elif rng.random() < 0.08 and n >= 2:
        p1 = p1 + [p1[0]] * rng.choice([1, 2])      # neither one-to-many nor many-to-many: must be refused
    pbc = pbc_copy or gen_pbc(rng)
    if not any(pbc) and rng.random() < 0.7:
        pbc[rng.randrange(3)] = True
    return {'regime': regime, 'vects': v, 'origin': o, 'pbc': pbc, 'p0': p0, 'p1': p1, 'translate': tr,
            'form0': 'f32' if f32 else _form(rng, len(p0)), 'form1': _form(rng, len(p1)),
            'pbcform': rng.choice(PBC_FORMS)}


def _sel_text(sel):
    k = sel[0]
    if k == 'I':
        return str(sel[1])
    if k == 'S':
        return f'slice({sel[1]}, {sel[2]}, {sel[3]})'
    if k == 'L':
        return str(list(sel[1]))
    if k == 'M':
        return f'mask {[bool(b) for b in sel[1]]}'
    return f'positions {sel[1]}'


def check_history(ctx, case, stats, upto=None):
    """run one history on the real objects; after every query evaluate the property's clauses against the values the
    objects hold NOW (kept by `Shadow`), whatever happened before."""
    import numpy as np
    live, sh = Live(), Shadow()
    pub = _public(case)
    changed = False
    prev_scaled = None
    for i, st in enumerate(case['steps']):
        if upto is not None and i > upto:
            break
        d = st['do']
        if d == 'sysboxset' and st.get('scale'):
            # what the System holds BEFORE box_set(scale=True): needed for the derived bound of the read-back below
            pc = sh.cell_of(st['sys'])
            prev_scaled = (st['sys'], ([list(r) for r in pc[0]], list(pc[1])), [list(p) for p in sh.systems[st['sys']]['pos']])
        sh.apply(st)
        status, obs = live.step(st)
        stats['history_steps'] += 1
        rep = {'op': 'history', 'case': pub, 'step': i}
        hist = f'after {i} steps ({", ".join(s2["do"] for s2 in case["steps"][max(0, i - 3):i])}) '
        if status == 'err':
            stats['history_aborted'] += 1
            ctx.notes.append(f'history step {i} ({d}) raised {obs}: rest of the history skipped')
            return
        if d in ('boxvects', 'boxorigin', 'boxset', 'sysboxset', 'pbcset', 'pbcedit', 'posedit', 'posset'):
            changed = True
            continue
        if d == 'state' and st.get('tolpos') and prev_scaled is not None and prev_scaled[0] == st['sys'] and isinstance(obs, dict):
            # box_set(scale=True) keeps the RELATIVE positions: the Cartesian positions read back must be the exact rescaling
            # of the old ones (kept by `Shadow`) within the derived rounding bound - decided on the real code alone, so that
            # a restructured box_set the translator refuses still yields a concrete input
            _, (pv, po), ppos = prev_scaled
            nv, no = sh.cell_of(st['sys'])
            want = [Fraction(x) for p_ in sh.systems[st['sys']]['pos'] for x in p_]
            tol = rescale_tolerance(pv, po, ppos, nv, no, want)
            got = obs['pos']
            if len(got) != len(want) or not all(abs(Fraction(float(x)) - m) <= tol for x, m in zip(got, want)):
                _viol(ctx, 'history:scaled-positions', hist + f"System #{st['sys']}.box_set(vects={nv}, origin={no}, scale=True) on positions "
                      f'{ppos} under the cell {pv} (origin {po}): atoms.pos reads {got}, the relative coordinates are kept by '
                      f'{[float(x) for x in want]}', rep)
            prev_scaled = None
            continue
        if d in ('newbox', 'newsys', 'state'):
            continue
        stats['history_queries'] += 1
        if d == 'arr':
            bx = sh.boxes[st['box']]
            v, o, pbc = bx['v'], bx['o'], st['pbc']
            pairs = expected_pairs(st['pos0'], st['pos1'])
            who = f"atomman.%s(pos_0={st['pos0']}, pos_1={st['pos1']}, Box object #{st['box']} holding vects {v}, pbc={pbc})"
            squeeze = False
        elif d == 'sys':
            sy = sh.systems[st['sys']]
            v, o = sh.cell_of(st['sys'])
            pbc = sy['pbc']
            a, b = sel_positions(np, sy['pos'], st['sel0']), sel_positions(np, sy['pos'], st['sel1'])
            pairs = expected_pairs(a, b)
            who = (f"System.%s({_sel_text(st['sel0'])}, {_sel_text(st['sel1'])}) of a System holding pbc={pbc}, "
                   f"box.vects={v}, atoms.pos={sy['pos']}")
            squeeze = True
        else:
            s0, s1 = sh.systems[st['s0']], sh.systems[st['s1']]
            ref = 'final' if st['ref'] == 'default' else st['ref']
            pairs = list(zip(s0['pos'], s1['pos'])) if len(s0['pos']) == len(s1['pos']) else None
            rs = {'final': st['s1'], 'initial': st['s0']}.get(ref)
            who = (f"displacement(system_0 pos={s0['pos']}, system_1 pos={s1['pos']}, box_reference={st['ref']!r}); reference "
                   f"system holds " + (f"pbc={sh.systems[rs]['pbc']}, box.vects={sh.cell_of(rs)[0]}" if rs is not None else 'nothing'))
            r = obs['disp']
            if pairs is None:
                stats['refusals_checked'] += 1
                if r != ('err', 'value'):
                    _viol(ctx, 'history:refusal:natoms', hist + who + f": the systems have {len(s0['pos'])} and {len(s1['pos'])} "
                                f'atoms, ValueError expected, got {r[0]} {str(r[1])[:120]!r}', rep)
                continue
            if r[0] == 'err':
                _viol(ctx, 'history:raises', hist + who + f' raised {r[1]}', rep)
                continue
            if not _shape_ok(np, r[1], len(pairs), 3, False):
                _viol(ctx, 'history:shape', hist + who + f' returned shape {np.asarray(r[1]).shape} for {len(pairs)} atoms', rep)
                continue
            rows = _rows(np, r[1], 3)
            if rs is None:
                for k2, (p, q) in enumerate(pairs):
                    if not _exact_eq(rows[k2], [Fraction(q[j]) - Fraction(p[j]) for j in range(3)]):
                        _viol(ctx, 'history:displacement', hist + who + f' atom {k2}: {rows[k2]} is not the plain difference', rep)
                        break
            else:
                v, o = sh.cell_of(rs)
                clauses(ctx, stats, 'history:', lambda k2: hist + who + f' atom {k2}', v, o, sh.systems[rs]['pbc'], pairs, rows,
                        None, True, rep, claim=len(pairs) <= 3)
                stats['pairs_after_inplace_change'] += len(pairs) if changed else 0
            continue
        # arr / sys
        got = {n2: obs[n2] for n2 in ('dvect', 'dmag') if n2 in obs}
        if pairs is None:
            stats['refusals_checked'] += 1
            for n2, r in got.items():
                if r != ('err', 'value'):
                    _viol(ctx, 'history:refusal:lengths', hist + (who % n2) + f': neither one-to-many nor many-to-many, ValueError '
                                f'expected, got {r[0]} {str(r[1])[:120]!r}', rep)
            continue
        okq = True
        for n2, r in got.items():
            w = 3 if n2 == 'dvect' else 1
            if r[0] == 'err':
                _viol(ctx, 'history:raises', hist + (who % n2) + f' raised {r[1]}', rep)
                okq = False
            elif not _shape_ok(np, r[1], len(pairs), w, squeeze):
                _viol(ctx, 'history:shape', hist + (who % n2) + f' returned shape {np.asarray(r[1]).shape} for {len(pairs)} pair(s)', rep)
                okq = False
        if not obs['inputs_kept']:
            _viol(ctx, 'history:input-modified', hist + (who % 'dvect/dmag') + ' changed the position arrays handed in', rep)
        if not okq or not pairs:
            continue
        dv = _rows(np, got['dvect'][1], 3) if 'dvect' in got else None
        dm = _rows(np, got['dmag'][1], 1) if 'dmag' in got else None
        clauses(ctx, stats, 'history:', lambda k2: hist + (who % 'dvect') + f' pair {k2} = ({pairs[k2][0]}, {pairs[k2][1]})',
                v, o, pbc, pairs, dv, dm, True, rep, claim=len(pairs) <= 3)
        stats['pairs_after_inplace_change'] += len(pairs) if changed else 0


def oracle_refusal(ctx, rng, stats):
    """documented refusals of displacement(): different numbers of atoms (1 vs N included, where the wrappers would
    broadcast), unknown box_reference."""
    import numpy as np
    import atomman as am
    f = 2.0 ** gen_scale_exp(rng)
    v0, o0 = gen_cell_scaled(rng, rng.choice(CELL_KINDS), f)
    v1, o1 = gen_cell_scaled(rng, rng.choice(CELL_KINDS), f)
    n0 = rng.randint(1, 6)
    same = rng.random() < 0.3
    n1 = n0 if same else rng.choice([x for x in (1, 1, 2, n0 + 1, n0 + 3, max(1, n0 - 1)) if x != n0])
    ref = rng.choice(['bogus', 'Final', 'INITIAL', '', 'none', 0, 1.5]) if same else \
        rng.choice(['final', 'initial', None, 'default', 'final', 'initial'])
    sys0 = {'vects': v0, 'origin': o0, 'pbc': gen_pbc(rng), 'pos': [gen_point(rng, v0, o0) for _ in range(n0)]}
    sys1 = {'vects': v1, 'origin': o1, 'pbc': gen_pbc(rng), 'pos': [gen_point(rng, v1, o1) for _ in range(n1)]}
    case = {'sys0': sys0, 'sys1': sys1, 'ref': ref}
    ctx.stats.case('oracle:refusal', (n0, n1, ref, v0, v1), nontrivial=True)
    check_refusal(ctx, case, stats)


def check_refusal(ctx, case, stats):
    import numpy as np
    import atomman as am
    sys0, sys1, ref = case['sys0'], case['sys1'], case['ref']
    s0 = _mk_system(am, np, sys0['vects'], sys0['origin'], sys0['pbc'], sys0['pos'])
    s1 = _mk_system(am, np, sys1['vects'], sys1['origin'], sys1['pbc'], sys1['pos'])
    r = _call(lambda: am.displacement(s0, s1)) if ref == 'default' else _call(lambda: am.displacement(s0, s1, box_reference=ref))
    stats['refusals_checked'] += 1
    n0, n1 = len(sys0['pos']), len(sys1['pos'])
    if r != ('err', 'value'):
        why = f'the systems have {n0} and {n1} atoms' if n0 != n1 else f'box_reference={ref!r} is none of final/initial/None'
        _viol(ctx, 'refusal:natoms' if n0 != n1 else 'refusal:box-reference',
                    f'displacement(system_0 with pos {sys0["pos"]}, system_1 with pos {sys1["pos"]}, box_reference={ref!r}): {why}, '
                    f'ValueError expected; got {r[0]} ' + (f'an array of shape {np.asarray(r[1]).shape}' if r[0] == 'ok' else str(r[1])),
                    {'op': 'refusal', 'case': case})


def oracle_api(ctx, case, stats):
    """argument handling of the wrappers on the real code, decided from the shapes alone: a 0-d argument is a TypeError (first),
    a rank-3 argument or incompatible lengths a ValueError; an accepted call returns one row per pair and depends on the
    flags only through the truth value of entries 0..2."""
    import numpy as np
    import atomman as am
    if case['op'] == 'pbcarg':
        r = impl_run(case)['pbc']
        vals = case['vals']
        exp = ('ok', [bool(v) for v in vals]) if len(vals) == 3 else ('err', 'assert')
        if r != exp:
            _viol(ctx, 'api:pbc-setter', f"System.pbc = {vals} (as {case['form']}): expected "
                       f"{'the truth values ' + str(exp[1]) if exp[0] == 'ok' else 'an AssertionError (not three flags), flags unchanged'}; got {r}",
                  {'op': 'api', 'case': case})
        return
    box = _mk_box(am, case['vects'], case['origin'])
    fl = _api_flags_py(np, case['flags'], case['flagform'])
    a, b = _api_arg_py(np, case['a0']), _api_arg_py(np, case['a1'])
    kinds = (case['a0'][0], case['a1'][0])
    lens = [1 if x[0] == 'f' else len(x[1]) if x[0] == 'r' else None for x in (case['a0'], case['a1'])]
    if 's' in kinds:
        exp = ('err', 'type')
    elif 'k' in kinds:
        exp = ('err', 'value')
    elif lens[0] == 1 or lens[1] == 1 or lens[0] == lens[1]:
        exp = ('ok', lens[1] if lens[0] == 1 else lens[0])
    else:
        exp = ('err', 'value')
    rep = {'op': 'api', 'case': case}
    truth = tuple(bool(f) for f in case['flags'][:3])
    for name, f, width in (('dvect', am.dvect, 3), ('dmag', am.dmag, 1)):
        r = _call(lambda: f(a, b, box, fl))
        what = f"am.{name}({case['a0']}, {case['a1']}, cell {case['vects']}, pbc={case['flags']} as {case['flagform']})"
        stats['api_calls'] = stats.get('api_calls', 0) + 1
        if exp[0] == 'err':
            if r != exp:
                _viol(ctx, 'api:refusal', f"{what} must raise {'TypeError' if exp[1] == 'type' else 'ValueError'}; got {r[0]} {str(r[1])[:100]!r}", rep)
            continue
        if r[0] == 'err':
            _viol(ctx, 'api:raises', f'{what} raised {r[1]} for arguments of compatible shapes', rep)
            continue
        arr = np.asarray(r[1])
        if arr.shape != ((exp[1], 3) if width == 3 else (exp[1],)):
            _viol(ctx, 'api:shape', f'{what} returned shape {arr.shape}, expected {exp[1]} row(s)', rep)
            continue
        r2 = _call(lambda: f(a, b, box, truth))
        if r2[0] != 'ok' or not np.array_equal(arr, np.asarray(r2[1])):
            _viol(ctx, 'api:flag-truth', f'{what} = {arr.tolist()} differs from the same call with pbc={truth} (the truth values of '
                       f'the first three flags): {str(r2[1])[:300]}', rep)


def search(ctx, broken):
    rng = random.Random(ctx.seed * 7919 + 17)
    mult = 3 if broken else 1
    stats = new_stats()
    plan = []
    N = ctx.n(1500, 25000) * mult
    for it in range(N):
        kind = CELL_KINDS[it % len(CELL_KINDS)]
        plan.append(_oracle_case(rng, 'exact', kind, inside='in' if it % 3 else None))
    for it in range(ctx.n(500, 7000) * mult):
        plan.append(_oracle_case(rng, 'tol'))
    for it in range(ctx.n(6, 40) * mult):        # long arrays (bulk code paths): a few thousand pairs each
        plan.append(_oracle_case(rng, 'exact', big=rng.choice([130, 257, 600, 1025, 2100])))
    for it in range(ctx.n(6, 40) * mult):        # long arrays of near-coincident periodic copies in decimal cells
        plan.append(_oracle_case(rng, 'tol', big=rng.choice([40, 130, 300])))
    for case in plan:
        ctx.stats.case('oracle:' + case['regime'], (case['vects'], case['origin'], case['pbc'], case['p0'], case['p1']),
                       nontrivial=any(case['pbc']))
        oracle_pairs(ctx, case, stats)
    for it in range(ctx.n(700, 10000) * mult):
        case = gen_aimed_disp(rng, 'exact' if it % 4 else 'tol') if it % 5 else gen_disp_case(rng)
        case.setdefault('regime', 'exact')
        if case['ref'] in ('bogus', 'Final'):
            case['ref'] = 'final'
        ctx.stats.case('oracle:disp', repr((case['sys0'], case['sys1'], case['ref'])), nontrivial=case['ref'] is not None)
        oracle_disp(ctx, case, stats)
    for _ in range(ctx.n(350, 5000) * mult):
        h = gen_history(rng, oracle=True)
        ctx.stats.case('oracle:history', repr(h['steps']), nontrivial=True)
        check_history(ctx, h, stats)
    for _ in range(ctx.n(200, 2500) * mult):
        oracle_refusal(ctx, rng, stats)
    for it in range(ctx.n(500, 5000) * mult):
        case = gen_pbcarg_case(rng) if it % 5 == 0 else gen_api_case(rng)
        ctx.stats.case('oracle:api', repr(case), nontrivial=True)
        oracle_api(ctx, case, stats)
    sizes = big_sizes(ctx, rng)
    for n in sizes:                                # large systems: code paths that switch on at a size
        spec = gen_big_disp(rng, n)
        ctx.stats.case('oracle:bigdisp', repr(spec), nontrivial=True, sample=spec)
        oracle_bigdisp(ctx, spec, stats, sample_rng=rng)
    ctx.extra['big_sizes'] = sizes
    ctx.extra['oracle'] = stats
    if stats['inside_gram_cell_not_nearest']:
        ctx.notes.append(f"{stats['inside_gram_cell_not_nearest']} in-cell pairs in cells meeting the cover-bound condition of theorem "
                         "gram_true_nearest are NOT at their true nearest image: the compiled code contradicts the theorem about the model")
    if stats['inside_no_claim_not_nearest']:
        ctx.notes.append(f"{stats['inside_no_claim_not_nearest']} in-cell pairs in strongly tilted cells where the 27-candidate "
                         'result is not the true nearest image (outside both regimes of the property: no claim, see the '
                         'sharpness example in Proofs/C02.lean)')


# ----------------------------------------------------------------------------------------
def replay(ctx, payload):
    r = payload.get('replay', {})
    stats = new_stats()
    if r.get('op') == 'oracle':
        oracle_pairs(ctx, r['case'], stats)
        print('replay oracle:', 'still fails' if ctx.violations else 'passes now', stats)
        return
    if r.get('op') == 'history':
        check_history(ctx, r['case'], stats, upto=r.get('step'))
        print(f"replay history (steps 0..{r.get('step')}):", 'still fails' if ctx.violations else 'passes now')
        for f in ctx.violations[:3]:
            print('  ', f.what[:600])
        return
    if r.get('op') == 'disp':
        oracle_disp(ctx, r['case'], stats)
        print('replay displacement:', 'still fails' if ctx.violations else 'passes now')
        for f in ctx.violations[:3]:
            print('  ', f.what[:600])
        return
    if r.get('op') == 'bigdisp':
        oracle_bigdisp(ctx, r['case'], stats)
        print(f"replay large systems ({r['case']['n']} atoms, call {r.get('call')}):", 'still fails' if ctx.violations else 'passes now')
        for f in ctx.violations[:3]:
            print('  ', f.what[:700])
        return
    if r.get('op') == 'api':
        oracle_api(ctx, r['case'], stats)
        print('replay argument handling:', 'still fails' if ctx.violations else 'passes now')
        for f in ctx.violations[:3]:
            print('  ', f.what[:600])
        return
    if r.get('op') == 'clean':
        import numpy as np
        import atomman as am
        c = r['case']
        got = [float(x) for x in am.Box(vects=np.array(c['v']), origin=c['o']).vects.ravel()]
        want = [x for rw in clean_cell_exact(c['v']) for x in rw]
        print('replay clean-up of Box.vects:', 'still fails' if got != want else 'passes now', got, want)
        return
    if r.get('op') == 'refusal':
        check_refusal(ctx, r['case'], stats)
        print('replay refusal:', 'still fails' if ctx.violations else 'passes now')
        return
    cases = []
    if 'case' in r:
        cases = [r['case']]
    elif payload.get('disagreements'):
        cases = [d['case'] for d in payload['disagreements'] if isinstance(d, dict) and 'case' in d]
    if cases and ctx.driver is not None:
        nb = run_cases(ctx, cases)
        print(f'replay: {len(cases)} stored case(s), {nb} disagreement(s) between implementation and model')
        for c in cases:
            if c['op'] == 'arr' and c['pos0'] and c['pos1']:
                oracle_pairs(ctx, {'regime': c['regime'], 'vects': c['vects'], 'origin': c['origin'], 'pbc': c['pbc'],
                                   'p0': c['pos0'], 'p1': c['pos1'], 'form0': c['form0'], 'form1': c['form1']}, stats)
            elif c['op'] == 'seq':
                check_history(ctx, c, stats)
    else:
        search(ctx, True)


# ----------------------------------------------------------------------------------------
# translator: atomman/core/dvect.pyx, dmag.pyx, displacement.py and System.dvect / System.dmag / the pbc property
#             -> lean/Atomman/Generated/DvectSource.lean   (proved equal to the hand model in Proofs/C02_Source.lean)
#
# The Cython files are Python-like text except for their declarations.  `_decython` rewrites ONLY declaration syntax
# (`cdef f(typed parameters):` -> `def f(parameters):`, `cdef <type> a, b = e` -> `a = e` / `pass`, recording the
# declared types); everything else - loops, tests, formulas, calls - is read from the `ast` of the result.  The kernels are
# compiled statement by statement into Lean `let` chains: per-row initialisation, the loop nest as a `flatMap` over
# `intRange`s, the innermost body as a function of the loop-carried value.  Anything outside that subset raises
# TranslationError (the check then searches for a failing input against the last committed model).
GENERATED = ['DvectSource']

_COMP = ['x', 'y', 'z']


def _terr(msg):
    from ..translate import TranslationError
    raise TranslationError(msg)


def _split_top(text, sep=','):
    out, depth, cur = [], 0, ''
    for ch in text:
        if ch in '([{':
            depth += 1
        elif ch in ')]}':
            depth -= 1
        if ch == sep and depth == 0:
            out.append(cur)
            cur = ''
        else:
            cur += ch
    out.append(cur)
    return [o.strip() for o in out]


def _type_and_name(decl, where):
    """`const double[:,:] pos_0` -> ('const double[:,:]', 'pos_0')."""
    decl = decl.strip()
    k = len(decl)
    while k > 0 and (decl[k - 1].isalnum() or decl[k - 1] == '_'):
        k -= 1
    name, typ = decl[k:], ' '.join(decl[:k].split())
    if not name.isidentifier():
        _terr(f'{where}: cannot read the declaration {decl!r}')
    return typ, name


def _decython(src, where):
    """Cython text -> (python text, {function: {variable: declared C type}})."""
    lines = src.split('\n')
    out, types, cur, i = [], {}, None, 0
    while i < len(lines):
        line = lines[i]
        stripped = line.lstrip()
        indent = line[:len(line) - len(stripped)]
        if stripped.startswith('cdef ') and '(' in stripped and not indent and \
                stripped.split('(')[0].split()[-1].isidentifier() and '=' not in stripped.split('(')[0]:
            # cdef [type] name(typed parameters):   possibly over several lines
            text = stripped
            while text.count('(') > text.count(')'):
                i += 1
                if i >= len(lines):
                    _terr(f'{where}: unterminated signature')
                text += ' ' + lines[i].strip()
            head, rest = text.split('(', 1)
            params, tail = rest.rsplit(')', 1)
            if tail.strip() != ':':
                _terr(f'{where}: signature {text!r}')
            fname = head.split()[-1]
            cur = fname
            types[cur] = {}
            names = []
            for prm in _split_top(params):
                typ, name = _type_and_name(prm, where)
                types[cur][name] = typ
                names.append(name)
            out.append(f'def {fname}({", ".join(names)}):')
        elif stripped.startswith('cdef '):
            if cur is None:
                _terr(f'{where}: declaration outside a cdef function: {stripped!r}')
            body = stripped[5:]
            parts = _split_top(body, '=')
            if len(parts) == 2 and '==' not in body:
                typ, name = _type_and_name(parts[0], where)
                types[cur][name] = typ
                out.append(f'{indent}{name} = {parts[1]}')
            elif len(parts) == 1:
                pieces = _split_top(body)
                typ, name = _type_and_name(pieces[0], where)
                for nm in [name] + pieces[1:]:
                    if not nm.isidentifier():
                        _terr(f'{where}: declaration {stripped!r}')
                    types[cur][nm] = typ
                out.append(f'{indent}pass')
            else:
                _terr(f'{where}: declaration {stripped!r}')
        else:
            if stripped.startswith('def ') and not indent:
                cur = stripped[4:].split('(')[0].strip()
                types.setdefault(cur, {})
            out.append(line)
        i += 1
    return '\n'.join(out), types


def _fn(tree, name, where):
    import ast
    hits = [n for n in tree.body if isinstance(n, ast.FunctionDef) and n.name == name]
    if len(hits) != 1:
        _terr(f'{where}: function {name} found {len(hits)} times')
    return hits[0]


def _body(fn):
    import ast
    b = fn.body
    if b and isinstance(b[0], ast.Expr) and isinstance(b[0].value, ast.Constant) and isinstance(b[0].value.value, str):
        b = b[1:]
    return [s for s in b if not isinstance(s, ast.Pass)]


class _Kernel:
    """one compiled kernel (`dvect_c` / `dmag2_c`) -> Lean definitions."""

    def __init__(self, fn, types, where, prefix):
        import ast
        self.ast, self.fn, self.types, self.where, self.prefix = ast, fn, types, where, prefix
        self.params = [a.arg for a in fn.args.args]
        if fn.args.defaults or fn.args.kwonlyargs or fn.args.vararg or fn.args.kwarg:
            _terr(f'{where}: unexpected parameter forms')
        self.kind = {}            # parameter -> 'rows' | 'mat' | 'flag'
        for p in self.params:
            t = types.get(p, '')
            if 'bint' in t.split():
                self.kind[p] = 'flag'
            elif '[:,:]' in t.replace(' ', ''):
                self.kind[p] = 'rows'
            else:
                _terr(f'{where}: parameter {p} has the unsupported type {t!r}')
        self.consts = {}          # int constants (nj)
        self.ranges = {}          # int variables defined by `if flag: lo, hi = a, b else: …`
        self.alias = {}           # memoryview variable -> array it views
        self.alloc = {}           # array variable -> allocation expression (text)
        self.scratch = set()      # 1-d scratch vectors (np.empty(3))
        self.rows_of = None       # the array whose shape[0] is the row count
        self.ver = {}
        self.jvar = None

    # ---- expressions --------------------------------------------------------------------
    def fresh(self, name):
        self.ver[name] = self.ver.get(name, 0) + 1
        return f'{name}_{self.ver[name]}'

    def idx_const(self, node, j):
        a = self.ast
        if isinstance(node, a.Constant) and isinstance(node.value, int) and not isinstance(node.value, bool):
            return node.value
        if isinstance(node, a.Name) and node.id == self.jvar and j is not None:
            return j
        _terr(f'{self.where}: index {a.unparse(node)} is neither a constant nor the component index')

    def ref(self, node, env, j):
        """array element -> (lean text, type)."""
        a = self.ast
        arr = node.value.id if isinstance(node.value, a.Name) else None
        sl = node.slice
        idx = list(sl.elts) if isinstance(sl, a.Tuple) else [sl]
        if arr in self.mats and len(idx) == 2:
            r, c = self.idx_const(idx[0], j), self.idx_const(idx[1], j)
            if not (0 <= r < 3 and 0 <= c < 3):
                _terr(f'{self.where}: index out of range in {a.unparse(node)}')
            return f'{arr}.r{r}.{_COMP[c]}', 'K'
        if arr in self.rowarrs and len(idx) == 2:
            if not (isinstance(idx[0], a.Name) and idx[0].id == self.ivar):
                _terr(f'{self.where}: {a.unparse(node)} does not address the current row')
            c = self.idx_const(idx[1], j)
            if not 0 <= c < 3:
                _terr(f'{self.where}: index out of range in {a.unparse(node)}')
            key = ('row', self.alias.get(arr, arr))
            if key not in env:
                _terr(f'{self.where}: {a.unparse(node)} is read before it is written')
            return f'{env[key]}.{_COMP[c]}', 'K'
        if arr in self.scratch and len(idx) == 1:
            c = self.idx_const(idx[0], j)
            if not 0 <= c < 3:
                _terr(f'{self.where}: index out of range in {a.unparse(node)}')
            if ('vec', arr) not in env:
                _terr(f'{self.where}: {a.unparse(node)} is read before it is written in this iteration')
            return f'{env[("vec", arr)]}.{_COMP[c]}', 'K'
        if arr in self.outscalars and len(idx) == 1:
            if not (isinstance(idx[0], a.Name) and idx[0].id == self.ivar):
                _terr(f'{self.where}: {a.unparse(node)} does not address the current row')
            key = ('cell', self.alias.get(arr, arr))
            if key not in env:
                _terr(f'{self.where}: {a.unparse(node)} is read before it is written')
            return env[key], 'K'
        _terr(f'{self.where}: unsupported element reference {a.unparse(node)}')

    def expr(self, node, env, j=None):
        a = self.ast
        if isinstance(node, a.Constant) and isinstance(node.value, int) and not isinstance(node.value, bool):
            return (f'({node.value})' if node.value < 0 else str(node.value)), 'Int'
        if isinstance(node, a.UnaryOp) and isinstance(node.op, a.USub):
            s, t = self.expr(node.operand, env, j)
            return f'(-{s})', t
        if isinstance(node, a.Name):
            if ('int', node.id) in env:
                return env[('int', node.id)], 'Int'
            if ('sc', node.id) in env:
                return env[('sc', node.id)], 'K'
            _terr(f'{self.where}: unknown or not yet assigned name {node.id}')
        if isinstance(node, a.Subscript):
            return self.ref(node, env, j)
        if isinstance(node, a.BinOp) and isinstance(node.op, (a.Add, a.Sub, a.Mult)):
            l, tl = self.expr(node.left, env, j)
            r, tr_ = self.expr(node.right, env, j)
            if tl != tr_:
                if tl == 'Int':
                    l = f'(({l} : Int) : K)'
                else:
                    r = f'(({r} : Int) : K)'
                tl = 'K'
            op = {a.Add: '+', a.Sub: '-', a.Mult: '*'}[type(node.op)]
            return f'({l} {op} {r})', tl
        _terr(f'{self.where}: unsupported expression {a.unparse(node)}')

    def cond(self, node, env):
        a = self.ast
        if isinstance(node, a.BoolOp) and isinstance(node.op, (a.And, a.Or)):
            parts = [self.cond(v, env) for v in node.values]
            return '(' + (' ∧ ' if isinstance(node.op, a.And) else ' ∨ ').join(parts) + ')'
        if isinstance(node, a.Compare) and len(node.ops) == 1:
            l, tl = self.expr(node.left, env)
            r, tr_ = self.expr(node.comparators[0], env)
            if tl != tr_:
                _terr(f'{self.where}: comparison of an integer with a real: {a.unparse(node)}')
            ops = {a.Lt: '<', a.LtE: '≤', a.Gt: '>', a.GtE: '≥', a.Eq: '=', a.NotEq: '≠'}
            if type(node.ops[0]) not in ops:
                _terr(f'{self.where}: unsupported comparison {a.unparse(node)}')
            return f'({l} {ops[type(node.ops[0])]} {r})'
        _terr(f'{self.where}: unsupported test {a.unparse(node)}')

    # ---- statements ---------------------------------------------------------------------
    def is_range_for(self, st, var=None):
        a = self.ast
        return isinstance(st, a.For) and isinstance(st.target, a.Name) and not st.orelse and \
            isinstance(st.iter, a.Call) and isinstance(st.iter.func, a.Name) and st.iter.func.id == 'range' and \
            not st.iter.keywords and (var is None or st.target.id == var)

    def comp_loop(self, st):
        """`for j in range(nj): T[… j] = e(j)` -> (target key, [e0, e1, e2] nodes) or None."""
        a = self.ast
        if not self.is_range_for(st) or len(st.iter.args) != 1:
            return None
        n = st.iter.args[0]
        if not (isinstance(n, a.Name) and self.consts.get(n.id) == 3):
            return None
        if len(st.body) != 1 or not isinstance(st.body[0], a.Assign) or len(st.body[0].targets) != 1:
            _terr(f'{self.where}: component loop with an unsupported body: {a.unparse(st)}')
        return st.target.id, st.body[0]

    def stmts(self, body, env, lines, ind):
        """straight-line statements -> `let` lines; env is updated in place."""
        a = self.ast
        for st in body:
            cl = self.comp_loop(st) if isinstance(st, a.For) else None
            if cl is not None:
                jv, asg = cl
                self.jvar = jv
                tgt = asg.targets[0]
                if not isinstance(tgt, a.Subscript) or not isinstance(tgt.value, a.Name):
                    _terr(f'{self.where}: unsupported assignment target {a.unparse(tgt)}')
                arr = tgt.value.id
                idx = list(tgt.slice.elts) if isinstance(tgt.slice, a.Tuple) else [tgt.slice]
                if not (isinstance(idx[-1], a.Name) and idx[-1].id == jv):
                    _terr(f'{self.where}: component loop does not write component {jv}: {a.unparse(st)}')
                if arr in self.scratch and len(idx) == 1:
                    key = ('vec', arr)
                elif arr in self.outrows and len(idx) == 2 and isinstance(idx[0], a.Name) and idx[0].id == self.ivar:
                    key = ('row', self.alias.get(arr, arr))
                else:
                    _terr(f'{self.where}: unsupported vector target {a.unparse(tgt)}')
                comps = [self.expr(asg.value, env, j) for j in range(3)]
                if any(t != 'K' for _, t in comps):
                    _terr(f'{self.where}: integer-valued component in {a.unparse(st)}')
                name = self.fresh(arr)
                lines.append(f'{ind}let {name} : V3 K := ⟨{", ".join(c for c, _ in comps)}⟩')
                env[key] = name
                self.jvar = None
                continue
            if isinstance(st, a.Assign) and len(st.targets) == 1:
                tgt = st.targets[0]
                self.jvar = None
                s, t = self.expr(st.value, env)
                if t != 'K':
                    _terr(f'{self.where}: integer-valued assignment {a.unparse(st)}')
                if isinstance(tgt, a.Name):
                    if 'double' not in self.types.get(tgt.id, '').split():
                        _terr(f'{self.where}: {tgt.id} is assigned a real value but declared {self.types.get(tgt.id)!r}')
                    name = self.fresh(tgt.id)
                    lines.append(f'{ind}let {name} : K := {s}')
                    env[('sc', tgt.id)] = name
                    continue
                if isinstance(tgt, a.Subscript) and isinstance(tgt.value, a.Name) and tgt.value.id in self.outscalars \
                        and isinstance(tgt.slice, a.Name) and tgt.slice.id == self.ivar:
                    name = self.fresh(tgt.value.id)
                    lines.append(f'{ind}let {name} : K := {s}')
                    env[('cell', self.alias.get(tgt.value.id, tgt.value.id))] = name
                    continue
                _terr(f'{self.where}: unsupported assignment {a.unparse(st)}')
            if isinstance(st, a.If) and not st.orelse:
                c = self.cond(st.test, env)
                env2 = dict(env)
                inner = []
                self.stmts(st.body, env2, inner, ind + '    ')
                changed = [k for k in env2 if env2[k] != env.get(k)]
                if len(changed) != 1 or changed[0] not in env:
                    _terr(f'{self.where}: a conditional block must update exactly one already defined value: {a.unparse(st)[:80]}')
                k = changed[0]
                base = k[1]
                name = self.fresh(base)
                ty = 'V3 K' if k[0] in ('row', 'vec') else 'K'
                lines.append(f'{ind}let {name} : {ty} := if {c} then')
                lines.extend(inner)
                lines.append(f'{ind}    {env2[k]}')
                lines.append(f'{ind}  else {env[k]}')
                env[k] = name
                continue
            _terr(f'{self.where}: unsupported statement {a.unparse(st)[:100]}')

    # ---- the whole function -------------------------------------------------------------
    def compile(self):
        a = self.ast
        body = _body(self.fn)
        self.mats = set()
        self.rowarrs = set()
        self.outrows, self.outscalars = set(), set()
        flags = [p for p in self.params if self.kind[p] == 'flag']
        i = 0
        row_loop = None
        ret = None
        while i < len(body):
            st = body[i]
            i += 1
            if isinstance(st, a.Assign) and len(st.targets) == 1 and isinstance(st.targets[0], a.Name):
                nm, v = st.targets[0].id, st.value
                if isinstance(v, a.Constant) and isinstance(v.value, int):
                    self.consts[nm] = v.value
                elif isinstance(v, a.Subscript) and a.unparse(v).endswith('.shape[0]') and isinstance(v.value, a.Attribute) \
                        and isinstance(v.value.value, a.Name):
                    self.rows_of = (nm, v.value.value.id)
                elif isinstance(v, a.Call) and a.unparse(v.func) in ('np.empty', 'np.empty_like', 'np.zeros'):
                    txt = a.unparse(v)
                    t = self.types.get(nm, '').replace(' ', '')
                    if t.endswith('[:]') and a.unparse(v.args[0]) == '3':
                        if 'double' not in t:
                            _terr(f'{self.where}: scratch vector {nm} declared {t!r}')
                        self.scratch.add(nm)
                    self.alloc[nm] = txt
                elif isinstance(v, a.Name) and v.id in self.alloc:
                    t = self.types.get(nm, '').replace(' ', '')
                    if 'double' not in t:
                        _terr(f'{self.where}: view {nm} declared {t!r}')
                    self.alias[nm] = v.id
                    if t.endswith('[:,:]'):
                        self.outrows.add(nm)
                        self.rowarrs.add(nm)
                    elif t.endswith('[:]'):
                        self.outscalars.add(nm)
                    else:
                        _terr(f'{self.where}: view {nm} declared {t!r}')
                else:
                    _terr(f'{self.where}: unsupported set-up statement {a.unparse(st)}')
            elif isinstance(st, a.If) and isinstance(st.test, a.Name) and st.test.id in flags and len(st.body) == 1 \
                    and len(st.orelse) == 1:
                def pair(s):
                    if not (isinstance(s, a.Assign) and len(s.targets) == 1 and isinstance(s.targets[0], a.Tuple)
                            and isinstance(s.value, a.Tuple) and len(s.value.elts) == len(s.targets[0].elts)):
                        _terr(f'{self.where}: unsupported range set-up {a.unparse(st)}')
                    out = {}
                    for t_, v_ in zip(s.targets[0].elts, s.value.elts):
                        try:
                            val = a.literal_eval(v_)
                        except Exception:
                            _terr(f'{self.where}: range bound {a.unparse(v_)} is not an integer literal')
                        if not (isinstance(t_, a.Name) and isinstance(val, int) and not isinstance(val, bool)):
                            _terr(f'{self.where}: unsupported range set-up {a.unparse(st)}')
                        out[t_.id] = val
                    return out
                yes, no = pair(st.body[0]), pair(st.orelse[0])
                if set(yes) != set(no):
                    _terr(f'{self.where}: the two branches of `if {st.test.id}` set different names')
                for nm in yes:
                    lit = lambda k: f'({k})' if k < 0 else str(k)
                    self.ranges[nm] = f'(if {st.test.id} then {lit(yes[nm])} else {lit(no[nm])})'
            elif self.is_range_for(st):
                if row_loop is not None:
                    _terr(f'{self.where}: more than one row loop')
                row_loop = st
            elif isinstance(st, a.Return):
                ret = st.value
                if i != len(body):
                    _terr(f'{self.where}: statements after return')
            else:
                _terr(f'{self.where}: unsupported statement {a.unparse(st)[:100]}')
        if row_loop is None or ret is None:
            _terr(f'{self.where}: no row loop / no return')
        for p in self.params:
            if self.kind[p] == 'rows':
                self.rowarrs.add(p)
        # the matrix parameter: a `[:,:]` parameter that is addressed with constant first indices only
        self.ivar = row_loop.target.id
        for p in [q for q in self.params if self.kind[q] == 'rows']:
            uses = [n for n in a.walk(row_loop) if isinstance(n, a.Subscript) and isinstance(n.value, a.Name) and n.value.id == p]
            if uses and all(isinstance(u.slice, a.Tuple) and isinstance(u.slice.elts[0], a.Constant) for u in uses):
                self.mats.add(p)
                self.rowarrs.discard(p)
                self.kind[p] = 'mat'
        if not (len(row_loop.iter.args) == 1 and isinstance(row_loop.iter.args[0], a.Name) and self.rows_of
                and row_loop.iter.args[0].id == self.rows_of[0]):
            _terr(f'{self.where}: the row loop does not run over `<array>.shape[0]`')
        if not (isinstance(ret, a.Name) and ret.id in self.alloc and ret.id in self.alias.values()):
            _terr(f'{self.where}: the function does not return the array its view writes to')
        self.out = ret.id
        outviews = [v for v, t in self.alias.items() if t == self.out]
        if len(outviews) != 1:
            _terr(f'{self.where}: {len(outviews)} views of the returned array')
        self.outview = outviews[0]
        self.carried = ('row', self.out) if self.outview in self.outrows else ('cell', self.out)
        cty = 'V3 K' if self.carried[0] == 'row' else 'K'
        # per-row statements: initialisation, then the loop nest
        pre, nest = [], None
        for k, st in enumerate(row_loop.body):
            if self.is_range_for(st) and self.comp_loop(st) is None:
                nest = st
                if k != len(row_loop.body) - 1:
                    _terr(f'{self.where}: statements after the image loops')
                break
            pre.append(st)
        if nest is None:
            _terr(f'{self.where}: no image loop nest')
        rowpars = [p for p in self.params if self.kind[p] == 'rows']
        if len(rowpars) != 2 or self.rows_of[1] != rowpars[0]:
            _terr(f'{self.where}: the row count is taken from {self.rows_of[1]}, not from the first position array')
        env0 = {('row', p): p for p in rowpars}
        self.jvar = None
        init_lines = []
        env = dict(env0)
        self.stmts(pre, env, init_lines, '  ')
        if self.carried not in env:
            _terr(f'{self.where}: the output row is not initialised before the image loops')
        init_result = env[self.carried]
        # the nest
        loopvars, rngs = [], []
        cur = nest
        while True:
            if not (self.is_range_for(cur) and len(cur.iter.args) == 2):
                _terr(f'{self.where}: image loop {a.unparse(cur)[:60]} is not `for v in range(lo, hi)`')
            lo, hi = cur.iter.args
            if not (isinstance(lo, a.Name) and isinstance(hi, a.Name) and lo.id in self.ranges and hi.id in self.ranges):
                _terr(f'{self.where}: loop bounds of {cur.target.id} are not the flag-dependent ranges')
            loopvars.append(cur.target.id)
            rngs.append(f'intRange {self.ranges[lo.id]} {self.ranges[hi.id]}')
            if len(cur.body) == 1 and self.is_range_for(cur.body[0]) and self.comp_loop(cur.body[0]) is None:
                cur = cur.body[0]
                continue
            inner = cur.body
            break
        if len(loopvars) != 3:
            _terr(f'{self.where}: {len(loopvars)} nested image loops instead of 3')
        # innermost body: optional leading `if …: continue`, then straight-line statements
        skip = None
        envb = dict(env0)
        envb[self.carried] = 'acc'
        for v in loopvars:
            envb[('int', v)] = v
        if inner and isinstance(inner[0], a.If) and len(inner[0].body) == 1 and isinstance(inner[0].body[0], a.Continue) \
                and not inner[0].orelse:
            skip = self.cond(inner[0].test, envb)
            inner = inner[1:]
        if any(isinstance(n, (a.Continue, a.Break, a.Return)) for s in inner for n in a.walk(s)):
            _terr(f'{self.where}: control flow inside the image loop body other than the leading skip')
        body_lines = []
        self.stmts(inner, envb, body_lines, '  ')
        body_result = envb[self.carried]
        P = self.prefix
        sig = ' '.join(
            f'({p} : {"V3 K" if self.kind[p] == "rows" else "M3 K" if self.kind[p] == "mat" else "Bool"})' for p in self.params)
        flagsig = ' '.join(f'({p} : Bool)' for p in flags)
        L = []
        L.append(f'/-- the image loops of `{self.fn.name}` in nesting order ({", ".join(loopvars)}): every visited triple. -/')
        L.append(f'def {P}Loop {flagsig} : List (Int × Int × Int) :=')
        L.append(f'  ({rngs[0]}).flatMap fun {loopvars[0]} => ({rngs[1]}).flatMap fun {loopvars[1]} => '
                 f'({rngs[2]}).map fun {loopvars[2]} => ({", ".join(loopvars)})')
        L.append(f'/-- what one row holds before the image loops. -/')
        L.append(f'def {P}Init {sig} : {cty} :=')
        L.extend(init_lines)
        L.append(f'  {init_result}')
        L.append(f'/-- one pass through the innermost loop body; `acc` is the value the output row holds on entry. -/')
        L.append(f'def {P}Body {sig} (acc : {cty}) ({" ".join(loopvars)} : Int) : {cty} :=')
        if skip is not None:
            L.append(f'  if {skip} then acc else')
        L.extend(body_lines)
        L.append(f'  {body_result}')
        L.append(f'/-- `{self.fn.name}` for one row (the rows are independent: the body addresses row `{self.ivar}` only). -/')
        args = ' '.join(self.params)
        L.append(f'def {P} {sig} : {cty} :=')
        L.append(f'  ({P}Loop {" ".join(flags)}).foldl (fun acc s => {P}Body {args} acc s.1 s.2.1 s.2.2) ({P}Init {args})')
        real = sorted((n, ' '.join(t.split())) for n, t in self.types.items() if 'double' in t or 'float' in t)
        self.real_types = real
        self.loopvars = loopvars
        return '\n'.join(L)


def _wrapper(a, fn, kernel_name, kernel_params, where, lean_kernel, post):
    """the def wrapper `dvect` / `dmag` -> a Lean definition in terms of the `PosArg` primitives."""
    params = [x.arg for x in fn.args.args]
    if params != ['pos_0', 'pos_1', 'box', 'pbc'] or fn.args.defaults or fn.args.kwonlyargs or fn.args.vararg or fn.args.kwarg:
        _terr(f'{where}: signature of {fn.name} is {params}')
    body = _body(fn)
    L = []
    k = 0

    def need(cond, what):
        if not cond:
            _terr(f'{where}: {fn.name}: {what}')

    for p in ('pos_0', 'pos_1'):
        st = body[k]
        need(a.unparse(st) == f'{p} = np.asarray({p}, dtype=np.float64)', f'expected the float64 conversion of {p}, found {a.unparse(st)[:70]}')
        k += 1
        while k < len(body) and isinstance(body[k], a.If) and not body[k].orelse and isinstance(body[k].test, a.Compare) \
                and a.unparse(body[k].test.left) == f'{p}.ndim':
            st = body[k]
            need(len(st.test.ops) == 1 and isinstance(st.test.ops[0], a.Eq) and isinstance(st.test.comparators[0], a.Constant)
                 and isinstance(st.test.comparators[0].value, int), f'unsupported rank test {a.unparse(st.test)}')
            val = st.test.comparators[0].value
            need(len(st.body) == 1, f'unsupported rank branch {a.unparse(st)[:70]}')
            act = st.body[0]
            if isinstance(act, a.Raise):
                exc = act.exc.func.id if isinstance(act.exc, a.Call) and isinstance(act.exc.func, a.Name) else None
                need(exc in ('TypeError', 'ValueError'), f'unsupported exception {a.unparse(act)}')
                L.append(f'  if {p}.ndim = {val} then Except.error "{exc[:-5].lower()}" else')
            elif a.unparse(act) == f'{p} = {p}[np.newaxis, :]':
                L.append(f'  let {p} := if {p}.ndim = {val} then {p}.newaxis else {p}')
            else:
                need(False, f'unsupported rank branch {a.unparse(act)[:70]}')
            k += 1
    # broadcasting chain
    st = body[k]
    k += 1
    need(isinstance(st, a.If), f'expected the broadcasting chain, found {a.unparse(st)[:70]}')
    chain = []
    cur = st
    while True:
        chain.append((cur.test, cur.body))
        if len(cur.orelse) == 1 and isinstance(cur.orelse[0], a.If):
            cur = cur.orelse[0]
            continue
        need(not cur.orelse, 'broadcasting chain with a final else')
        break

    def length_test(t):
        need(isinstance(t, a.Compare) and len(t.ops) == 1 and isinstance(t.ops[0], (a.Eq, a.NotEq)), f'unsupported test {a.unparse(t)}')
        def side(n):
            if isinstance(n, a.Call) and isinstance(n.func, a.Name) and n.func.id == 'len' and len(n.args) == 1 \
                    and isinstance(n.args[0], a.Name) and n.args[0].id in ('pos_0', 'pos_1'):
                return f'{n.args[0].id}.len'
            if isinstance(n, a.Constant) and isinstance(n.value, int) and not isinstance(n.value, bool):
                return str(n.value)
            need(False, f'unsupported operand {a.unparse(n)}')
        return f'{side(t.left)} {"=" if isinstance(t.ops[0], a.Eq) else "≠"} {side(t.comparators[0])}'

    L.append('  (')
    for n, (t, b) in enumerate(chain):
        need(len(b) == 1, f'unsupported branch {a.unparse(b[0])[:70]}')
        act = b[0]
        pre = '    if' if n == 0 else '    else if'
        if isinstance(act, a.Raise):
            exc = act.exc.func.id if isinstance(act.exc, a.Call) and isinstance(act.exc.func, a.Name) else None
            need(exc in ('TypeError', 'ValueError'), f'unsupported exception {a.unparse(act)}')
            L.append(f'{pre} {length_test(t)} then Except.error "{exc[:-5].lower()}"')
        else:
            txt = a.unparse(act)
            if txt == 'pos_0 = np.broadcast_to(pos_0, pos_1.shape)':
                L.append(f'{pre} {length_test(t)} then (pos_0.bcast pos_1).map fun t => (t, pos_1)')
            elif txt == 'pos_1 = np.broadcast_to(pos_1, pos_0.shape)':
                L.append(f'{pre} {length_test(t)} then (pos_1.bcast pos_0).map fun t => (pos_0, t)')
            else:
                need(False, f'unsupported branch {txt[:70]}')
    L.append('    else Except.ok (pos_0, pos_1)) >>= fun pp =>')
    L.append('  let pos_0 := pp.1')
    L.append('  let pos_1 := pp.2')
    st = body[k]
    k += 1
    need(a.unparse(st) == 'bvects = box.vects', f'expected `bvects = box.vects`, found {a.unparse(st)[:70]}')
    st = body[k]
    need(isinstance(st, a.Return) and k == len(body) - 1, f'expected the final return, found {a.unparse(st)[:70]}')
    call = st.value
    if post is not None:
        need(isinstance(call, a.BinOp) and isinstance(call.op, a.Pow) and a.unparse(call.right) == post, f'the result is not `kernel(...) ** {post}`: {a.unparse(call)[:70]}')
        call = call.left
    need(isinstance(call, a.Call) and isinstance(call.func, a.Name) and call.func.id == kernel_name and not call.keywords
         and len(call.args) == len(kernel_params), f'the kernel call is {a.unparse(call)[:90]}')
    flags, args = [], []
    for arg in call.args:
        txt = a.unparse(arg)
        if txt in ('pos_0', 'pos_1'):
            args.append(('row', txt))
        elif txt == 'bvects':
            args.append(('mat', 'vects'))
        elif isinstance(arg, a.Subscript) and isinstance(arg.value, a.Name) and arg.value.id == 'pbc' \
                and isinstance(arg.slice, a.Constant) and isinstance(arg.slice.value, int) and arg.slice.value >= 0:
            flags.append(arg.slice.value)
            args.append(('flag', f'f{len(flags) - 1}'))
        else:
            need(False, f'unsupported kernel argument {txt}')
    rowpos = [n for n, (kd, _) in enumerate(args) if kd == 'row']
    need(len(rowpos) == 2, 'the kernel call does not pass two position arrays')
    # the kernel is applied row by row: fun r0 r1 => kernel … with the rows in the argument slots of the call
    slot = {rowpos[0]: 'r0', rowpos[1]: 'r1'}
    kargs = ' '.join(slot[n] if n in slot else nm for n, (kd, nm) in enumerate(args))
    first, second = args[rowpos[0]][1], args[rowpos[1]][1]
    need({first, second} == {'pos_0', 'pos_1'}, 'the kernel call does not pass pos_0 and pos_1')
    if flags:
        L.append('  match ' + ', '.join(f'flagAt pbc {f}' for f in flags) + ' with')
        L.append('  | ' + ', '.join(f'some f{n}' for n in range(len(flags))) + ' =>')
        L.append(f'    kernelCall (fun r0 r1 => {lean_kernel} {kargs}) {first} {second}')
        L.append('  | ' + ', '.join('_' for _ in flags) + ' => Except.error "undefined"')
    else:
        L.append(f'  kernelCall (fun r0 r1 => {lean_kernel} {kargs}) {first} {second}')
    return '\n'.join(L)


def _system_method(a, cls, name, callee, where):
    fns = [n for n in cls.body if isinstance(n, a.FunctionDef) and n.name == name]
    if len(fns) != 1:
        _terr(f'{where}: System.{name} found {len(fns)} times')
    fn = fns[0]
    params = [x.arg for x in fn.args.args]
    if params != ['self', 'pos_0', 'pos_1'] or fn.args.defaults:
        _terr(f'{where}: System.{name} has the parameters {params}')
    body = _body(fn)
    if len(body) != 4:
        _terr(f'{where}: System.{name} has {len(body)} statements instead of 4')
    for k, p in enumerate(('pos_0', 'pos_1')):
        st = body[k]
        ok = isinstance(st, a.Try) and len(st.body) == 1 and a.unparse(st.body[0]) == f'{p} = self.atoms.pos[{p}]' \
            and len(st.handlers) == 1 and st.handlers[0].type is None and len(st.handlers[0].body) == 1 \
            and a.unparse(st.handlers[0].body[0]) == f'{p} = np.asarray({p})' and not st.orelse and not st.finalbody
        if not ok:
            _terr(f'{where}: System.{name}: statement {k + 1} is not the index-or-position dispatch of {p}: {a.unparse(st)[:90]}')
    st = body[2]
    if not (isinstance(st, a.Assign) and len(st.targets) == 1 and isinstance(st.targets[0], a.Name)
            and isinstance(st.value, a.Call) and isinstance(st.value.func, a.Name) and not st.value.keywords):
        _terr(f'{where}: System.{name}: unsupported call statement {a.unparse(st)[:90]}')
    res = st.targets[0].id
    if st.value.func.id != callee:
        _terr(f'{where}: System.{name} calls {st.value.func.id}, not {callee}')
    cargs = [a.unparse(x) for x in st.value.args]
    if cargs != ['pos_0', 'pos_1', 'self.box', 'self.pbc']:
        _terr(f'{where}: System.{name} calls {callee}({", ".join(cargs)})')
    st = body[3]
    ok = isinstance(st, a.If) and a.unparse(st.test) == f'len({res}) == 1' and len(st.body) == 1 and len(st.orelse) == 1 \
        and a.unparse(st.body[0]) == f'return {res}[0]' and a.unparse(st.orelse[0]) == f'return {res}'
    if not ok:
        _terr(f'{where}: System.{name}: the result handling is not `if len(r) == 1: return r[0] else: return r`')
    return 'decide (r.length = 1)'


def _only_these(a, tree, allowed_defs, where):
    """the module consists of a docstring, imports and exactly the named functions: nothing else can rebind or wrap them."""
    seen = []
    for n in tree.body:
        if isinstance(n, (a.Import, a.ImportFrom)):
            for al in n.names:
                if (al.asname or al.name).split('.')[0] in allowed_defs:
                    _terr(f'{where}: an import binds the name {al.asname or al.name}')
            continue
        if isinstance(n, a.Expr) and isinstance(n.value, a.Constant) and isinstance(n.value.value, str):
            continue
        if isinstance(n, a.FunctionDef) and n.name in allowed_defs:
            seen.append(n.name)
            continue
        _terr(f'{where}: unexpected top-level statement {a.unparse(n)[:80]}')
    if sorted(seen) != sorted(allowed_defs):
        _terr(f'{where}: top-level functions {seen}, expected {sorted(allowed_defs)}')


def _exports(a):
    """atomman/core/__init__.py binds dvect, dmag, displacement to the functions of their modules and never rebinds them."""
    tree = a.parse(cm.source('atomman/core/__init__.py'))
    want = {'dvect': 'dvect', 'dmag': 'dmag', 'displacement': 'displacement'}
    bound = {}
    for n in tree.body:
        names = []
        if isinstance(n, a.ImportFrom):
            for al in n.names:
                nm = al.asname or al.name
                if nm in want:
                    if nm in bound or n.level != 1 or n.module != want[nm] or al.name != nm:
                        _terr(f'core/__init__.py: {nm} is bound by `{a.unparse(n)}`')
                    bound[nm] = True
            continue
        if isinstance(n, a.Import):
            names = [(al.asname or al.name).split('.')[0] for al in n.names]
        elif isinstance(n, (a.Assign, a.AugAssign, a.AnnAssign)):
            tg = n.targets if isinstance(n, a.Assign) else [n.target]
            names = [x.id for t in tg for x in a.walk(t) if isinstance(x, a.Name)]
        elif isinstance(n, (a.FunctionDef, a.ClassDef)):
            names = [n.name]
        elif isinstance(n, a.Expr) and isinstance(n.value, a.Constant):
            continue
        else:
            _terr(f'core/__init__.py: unexpected top-level statement {a.unparse(n)[:80]}')
        for nm in names:
            if nm in want:
                _terr(f'core/__init__.py: {nm} is rebound by `{a.unparse(n)[:80]}`')
    if set(bound) != set(want):
        _terr(f'core/__init__.py: not all of dvect / dmag / displacement are imported from their modules: {sorted(bound)}')


def translate():
    import ast as a
    out = []
    A = out.append
    A('/- GENERATED by harness/props/c02.py (translate) from atomman/core/dvect.pyx, dmag.pyx, displacement.py and')
    A('   atomman/core/System.py (System.dvect, System.dmag, the pbc property) - do not edit.')
    A('   The kernels are compiled from the `ast` of the (declaration-stripped) Cython text: loop bounds, nesting order, the')
    A('   skipped triple, the candidate formula, the squared lengths, the comparison and what it replaces; the wrappers, the')
    A('   System methods and `displacement` statement by statement in terms of the primitives of `Atomman/C02.lean`.')
    A('   `Proofs/C02_Source.lean` proves each definition equal to the hand-written model. -/')
    A('import Atomman.C02')
    A('')
    A('namespace Atomman.Generated.DvectSource')
    A('open Atomman Atomman.C02')
    A('')
    A('set_option linter.unusedVariables false')
    A('')
    A('section')
    A('variable {K : Type} [Add K] [Sub K] [Mul K] [IntCast K] [LT K] [DecidableLT K] [LE K] [DecidableLE K]')
    A('')
    kernels = {}
    reals = []
    for fname, kname, wname, pref in (('atomman/core/dvect.pyx', 'dvect_c', 'dvect', 'dvectC'),
                                      ('atomman/core/dmag.pyx', 'dmag2_c', 'dmag', 'dmag2C')):
        src = cm.source(fname)
        py, types = _decython(src, fname)
        try:
            tree = a.parse(py)
        except SyntaxError as e:
            _terr(f'{fname}: not parseable after removing the declarations: {e}')
        _only_these(a, tree, [kname, wname], fname)
        kfn = _fn(tree, kname, fname)
        K_ = _Kernel(kfn, types.get(kname, {}), f'{fname}:{kname}', pref)
        A(f'/-! ### `{kname}` ({fname}) -/')
        A(K_.compile())
        A('')
        kernels[kname] = K_
        reals.append((kname, K_.real_types))
        wfn = _fn(tree, wname, fname)
        decos = sorted(a.unparse(d) for d in wfn.decorator_list)
        A(f'/-- `{wname}(pos_0, pos_1, box, pbc)`: conversions, rank checks, broadcasting chain, kernel call'
          + (' (the caller gets `** 0.5` of these values)' if wname == 'dmag' else '') + '. -/')
        rt = 'V3 K' if wname == 'dvect' else 'K'
        A(f'def {wname}Wrap (vects : M3 K) (pbc : List Int) (pos_0 pos_1 : PosArg K) : Except String (List ({rt})) :=')
        A(_wrapper(a, wfn, kname, K_.params, fname, pref, '0.5' if wname == 'dmag' else None))
        A(f'/-- decorators of the wrapper `{wname}` (bounds checks are off: `pbc[k]` is an unchecked read). -/')
        A(f'def {wname}Decorators : List String := [{", ".join(chr(34) + d + chr(34) for d in decos)}]')
        A('')
    # System methods
    ssrc = cm.source('atomman/core/System.py')
    stree = a.parse(ssrc)
    classes = [n for n in stree.body if isinstance(n, a.ClassDef) and n.name == 'System']
    if len(classes) != 1:
        _terr('System.py: class System not found')
    cls = classes[0]
    imports = {}
    for n in stree.body:
        if isinstance(n, a.ImportFrom):
            for al in n.names:
                imports[al.asname or al.name] = (n.module, n.level, al.name)
    for nm in ('dvect', 'dmag'):
        if nm not in imports or imports[nm][2] != nm:
            _terr(f'System.py: `{nm}` is not imported as itself: {imports.get(nm)}')
    A('/-! ### `System.dvect` / `System.dmag` (atomman/core/System.py): `try: self.atoms.pos[p] except: np.asarray(p)` for both')
    A('    arguments (numpy indexing: `selectBoth`), the wrapper with `self.box`, `self.pbc`, then `if len(r) == 1: r[0]`. -/')
    for nm, rt in (('dvect', 'V3 K'), ('dmag', 'K')):
        sq = _system_method(a, cls, nm, nm, 'System.py')
        A(f'def sys{nm.capitalize()} (atoms : List (V3 K)) (vects : M3 K) (px py pz : Bool) (pos_0 pos_1 : Sel K) :'
          f' Except String (Bool × List ({rt})) :=')
        A(f'  selectBoth atoms pos_0 pos_1 >>= fun ab =>')
        A(f'  ({nm}Wrap vects (Sys.flags ⟨vects, px, py, pz, atoms⟩) (.rows ab.1) (.rows ab.2)).map fun r => ({sq}, r)')
    # pbc property
    props = {}
    for n in cls.body:
        if isinstance(n, a.FunctionDef) and n.name in ('pbc', 'box', 'natoms', 'atoms'):
            decs = [a.unparse(d) for d in n.decorator_list]
            props[(n.name, 'setter' if any(d.endswith('.setter') for d in decs) else 'getter')] = n
    def getter(name, expect):
        fn = props.get((name, 'getter'))
        if fn is None:
            _terr(f'System.py: property {name} not found')
        b = _body(fn)
        if len(b) != 1 or a.unparse(b[0]) != expect:
            _terr(f'System.py: the getter of {name} is not `{expect}`: {a.unparse(b[0])[:80] if b else ""}')
    getter('pbc', 'return self.__pbc')
    getter('box', 'return self.__box')
    getter('atoms', 'return self.__atoms')
    getter('natoms', 'return self.__atoms.natoms')
    A('/-- the getters `System.pbc`, `System.box`, `System.atoms` hand out the stored objects themselves (no copy, no cache),')
    A('    `System.natoms` is `self.__atoms.natoms`. -/')
    A('def systemGettersLive : Bool := true')
    st = props.get(('pbc', 'setter'))
    if st is None:
        _terr('System.py: no pbc setter')
    b = _body(st)
    sp = [x.arg for x in st.args.args]
    ok = len(sp) == 2 and len(b) == 3 and a.unparse(b[0]) == f'pbc = np.asarray({sp[1]}, dtype=bool)' \
        and isinstance(b[1], a.Assert) and a.unparse(b[1].test) == 'pbc.shape == (3,)' and a.unparse(b[2]) == 'self.__pbc = pbc'
    if not ok:
        _terr('System.py: the pbc setter is not asarray(dtype=bool) / assert shape == (3,) / store')
    A('/-- `System.pbc = value`: `np.asarray(value, dtype=bool)` (truth values), `assert pbc.shape == (3,)`, stored. -/')
    A('def pbcSetter (value : List Int) : Option (Bool × Bool × Bool) :=')
    A('  let pbc := value.map fun v => v != 0')
    A('  if pbc.length = 3 then some (pbc.getD 0 false, pbc.getD 1 false, pbc.getD 2 false) else none')
    A('')
    # System.box_set: the order of its three state changes (second extender pass)
    bfn = [n for n in cls.body if isinstance(n, a.FunctionDef) and n.name == 'box_set']
    if len(bfn) != 1:
        _terr('System.py: exactly one method box_set expected')
    bfn = bfn[0]
    ba = bfn.args
    if [x.arg for x in ba.args] != ['self'] or ba.kwarg is None or ba.kwarg.arg != 'kwargs' or ba.vararg or ba.kwonlyargs \
            or ba.posonlyargs or bfn.decorator_list:
        _terr('System.py: box_set is not `def box_set(self, **kwargs)` without decorators')
    bb = _body(bfn)
    if len(bb) != 3:
        _terr(f'System.py: box_set has {len(bb)} statements, expected pop / type check / if')
    st0 = bb[0]
    ok0 = isinstance(st0, a.Assign) and len(st0.targets) == 1 and a.unparse(st0.targets[0]) == 'scale' \
        and isinstance(st0.value, a.Call) and a.unparse(st0.value.func) == 'kwargs.pop' and not st0.value.keywords \
        and len(st0.value.args) == 2 and isinstance(st0.value.args[0], a.Constant) and st0.value.args[0].value == 'scale' \
        and isinstance(st0.value.args[1], a.Constant) and isinstance(st0.value.args[1].value, bool)
    if not ok0:
        _terr(f'System.py: box_set does not start with `scale = kwargs.pop(\'scale\', <bool>)`: {a.unparse(st0)[:80]}')
    scale_default = st0.value.args[1].value
    st1 = bb[1]
    ok1 = isinstance(st1, a.If) and not st1.orelse and a.unparse(st1.test) == 'not isinstance(scale, bool)' \
        and len(st1.body) == 1 and isinstance(st1.body[0], a.Raise) and isinstance(st1.body[0].exc, a.Call) \
        and a.unparse(st1.body[0].exc.func) == 'TypeError'
    if not ok1:
        _terr(f'System.py: box_set: the second statement is not the bool check raising TypeError: {a.unparse(st1)[:80]}')
    st2 = bb[2]
    if not (isinstance(st2, a.If) and a.unparse(st2.test) in ('scale is True', 'scale', 'scale == True') and st2.orelse):
        _terr(f'System.py: box_set: the third statement is not `if scale is True: … else: …`: {a.unparse(st2)[:80]}')

    def boxset_branch(stmts):
        lines, defined = [], set()
        for x in stmts:
            if isinstance(x, a.Assign) and len(x.targets) == 1 and isinstance(x.targets[0], a.Name) \
                    and a.unparse(x.value) == "self.atoms_prop('pos', scale=True)":
                nm = x.targets[0].id
                if nm in ('w', 's', 'v', 'o', 'scale'):
                    _terr(f'System.py: box_set: variable name {nm} clashes')
                defined.add(nm)
                lines.append(f'(World.sposOf w s) >>= fun {nm} =>')
            elif isinstance(x, a.Expr) and a.unparse(x.value) == 'self.box.set(**kwargs)':
                lines.append('(World.boxSetOf w s v o) >>= fun w =>')
            elif isinstance(x, a.Expr) and isinstance(x.value, a.Call) and a.unparse(x.value.func) == 'self.atoms_prop' \
                    and len(x.value.args) == 1 and isinstance(x.value.args[0], a.Constant) and x.value.args[0].value == 'pos' \
                    and sorted(k.arg or '' for k in x.value.keywords) == ['scale', 'value']:
                kw = {k.arg: k.value for k in x.value.keywords}
                if not (isinstance(kw['scale'], a.Constant) and kw['scale'].value is True and isinstance(kw['value'], a.Name)):
                    _terr(f'System.py: box_set: unsupported write of the positions {a.unparse(x)[:80]}')
                if kw['value'].id not in defined:
                    _terr(f'System.py: box_set: {kw["value"].id} is written back before it is read')
                lines.append(f'(World.setSpos w s {kw["value"].id}) >>= fun w =>')
            else:
                _terr(f'System.py: box_set: unsupported statement {a.unparse(x)[:80]}')
        return lines + ['some w']
    A('/-! ### `System.box_set(**kwargs)` (atomman/core/System.py): `scale` popped (default below, must be a `bool`), then the')
    A('    statements of the two branches in SOURCE order, in terms of the primitives `World.sposOf` (relative positions under the')
    A('    Box held now), `World.boxSetOf` (`self.box.set(**kwargs)`: the Box object changes in place), `World.setSpos`. -/')
    A('def sysBoxSet [Div K] (w : World K) (s : Nat) (v : M3 K) (o : V3 K) (scale : Bool) : Option (World K) :=')
    A('  if scale = true then')
    for ln in boxset_branch(st2.body):
        A('    ' + ln)
    A('  else')
    for ln in boxset_branch(st2.orelse):
        A('    ' + ln)
    A('/-- the default of `scale`; a non-`bool` value raises TypeError before anything is changed. -/')
    A(f'def boxSetScaleDefault : Bool := {"true" if scale_default else "false"}')
    A('')
    # displacement
    dsrc = cm.source('atomman/core/displacement.py')
    dtree = a.parse(dsrc)
    dimp = {}
    for n in dtree.body:
        if isinstance(n, a.ImportFrom):
            for al in n.names:
                dimp[al.asname or al.name] = (n.module, n.level, al.name)
    if dimp.get('dvect') != (None, 1, 'dvect'):
        _terr(f'displacement.py: dvect is imported as {dimp.get("dvect")}')
    _only_these(a, dtree, ['displacement'], 'displacement.py')
    _exports(a)
    dfn = _fn(dtree, 'displacement', 'displacement.py')
    dparams = [x.arg for x in dfn.args.args]
    if dparams != ['system_0', 'system_1', 'box_reference'] or len(dfn.args.defaults) != 1 or dfn.args.kwonlyargs:
        _terr(f'displacement.py: parameters {dparams}')
    try:
        default = a.literal_eval(dfn.args.defaults[0])
    except Exception:
        _terr('displacement.py: the default of box_reference is not a literal')
    if not (default is None or isinstance(default, str)):
        _terr(f'displacement.py: default {default!r}')
    body = _body(dfn)
    L = []

    def ref_test(t):
        if isinstance(t, a.Compare) and len(t.ops) == 1 and a.unparse(t.left) == 'box_reference':
            c = t.comparators[0]
            if isinstance(t.ops[0], a.Eq) and isinstance(c, a.Constant) and isinstance(c.value, str):
                if c.value == 'None':
                    _terr("displacement.py: the string 'None' is compared with (the wire form of None)")
                return f'box_reference = "{c.value}"'
            if isinstance(t.ops[0], a.Is) and isinstance(c, a.Constant) and c.value is None:
                return 'box_reference = "None"'
        _terr(f'displacement.py: unsupported test {a.unparse(t)}')

    def sysname(txt):
        if txt not in ('system_0', 'system_1'):
            _terr(f'displacement.py: unsupported operand {txt}')
        return txt

    def action(stmts):
        if len(stmts) != 1:
            _terr(f'displacement.py: unsupported branch {a.unparse(stmts[0])[:80]}')
        st = stmts[0]
        if isinstance(st, a.Raise):
            exc = st.exc.func.id if isinstance(st.exc, a.Call) and isinstance(st.exc.func, a.Name) else None
            if exc not in ('ValueError', 'TypeError'):
                _terr(f'displacement.py: unsupported exception {a.unparse(st)}')
            return f'Except.error "{exc[:-5].lower()}"'
        if isinstance(st, a.Assign) and len(st.targets) == 1 and a.unparse(st.targets[0]) == 'disp':
            v = st.value
            if isinstance(v, a.Call) and isinstance(v.func, a.Name) and v.func.id == 'dvect' and not v.keywords and len(v.args) == 4:
                args = [a.unparse(x) for x in v.args]
                pos = []
                for x in args[:2]:
                    if not x.endswith('.atoms.pos'):
                        _terr(f'displacement.py: unsupported argument {x}')
                    pos.append(sysname(x[:-len('.atoms.pos')]))
                if not args[2].endswith('.box') or not args[3].endswith('.pbc'):
                    _terr(f'displacement.py: unsupported arguments {args[2]}, {args[3]}')
                b_, p_ = sysname(args[2][:-4]), sysname(args[3][:-4])
                return f'dvectWrap {b_}.vects {p_}.flags (.rows {pos[0]}.pos) (.rows {pos[1]}.pos)'
            if isinstance(v, a.BinOp) and isinstance(v.op, a.Sub):
                l, r = a.unparse(v.left), a.unparse(v.right)
                if l.endswith('.atoms.pos') and r.endswith('.atoms.pos'):
                    return f'Except.ok (List.zipWith (fun p q => p - q) {sysname(l[:-10])}.pos {sysname(r[:-10])}.pos)'
            _terr(f'displacement.py: unsupported value {a.unparse(v)[:80]}')
        _terr(f'displacement.py: unsupported branch {a.unparse(st)[:80]}')

    k = 0
    st = body[k]
    if not (isinstance(st, a.If) and not st.orelse and a.unparse(st.test) in ('system_0.natoms != system_1.natoms', 'system_1.natoms != system_0.natoms')):
        _terr(f'displacement.py: the first statement is not the atom-count check: {a.unparse(st)[:80]}')
    L.append(f'  if system_0.natoms ≠ system_1.natoms then {action(st.body)} else')
    k += 1
    st = body[k]
    if not isinstance(st, a.If):
        _terr('displacement.py: expected the box_reference chain')
    cur = st
    first = True
    while True:
        L.append(f'  {"if" if first else "else if"} {ref_test(cur.test)} then {action(cur.body)}')
        first = False
        if len(cur.orelse) == 1 and isinstance(cur.orelse[0], a.If):
            cur = cur.orelse[0]
            continue
        if not cur.orelse:
            _terr('displacement.py: the box_reference chain has no final else')
        L.append(f'  else {action(cur.orelse)}')
        break
    k += 1
    if not (k == len(body) - 1 and a.unparse(body[k]) == 'return disp'):
        _terr('displacement.py: the function does not end with `return disp`')
    A('/-! ### `displacement` (atomman/core/displacement.py); the wire form of `None` is the string "None" -/')
    A('def displacement (system_0 system_1 : Sys K) (box_reference : String) : Except String (List (V3 K)) :=')
    out.extend(L)
    A('/-- dvect.pyx, dmag.pyx and displacement.py consist of imports and exactly these functions; atomman/core/__init__.py binds')
    A('    `dvect`, `dmag`, `displacement` to them (`from .dvect import dvect`, …) and never rebinds the names. -/')
    A('def exportsDirect : Bool := true')
    A(f'/-- the default of `box_reference`. -/')
    A(f'def boxReferenceDefault : String := "{default if default is not None else "None"}"')
    A('')
    A('end')
    A('')
    A('/-! ### declared C types of the real-valued variables of the kernels (the model is exact: it idealises `double`) -/')
    for kname, real in reals:
        A(f'def realTypes_{kname} : List (String × String) := [' + ', '.join(f'("{n}", "{t}")' for n, t in real) + ']')
    A('')
    A('end Atomman.Generated.DvectSource')
    return {'DvectSource': '\n'.join(out) + '\n'}



MANIFEST = {
    'text': 'The loops of dvect.pyx/dmag.pyx are modelled in Lean (same candidate order, strict <) and proved, for every '
            'linearly ordered field, to return the direct separation shifted by n.vects with n_i in {-1,0,1} and n_i = 0 on '
            'non-periodic axes, never longer than any of the <=27 candidates, with dmag^2 = |dvect|^2, first-shortest tie '
            'rule, translation invariance and scale covariance (no absolute length enters); every row of every broadcast '
            'shape and of System.dvect/dmag (index / slice / list / tuple / integer-array / position dispatch, squeeze) is '
            'such a separation; displacement is that separation atom by atom under the selected cell and refuses unequal '
            'atom counts and unknown references. Box and System are modelled as mutable objects on a heap (a Box may be '
            'held by several Systems; in-place edits of flags, cell and positions): after any history a query is the '
            'stateless function of what the objects hold now. For both points in the closed cell the result is the true '
            'nearest image over ALL integer shifts when the cell vectors are mutually orthogonal (any orientation), and, for '
            'any cell with det != 0, whenever some image is shorter than half the smallest perpendicular width of the '
            'periodic axes. The finite lattice radius used by the search oracle is a theorem. The model is tied to the '
            'compiled code by an exact (bit for bit on dyadic grids times 2^k, k = -40..40) correspondence over am.dvect, '
            'am.dmag, System.dvect/dmag, am.displacement and histories of in-place changes of Box/System objects. '
            'Round 5: the two Cython kernels (loop bounds, nesting, skipped triple, candidate formula, squared lengths, comparison, '
            'replacement), the two wrappers (conversions, rank checks, broadcasting chain, flags, kernel call), System.dvect / '
            'System.dmag, the pbc property and displacement are REGENERATED from the current source on every check '
            '(Generated/DvectSource.lean) and proved equal to the model (17 gen_*_eq_model obligations), so the theorems are about '
            'the code as it reads now; acceptance / refusal of the public entry points is characterised exactly (iff), flags count '
            'by truth value only, and end-to-end theorems state the property clauses for the generated entry points.',
    'note': 'Trusted: Lean kernel + propext/Classical.choice/Quot.sound; the correspondence harness and its derived '
            'tolerance (2^-48 * input scale, tie margin computed by the model); numpy indexing/broadcast/sqrt. Floating '
            'point rounding is modelled, not verified (box_set(scale=True) is compared within a derived bound). Undefined '
            'behaviour of the unchecked memoryview for non-(n,3) input and of pbc with fewer than three flags is outside '
            'the model.',
    'technique': 'Lean 4 theorems over an executable model (stateless + object heap) + translator (ast of the declaration-stripped '
                 '.pyx and of the .py sources -> Lean, proved equal to the model) + differential correspondence incl. operation '
                 'histories + exact lattice oracle',
}
