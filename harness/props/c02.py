"""C02 — periodic separation (dvect / dmag / System.dvect / System.dmag / displacement).

Tie: correspondence between the Lean model (`Atomman.dvect`, `Atomman.dmag2` and the wrappers of
`Atomman/C02.lean`, run by `drv_c02`) and the real code rebuilt from the working tree, on identical
exact inputs.  Exact comparison on the dyadic grid, derived tolerance plus the model's tie margin
elsewhere.  Search: the property's own clauses on the real code with exact integer/Fraction
arithmetic (27-candidate minimality, image form, dmag = |dvect|, displacement atom by atom, true
nearest image by lattice enumeration inside the radius of `search_radius_images`).
"""
from __future__ import annotations

import itertools
import math
import random
from fractions import Fraction

from .. import common as cm

PROP = 'C02'
THEOREMS = [
    'C02.dvect_is_image', 'C02.dvect_min27', 'C02.dmag2_eq_normsq_dvect', 'C02.dvect_first_shortest',
    'C02.dvect_translate', 'C02.dmag2_translate',
    'C02.search_radius_sound', 'C02.search_radius_images',
    'C02.short_image_unique', 'C02.short_image_admissible', 'C02.tilted_true_nearest',
    'C02.ortho_true_nearest', 'C02.ortho_diag_true_nearest',
    'C02.dvectArr_one_to_many', 'C02.dvectArr_many_to_one', 'C02.dvectArr_many_to_many',
    'C02.dvectArr_none_iff', 'C02.dmag2Arr_eq', 'C02.displacement_atomwise',
    'C02.refBox_final', 'C02.refBox_initial', 'C02.refBox_none',
]
PARTIAL = {}
RULE = ('cells: diagonal, rotated/left-handed mutually orthogonal, LAMMPS-triclinic, general 3x3 (det != 0), strongly '
        'tilted; non-zero origin; all 8 pbc settings; points from relative coordinates on the 1/8 grid (inside, on '
        'faces/edges/corners, outside) so that every Cartesian input is a multiple of 1/64 below 2^12 (exact regime), '
        'or random doubles incl. near-tie pairs (tolerance regime); shapes (1,1) (1,m) (m,1) (m,m), mismatched and '
        'empty; list/tuple/array/flat input forms; System selectors int/negative/out-of-range int, slices, index '
        'lists/arrays, explicit positions; displacement with initial/final/None/default/invalid reference. '
        'distinct = distinct canonical case; non-trivial = at least one periodic direction and a non-zero separation')
ASSUMPTIONS = [
    'IEEE double arithmetic of the compiled loop is exact on multiples of 1/64 below 2^12 (products and sums stay '
    'below 2^53 ulps): there the comparison is bit for bit, tie order included',
    'elsewhere every component of a candidate carries an absolute rounding error of at most 2^-48 * S '
    '(S = largest input magnitude); cases whose tie margin (computed exactly by the model) is below the '
    'corresponding bound on squared lengths are exempt from the vector comparison, as are no others',
    'numpy `** 0.5` on a float64 array returns sqrt within 2 ulp',
    'numpy broadcasting / fancy indexing of atoms.pos is as documented (modelled by `select`/`broadcast`)',
]
TRUSTED = ['numpy indexing, broadcast_to and sqrt in the wrappers', 'exact integer oracle in harness/props/c02.py']

U48 = 2.0 ** -48
ORTHO_BASES = [
    [[1, 0, 0], [0, 1, 0], [0, 0, 1]],
    [[0, 1, 0], [1, 0, 0], [0, 0, 1]],          # left-handed permutation
    [[3, 4, 0], [-4, 3, 0], [0, 0, 5]],
    [[3, 4, 0], [4, -3, 0], [0, 0, 1]],         # left-handed
    [[1, 2, 2], [2, 1, -2], [2, -2, 1]],
    [[2, 3, 6], [3, -6, 2], [6, 2, -3]],
    [[0, 0, 1], [1, 0, 0], [0, 1, 0]],
]
CELL_KINDS = ['diag', 'ortho_rot', 'lammps', 'general', 'strong']


# ----------------------------------------------------------------------------------------
# generators (every random choice from the rng passed in)
# ----------------------------------------------------------------------------------------
def _det3(v):
    return (v[0][0] * (v[1][1] * v[2][2] - v[1][2] * v[2][1])
            - v[0][1] * (v[1][0] * v[2][2] - v[1][2] * v[2][0])
            + v[0][2] * (v[1][0] * v[2][1] - v[1][1] * v[2][0]))


def gen_cell(rng, kind):
    """cell vectors (rows) and origin, all multiples of 1/8."""
    e = lambda lo, hi: rng.randint(int(lo * 8), int(hi * 8)) / 8.0
    while True:
        if kind == 'diag':
            v = [[e(0.5, 12), 0.0, 0.0], [0.0, e(0.5, 12), 0.0], [0.0, 0.0, e(0.5, 12)]]
        elif kind == 'ortho_rot':
            b = rng.choice(ORTHO_BASES)
            ks = [rng.choice([0.125, 0.25, 0.5, 0.75, 1.0, 1.5, 2.0, 3.0]) for _ in range(3)]
            v = [[ks[i] * b[i][j] for j in range(3)] for i in range(3)]
        elif kind == 'lammps':
            lx, ly, lz = e(1, 12), e(1, 12), e(1, 12)
            xy = rng.randint(int(-lx * 4), int(lx * 4)) / 8.0
            xz = rng.randint(int(-lx * 4), int(lx * 4)) / 8.0
            yz = rng.randint(int(-ly * 4), int(ly * 4)) / 8.0
            v = [[lx, 0.0, 0.0], [xy, ly, 0.0], [xz, yz, lz]]
        elif kind == 'strong':
            lx, ly, lz = e(0.5, 4), e(0.5, 4), e(0.5, 4)
            v = [[lx, 0.0, 0.0], [e(-3, 3) * lx, ly, 0.0], [e(-3, 3) * lx, e(-3, 3) * ly, lz]]
            v = [[round(x * 8) / 8.0 for x in r] for r in v]
        else:
            v = [[e(-8, 8) for _ in range(3)] for _ in range(3)]
        d = _det3(v)
        if abs(d) >= 0.125 and max(abs(x) for r in v for x in r) <= 40:
            break
    origin = [e(-6, 6) for _ in range(3)] if rng.random() < 0.85 else [0.0, 0.0, 0.0]
    return v, origin


def gen_pbc(rng):
    return [rng.random() < 0.6 for _ in range(3)]


def rel_to_cart(s, v, o):
    return [s[0] * v[0][j] + s[1] * v[1][j] + s[2] * v[2][j] + o[j] for j in range(3)]


def gen_point(rng, v, o, where=None):
    """Cartesian point from a relative coordinate on the 1/8 grid -> multiple of 1/64, exactly."""
    where = where or rng.choice(['in', 'in', 'in', 'face', 'out'])
    if where == 'in':
        s = [rng.randint(0, 8) / 8.0 for _ in range(3)]
    elif where == 'face':
        s = [rng.choice([0.0, 1.0, rng.randint(0, 8) / 8.0]) for _ in range(3)]
    else:
        s = [rng.randint(-16, 24) / 8.0 for _ in range(3)]
    return rel_to_cart(s, v, o)


def gen_float_cell(rng):
    kind = rng.choice(['diag', 'lammps', 'general'])
    u = lambda lo, hi: rng.uniform(lo, hi)
    while True:
        if kind == 'diag':
            v = [[u(1, 20), 0.0, 0.0], [0.0, u(1, 20), 0.0], [0.0, 0.0, u(1, 20)]]
        elif kind == 'lammps':
            lx, ly, lz = u(2, 20), u(2, 20), u(2, 20)
            v = [[lx, 0.0, 0.0], [u(-.5, .5) * lx, ly, 0.0], [u(-.5, .5) * lx, u(-.5, .5) * ly, lz]]
        else:
            v = [[u(-10, 10) for _ in range(3)] for _ in range(3)]
        if abs(_det3(v)) > 1.0:
            return v, [u(-5, 5) for _ in range(3)]


def _shape_pair(rng):
    r = rng.random()
    m = rng.randint(2, 6)
    if r < 0.25:
        return 1, 1
    if r < 0.45:
        return 1, m
    if r < 0.6:
        return m, 1
    if r < 0.9:
        return m, m
    if r < 0.95:
        k = rng.randint(2, 6)
        return (m, k) if k != m else (m, m + 1)
    return rng.choice([(0, 0), (0, 1), (1, 0), (0, 3)])


def _form(rng, n):
    """how the positions are handed over (all denote the same numbers)."""
    forms = ['array', 'array', 'list', 'tuple', 'strided', 'fortran', 'f32']
    return rng.choice(forms + ['flat', 'flat'] if n == 1 else forms)


def _as_input(np, pts, form):
    if form == 'array':
        return np.array(pts, dtype=float).reshape(-1, 3)
    if form == 'list':
        return [list(map(float, p)) for p in pts]
    if form == 'tuple':
        return tuple(tuple(map(float, p)) for p in pts)
    if form == 'flat':
        return np.array(pts[0], dtype=float)
    if form == 'strided':
        big = np.full((2 * len(pts), 6), 7.5)
        big[::2, ::2] = np.array(pts, dtype=float).reshape(-1, 3)
        return big[::2, ::2]
    if form == 'fortran':
        return np.asfortranarray(np.array(pts, dtype=float).reshape(-1, 3))
    if form == 'f32':
        a32 = np.array(pts, dtype=np.float32).reshape(-1, 3)
        return a32 if np.array_equal(a32.astype(float), np.array(pts, dtype=float).reshape(-1, 3)) \
            else np.array(pts, dtype=float).reshape(-1, 3)
    raise ValueError(form)


def _as_pbc(np, pbc, form):
    if form == 'tuple':
        return tuple(bool(b) for b in pbc)
    if form == 'list':
        return [bool(b) for b in pbc]
    return np.array(pbc, dtype=bool)


def gen_arr_case(rng, regime):
    if regime == 'exact':
        v, o = gen_cell(rng, rng.choice(CELL_KINDS))
        n0, n1 = _shape_pair(rng)
        pos0 = [gen_point(rng, v, o) for _ in range(n0)]
        pos1 = [gen_point(rng, v, o) for _ in range(n1)]
        if n0 and n1 and rng.random() < 0.15:          # coincident / exactly tied pairs
            pos1[0] = list(pos0[0]) if rng.random() < 0.3 else \
                [pos0[0][j] + 0.5 * v[rng.randrange(3)][j] for j in range(3)]
    else:
        v, o = gen_float_cell(rng)
        n0, n1 = _shape_pair(rng)
        pt = lambda: rel_to_cart([rng.uniform(-0.5, 1.5) for _ in range(3)], v, o)
        pos0 = [pt() for _ in range(n0)]
        pos1 = [pt() for _ in range(n1)]
        if n0 and n1 and rng.random() < 0.3:            # near ties: half a cell vector +- tiny
            i = rng.randrange(3)
            eps = rng.choice([0.0, 1e-16, -1e-16, 1e-13, -1e-13, 1e-9, -1e-9])
            pos1[0] = [pos0[0][j] + (0.5 + eps) * v[i][j] for j in range(3)]
    return {'op': 'arr', 'regime': regime, 'vects': v, 'origin': o, 'pbc': gen_pbc(rng), 'pos0': pos0, 'pos1': pos1,
            'form0': _form(rng, n0), 'form1': _form(rng, n1), 'pbcform': rng.choice(['tuple', 'list', 'array'])}


def gen_sel(rng, natoms, v, o):
    r = rng.random()
    if r < 0.25:
        i = rng.randint(-natoms, natoms - 1) if rng.random() < 0.85 else rng.choice([natoms, natoms + 2, -natoms - 1])
        return ['I', i, rng.choice(['py', 'np'])]
    if r < 0.5:
        ch = lambda: None if rng.random() < 0.35 else rng.randint(-natoms - 3, natoms + 3)
        c = rng.choice([None, None, 1, 1, 2, 3, -1, -1, -2, -3, 0] if rng.random() < 0.25 else [None, 1, 2, -1, -2])
        return ['S', ch(), ch(), c]
    if r < 0.75:
        k = rng.choice([0, 1, 1, 2, 3, 3, 4, 5])
        l = [rng.randint(-natoms, natoms - 1) for _ in range(k)]
        if k == 3 and rng.random() < 0.2:
            l[rng.randrange(3)] = natoms + rng.randint(0, 3)     # not an index -> taken as ONE position
        return ['L', l, rng.choice(['py', 'np'])]
    k = rng.choice([1, 1, 2, 3, natoms])
    return ['P', [gen_point(rng, v, o) for _ in range(k)], _form(rng, k)]


def gen_sys_case(rng):
    v, o = gen_cell(rng, rng.choice(CELL_KINDS))
    natoms = rng.randint(1, 7)
    atoms = [gen_point(rng, v, o) for _ in range(natoms)]
    return {'op': 'sys', 'vects': v, 'origin': o, 'pbc': gen_pbc(rng), 'atoms': atoms,
            'sel0': gen_sel(rng, natoms, v, o), 'sel1': gen_sel(rng, natoms, v, o)}


def gen_disp_case(rng):
    v0, o0 = gen_cell(rng, rng.choice(CELL_KINDS))
    v1, o1 = gen_cell(rng, rng.choice(CELL_KINDS))
    if rng.random() < 0.3:      # a strained copy of the same cell (the usual use of displacement)
        v1 = [[x * rng.choice([1.0, 1.125, 0.875]) for x in r] for r in v0]
    n0 = rng.randint(1, 6)
    n1 = n0 if rng.random() < 0.92 else n0 + rng.choice([-1, 1, 2])
    n1 = max(n1, 1)
    return {'op': 'disp', 'ref': rng.choice(['final', 'final', 'initial', 'initial', None, 'default', 'bogus', 'Final']),
            'sys0': {'vects': v0, 'origin': o0, 'pbc': gen_pbc(rng), 'pos': [gen_point(rng, v0, o0) for _ in range(n0)]},
            'sys1': {'vects': v1, 'origin': o1, 'pbc': gen_pbc(rng), 'pos': [gen_point(rng, v1, o1) for _ in range(n1)]}}


# ----------------------------------------------------------------------------------------
# wire format
# ----------------------------------------------------------------------------------------
def _b(pbc):
    return ' '.join('1' if x else '0' for x in pbc)


def _flat(rows):
    return ' '.join(cm.fr(x) for r in rows for x in r)


def _sel_wire(sel):
    k = sel[0]
    if k == 'I':
        return f'I {sel[1]}'
    if k == 'S':
        return 'S ' + ' '.join('_' if x is None else str(x) for x in sel[1:4])
    if k == 'L':
        return f'L {len(sel[1])} ' + ' '.join(map(str, sel[1]))
    return f'P {len(sel[1])} ' + _flat(sel[1])


def lines_for(case):
    op = case['op']
    if op == 'arr':
        return [f"arr full {_b(case['pbc'])} {_flat(case['vects'])} {len(case['pos0'])} {len(case['pos1'])} "
                f"{_flat(case['pos0'])} {_flat(case['pos1'])}".strip()]
    if op == 'sys':
        base = (f"{len(case['atoms'])} {_b(case['pbc'])} {_flat(case['vects'])} {_flat(case['atoms'])} "
                f"{_sel_wire(case['sel0'])} {_sel_wire(case['sel1'])}")
        return ['sys dvect ' + base, 'sys dmag2 ' + base]
    if op == 'disp':
        s0, s1 = case['sys0'], case['sys1']
        ref = {None: 'None', 'default': 'final'}.get(case['ref'], case['ref'])
        return [f"disp {ref} {len(s0['pos'])} {len(s1['pos'])} {_b(s0['pbc'])} {_flat(s0['vects'])} "
                f"{_b(s1['pbc'])} {_flat(s1['vects'])} {_flat(s0['pos'])} {_flat(s1['pos'])}"]
    if op == 'slice':
        f = lambda x: '_' if x is None else str(x)
        return [f"slice {case['n']} {f(case['a'])} {f(case['b'])} {f(case['c'])}"]
    raise ValueError(op)


# ----------------------------------------------------------------------------------------
# running the implementation
# ----------------------------------------------------------------------------------------
def _errclass(e):
    return {'TypeError': 'type', 'ValueError': 'value'}.get(type(e).__name__, 'other:' + type(e).__name__)


def _call(f):
    try:
        return 'ok', f()
    except Exception as e:  # noqa: the class is what is compared
        return 'err', _errclass(e)


def _mk_box(am, v, o):
    return am.Box(vects=v, origin=o)


def _mk_system(am, np, v, o, pbc, pos):
    return am.System(atoms=am.Atoms(pos=np.array(pos, dtype=float).reshape(-1, 3)), box=_mk_box(am, v, o),
                     pbc=tuple(bool(b) for b in pbc))


def _py_sel(np, sel):
    k = sel[0]
    if k == 'I':
        return int(sel[1]) if sel[2] == 'py' else np.int64(sel[1])
    if k == 'S':
        return slice(sel[1], sel[2], sel[3])
    if k == 'L':
        return list(sel[1]) if sel[2] == 'py' else np.array(sel[1], dtype=np.int64)
    return _as_input(np, sel[1], sel[2])


def impl_run(case):
    import numpy as np
    import atomman as am
    op = case['op']
    if op == 'arr':
        box = _mk_box(am, case['vects'], case['origin'])
        pbc = _as_pbc(np, case['pbc'], case['pbcform'])
        a, b = _as_input(np, case['pos0'], case['form0']), _as_input(np, case['pos1'], case['form1'])
        if len(case['pos0']) == 0:
            a = np.zeros((0, 3))
        if len(case['pos1']) == 0:
            b = np.zeros((0, 3))
        return {'dvect': _call(lambda: am.dvect(a, b, box, pbc)), 'dmag': _call(lambda: am.dmag(a, b, box, pbc))}
    if op == 'sys':
        s = _mk_system(am, np, case['vects'], case['origin'], case['pbc'], case['atoms'])
        a, b = _py_sel(np, case['sel0']), _py_sel(np, case['sel1'])
        return {'dvect': _call(lambda: s.dvect(a, b)), 'dmag': _call(lambda: s.dmag(a, b))}
    if op == 'disp':
        s0 = _mk_system(am, np, case['sys0']['vects'], case['sys0']['origin'], case['sys0']['pbc'], case['sys0']['pos'])
        s1 = _mk_system(am, np, case['sys1']['vects'], case['sys1']['origin'], case['sys1']['pbc'], case['sys1']['pos'])
        if case['ref'] == 'default':
            return {'disp': _call(lambda: am.displacement(s0, s1))}
        return {'disp': _call(lambda: am.displacement(s0, s1, box_reference=case['ref']))}
    if op == 'slice':
        return {'slice': _call(lambda: list(range(*slice(case['a'], case['b'], case['c']).indices(case['n']))))}
    raise ValueError(op)


# ----------------------------------------------------------------------------------------
# comparison
# ----------------------------------------------------------------------------------------
def _exact_eq(vals, fracs):
    vals = [float(x) for x in vals]
    return len(vals) == len(fracs) and all(math.isfinite(x) and Fraction(x) == f for x, f in zip(vals, fracs))


def _sqrt_ok(s, m2: Fraction):
    """s is sqrt(m2) up to 2 ulp (m2 exact)."""
    s = float(s)
    if not math.isfinite(s) or s < 0:
        return False
    if m2 == 0:
        return s == 0.0
    return abs(Fraction(s) ** 2 - m2) <= m2 * Fraction(8, 2 ** 53)


def _scale(case):
    vals = [abs(x) for r in case['vects'] for x in r] + [abs(x) for p in case['pos0'] + case['pos1'] for x in p]
    return max(vals + [1.0])


def compare(case, impl, outs):
    """-> list of (key, message). Empty when implementation and model agree."""
    import numpy as np
    op = case['op']
    bad = []
    if op == 'arr':
        out = outs[0]
        for name in ('dvect', 'dmag'):
            st, val = impl[name]
            if out.startswith('err:'):
                if st != 'err' or 'err:' + val != out:
                    bad.append((f'arr:{name}:error', f'am.{name}: model rejects with {out}, implementation gave {st} {val!r:.80}'))
                continue
            if st == 'err':
                bad.append((f'arr:{name}:error', f'am.{name} raised {val}, model accepts'))
        if bad or out.startswith('err:'):
            return bad
        toks = out.split()
        n = len(toks) // 5
        dv, dm = np.asarray(impl['dvect'][1]), np.asarray(impl['dmag'][1])
        if dv.shape != (n, 3) or dm.shape != (n,):
            return [('arr:shape', f'result shapes {dv.shape}/{dm.shape}, model has {n} pairs')]
        exact = case['regime'] == 'exact'
        S = _scale(case)
        delta = U48 * S
        for i in range(n):
            t = toks[5 * i: 5 * i + 5]
            mv = [Fraction(x) for x in t[:3]]
            m2 = Fraction(t[3])
            margin = None if t[4] == '-' else Fraction(t[4])
            if exact:
                if not _exact_eq(dv[i], mv):
                    bad.append(('arr:dvect', f'pair {i}: am.dvect {dv[i].tolist()} != model {[float(x) for x in mv]} '
                                f'(exact regime; tie margin {margin})'))
                if not _sqrt_ok(dm[i], m2):
                    bad.append(('arr:dmag', f'pair {i}: am.dmag {float(dm[i])!r} is not sqrt of model {float(m2)!r}'))
            else:
                L = math.sqrt(float(m2 + (margin or 0))) + delta
                tie = margin is not None and float(margin) <= 8 * L * delta + U48 * L * L
                case.setdefault('_ties', []).append(bool(tie))
                if not tie and not all(abs(float(dv[i][j]) - float(mv[j])) <= delta for j in range(3)):
                    bad.append(('arr:dvect', f'pair {i}: am.dvect {dv[i].tolist()} vs model {[float(x) for x in mv]} '
                                f'beyond {delta:.3g} (margin {float(margin) if margin is not None else None})'))
                if abs(float(dm[i]) - math.sqrt(float(m2))) > 2 * delta + 2.0 ** -50 * math.sqrt(float(m2)):
                    bad.append(('arr:dmag', f'pair {i}: am.dmag {float(dm[i])!r} vs model {math.sqrt(float(m2))!r}'))
        return bad
    if op == 'sys':
        for name, out, width in (('dvect', outs[0], 3), ('dmag', outs[1], 1)):
            st, val = impl[name]
            if out == 'err:undefined':
                continue
            if out.startswith('err:'):
                if st != 'err' or 'err:' + val != out:
                    bad.append((f'sys:{name}:error', f'System.{name}: model rejects with {out}, implementation gave {st} {val!r:.80}'))
                continue
            if st == 'err':
                bad.append((f'sys:{name}:error', f'System.{name} raised {val}, model returns {out[:60]}'))
                continue
            toks = out.split()
            arr = np.asarray(val)
            if toks[0] == 'sq':
                want_shape = (3,) if width == 3 else ()
                fr = [Fraction(x) for x in toks[1:]]
            else:
                k = int(toks[1])
                want_shape = (k, 3) if width == 3 else (k,)
                fr = [Fraction(x) for x in toks[2:]]
            if arr.shape != want_shape:
                bad.append((f'sys:{name}:shape', f'System.{name} returned shape {arr.shape}, model {want_shape} ({toks[0]})'))
                continue
            flat = arr.ravel().tolist()
            if width == 3:
                if not _exact_eq(flat, fr):
                    bad.append((f'sys:{name}', f'System.dvect {flat} != model {[float(x) for x in fr]}'))
            else:
                if not (len(flat) == len(fr) and all(_sqrt_ok(s, m2) for s, m2 in zip(flat, fr))):
                    bad.append((f'sys:{name}', f'System.dmag {flat} is not sqrt of model {[float(x) for x in fr]}'))
        return bad
    if op == 'disp':
        st, val = impl['disp']
        out = outs[0]
        if out.startswith('err:'):
            if st != 'err' or 'err:' + val != out:
                bad.append(('disp:error', f'displacement: model rejects with {out}, implementation gave {st} {val!r:.80}'))
            return bad
        if st == 'err':
            return [('disp:error', f'displacement raised {val}, model accepts')]
        fr = [Fraction(x) for x in out.split()]
        arr = np.asarray(val)
        if arr.shape != (len(fr) // 3, 3) or not _exact_eq(arr.ravel().tolist(), fr):
            bad.append(('disp', f"displacement(box_reference={case['ref']!r}) {arr.tolist()} != model {[float(x) for x in fr]}"))
        return bad
    if op == 'slice':
        st, val = impl['slice']
        out = outs[0]
        if st == 'err':
            return [] if out == 'err:' + val else [('slice', f'python raises {val}, model {out}')]
        return [] if out.split() == ['ok'] + [str(i) for i in val] else [('slice', f'python {val}, model {out}')]
    raise ValueError(op)


def _nontrivial(case):
    if case['op'] == 'arr':
        return any(case['pbc']) and bool(case['pos0']) and bool(case['pos1']) and case['pos0'][0] != case['pos1'][0]
    if case['op'] == 'sys':
        return any(case['pbc'])
    if case['op'] == 'disp':
        return case['ref'] in ('final', 'initial', 'default')
    return True


def _public(case):
    return {k: v for k, v in case.items() if not k.startswith('_')}


def run_cases(ctx, cases, report=True):
    lines, spans = [], []
    for c in cases:
        ls = lines_for(c)
        spans.append((len(lines), len(ls)))
        lines += ls
    outs = ctx.driver.ask_many(lines)
    nbad = 0
    for c, (a, k) in zip(cases, spans):
        impl = impl_run(c)
        o = outs[a:a + k]
        kind = c['op'] + (':' + c['regime'] if 'regime' in c else '')
        ctx.stats.case(kind, lines[a:a + k], nontrivial=_nontrivial(c), sample=_public(c))
        for key, msg in compare(c, impl, o):
            nbad += 1
            if report:
                ctx.disagree(key, msg, {'case': _public(c), 'lines': lines[a:a + k], 'model': o,
                                        'impl': {k2: (v[0], repr(v[1])[:400]) for k2, v in impl.items()}})
    return nbad


# ----------------------------------------------------------------------------------------
# correspondence
# ----------------------------------------------------------------------------------------
FIXED_CASES = [
    # exact ties: the direct separation (first candidate) must be kept, in both directions
    {'op': 'arr', 'regime': 'exact', 'vects': [[2.0, 0, 0], [0, 2.0, 0], [0, 0, 2.0]], 'origin': [0.0, 0, 0],
     'pbc': [True, True, True], 'pos0': [[0.0, 0, 0], [1.0, 1, 1]], 'pos1': [[1.0, 1, 1], [0.0, 0, 0]],
     'form0': 'array', 'form1': 'array', 'pbcform': 'tuple'},
    # tie between two shifted candidates only (direct one longer): the earlier loop index wins
    {'op': 'arr', 'regime': 'exact', 'vects': [[2.0, 0, 0], [0, 2.0, 0], [0, 0, 2.0]], 'origin': [0.5, 0.5, 0.5],
     'pbc': [True, True, True], 'pos0': [[0.5, 0.5, 0.5]], 'pos1': [[2.0, 1.5, 1.5], [1.5, 2.0, 1.5], [1.5, 1.5, 2.0]],
     'form0': 'flat', 'form1': 'list', 'pbcform': 'list'},
    # every single-axis periodicity with a separation that wants a shift on every axis
    *[{'op': 'arr', 'regime': 'exact', 'vects': [[4.0, 0, 0], [1.0, 4.0, 0], [0.5, 1.0, 4.0]], 'origin': [1.0, -2.0, 3.0],
       'pbc': list(p), 'pos0': [[1.25, -1.75, 3.25]], 'pos1': [[6.0, 2.5, 6.5]], 'form0': 'tuple', 'form1': 'array',
       'pbcform': 'array'} for p in itertools.product([False, True], repeat=3)],
]


def correspond(ctx):
    rng = ctx.rng
    cases = [dict(c) for c in FIXED_CASES]
    cases += [gen_arr_case(rng, 'exact') for _ in range(ctx.n(3000, 40000))]
    cases += [gen_arr_case(rng, 'tol') for _ in range(ctx.n(1000, 12000))]
    cases += [gen_sys_case(rng) for _ in range(ctx.n(1500, 20000))]
    cases += [gen_disp_case(rng) for _ in range(ctx.n(600, 8000))]
    for _ in range(ctx.n(200, 2000)):
        ch = lambda: None if rng.random() < 0.3 else rng.randint(-12, 12)
        cases.append({'op': 'slice', 'n': rng.randint(0, 9), 'a': ch(), 'b': ch(),
                      'c': rng.choice([None, 1, 2, 3, -1, -2, -3, 0, 5, -7])})
    run_cases(ctx, cases)
    ties = [t for c in cases for t in c.get('_ties', [])]
    ctx.extra['tolerance_pairs'] = len(ties)
    ctx.extra['tolerance_pairs_exempt_as_ties'] = sum(ties)
    ctx.extra['pbc_settings_seen'] = sorted({''.join('1' if b else '0' for b in c['pbc']) for c in cases if 'pbc' in c})


# ----------------------------------------------------------------------------------------
# search: the property's clauses on the real code, exact integer arithmetic
# ----------------------------------------------------------------------------------------
def _ints(*groups):
    """common power-of-two denominator D and the integer numerators of every float (exact)."""
    frs = [[Fraction(float(x)) for x in g] for g in groups]
    D = max([f.denominator for g in frs for f in g] + [1])
    return D, [[int(f * D) for f in g] for g in frs]


def _cross(a, b):
    return [a[1] * b[2] - a[2] * b[1], a[2] * b[0] - a[0] * b[2], a[0] * b[1] - a[1] * b[0]]


def _dot(a, b):
    return a[0] * b[0] + a[1] * b[1] + a[2] * b[2]


def _isqrt_floor_ratio(num, den):
    """floor(sqrt(num/den)) for integers num >= 0, den > 0."""
    r = math.isqrt(num // den)
    while (r + 1) * (r + 1) * den <= num:
        r += 1
    return r


class Geo:
    """exact geometry of one cell on the integer scale D (all inputs floats, hence dyadic)."""

    def __init__(self, vects, origin, pts):
        flat = [x for r in vects for x in r]
        self.D, (vi, oi, pi) = _ints(flat, origin, [x for p in pts for x in p])
        self.V = [vi[0:3], vi[3:6], vi[6:9]]
        self.o = oi
        self.pts = [pi[3 * k:3 * k + 3] for k in range(len(pts))]
        self.c = [_cross(self.V[1], self.V[2]), _cross(self.V[2], self.V[0]), _cross(self.V[0], self.V[1])]
        self.det = _dot(self.V[0], self.c[0])

    def to_int(self, floats):
        out = []
        for x in floats:
            f = Fraction(float(x)) * self.D
            if f.denominator != 1:
                return None
            out.append(int(f))
        return out

    def image(self, d0, n):
        return [d0[j] + n[0] * self.V[0][j] + n[1] * self.V[1][j] + n[2] * self.V[2][j] for j in range(3)]

    def shift_of(self, e, d0):
        """n with e = d0 + n.V, as Fractions (integers iff e is an image)."""
        diff = [e[j] - d0[j] for j in range(3)]
        return [Fraction(_dot(diff, self.c[i]), self.det) for i in range(3)]

    def in_cell(self, p):
        rel = [p[j] - self.o[j] for j in range(3)]
        for i in range(3):
            s = Fraction(_dot(rel, self.c[i]), self.det)
            if s < 0 or s > 1:
                return False
        return True

    def orthogonal(self):
        return all(_dot(self.V[i], self.V[j]) == 0 for i, j in ((0, 1), (0, 2), (1, 2)))

    def nearest(self, d0, e, m, pbc, cap=60000):
        """min |d0 + n.V|^2 over all integer n vanishing off the periodic axes, enumerated inside the proven
        radius (n_i - m_i)^2 <= 4 |e|^2 |recip_i|^2 around the image e = d0 + m.V (search_radius_images)."""
        e2 = _dot(e, e)
        rng_ = []
        total = 1
        for i in range(3):
            if not pbc[i]:
                rng_.append([0])
                continue
            R = _isqrt_floor_ratio(4 * e2 * _dot(self.c[i], self.c[i]), self.det * self.det)
            rng_.append(list(range(m[i] - R, m[i] + R + 1)))
            total *= 2 * R + 1
        if total > cap:
            return None
        best, arg = None, None
        for n in itertools.product(*rng_):
            t = self.image(d0, n)
            q = _dot(t, t)
            if best is None or q < best:
                best, arg = q, n
        return best, arg, total

    def width2_ok(self, q, pbc):
        """4 q < w^2 with w^2 = min over periodic axes of 1/|recip_i|^2  (q on scale D^2)."""
        return all(4 * q * _dot(self.c[i], self.c[i]) < self.det * self.det for i in range(3) if pbc[i])


def _candidates(pbc):
    return list(itertools.product(*[([-1, 0, 1] if p else [0]) for p in pbc]))


def oracle_pairs(ctx, case, stats):
    """all clauses of the property for the pairs of one cell, on the real code."""
    import numpy as np
    import atomman as am
    v, o, pbc = case['vects'], case['origin'], case['pbc']
    p0s, p1s = case['p0'], case['p1']
    box = _mk_box(am, v, o)
    A, B = np.array(p0s, dtype=float), np.array(p1s, dtype=float)
    pb = tuple(bool(b) for b in pbc)
    dv = am.dvect(A, B, box, pb)
    dm = am.dmag(A, B, box, pb)
    exact = case['regime'] == 'exact'
    g = Geo(v, o, p0s + p1s)
    n = len(p0s)
    S = max([abs(x) for r in v for x in r] + [abs(x) for p in p0s + p1s for x in p] + [1.0])
    delta = U48 * S
    cands = _candidates(pbc)
    tshift = case.get('translate')
    if tshift is not None and exact:
        T = np.array(tshift, dtype=float)
        dv_t = am.dvect(A + T, B + T, box, pb)
        if not np.array_equal(dv_t, dv):
            k = int(np.argmax(np.abs(dv_t - dv).sum(axis=1)))
            ctx.violate('translate', f'dvect changes under a common translation {tshift}: {dv[k].tolist()} -> {dv_t[k].tolist()}',
                        {'op': 'oracle', 'case': case, 'pair': k})
    for k in range(n):
        P0, P1 = g.pts[k], g.pts[n + k]
        d0 = [P1[j] - P0[j] for j in range(3)]
        rep = {'op': 'oracle', 'case': {**case, 'p0': [p0s[k]], 'p1': [p1s[k]]}}
        stats['pairs'] += 1
        e = g.to_int(dv[k]) if exact else None
        if exact and e is None:
            ctx.violate('image-form', f'dvect({p0s[k]}, {p1s[k]}) = {dv[k].tolist()} is off the input grid: not a lattice image',
                        rep)
            continue
        if exact:
            nn = g.shift_of(e, d0)
        else:
            ef = [Fraction(float(x)) * g.D for x in dv[k]]
            nn = [Fraction(sum((ef[j] - d0[j]) * g.c[i][j] for j in range(3)), g.det) for i in range(3)]
            nn = [Fraction(round(x)) for x in nn]
            img = g.image(d0, [int(x) for x in nn])
            if any(abs(float(ef[j] - img[j]) / g.D) > delta for j in range(3)):
                ctx.violate('image-form', f'dvect({p0s[k]}, {p1s[k]}) = {dv[k].tolist()} is not (p1-p0) + n.vects for integer n '
                            f'(closest n = {[int(x) for x in nn]})', rep)
                continue
            e = img
        # clause 1: image with n_i in {-1,0,1}, n_i = 0 on non-periodic axes
        if any(x.denominator != 1 for x in nn) or any(abs(x) > 1 for x in nn) or \
                any((not pbc[i]) and nn[i] != 0 for i in range(3)):
            ctx.violate('image-form', f'dvect({p0s[k]}, {p1s[k]}) pbc={pbc}: {dv[k].tolist()} = (p1-p0) + n.vects with '
                        f'n = {[str(x) for x in nn]}: not an admissible shift', rep)
            continue
        m = [int(x) for x in nn]
        e2 = _dot(e, e)
        # clause 2: not longer than any of the 27 candidates
        c2 = [(c, _dot(t, t)) for c in cands for t in [g.image(d0, c)]]
        cbest = min(c2, key=lambda x: x[1])
        slack = 0 if exact else int((8 * (math.sqrt(e2) / g.D + delta) * delta) * g.D * g.D) + 1
        if e2 > cbest[1] + slack:
            ctx.violate('min27', f'dvect({p0s[k]}, {p1s[k]}) pbc={pbc} has squared length {e2 / g.D ** 2}, candidate shift '
                        f'{cbest[0]} has {cbest[1] / g.D ** 2}', rep)
        # clause 3: scalar distance = length of the vector
        m2 = Fraction(e2, g.D * g.D)
        okm = _sqrt_ok(dm[k], m2) if exact else abs(float(dm[k]) - math.sqrt(float(m2))) <= 2 * delta + 2.0 ** -50 * float(dm[k])
        if not okm:
            ctx.violate('dmag-vs-dvect', f'dmag({p0s[k]}, {p1s[k]}) = {float(dm[k])!r} but |dvect| = {math.sqrt(float(m2))!r}', rep)
        # clause 5: true nearest image
        if not any(pbc):
            continue
        inside = g.in_cell(P0) and g.in_cell(P1)
        res = g.nearest(d0, e, m, pbc)
        if res is None:
            stats['enumeration_skipped'] += 1
            continue
        best, arg, total = res
        stats['lattice_points_enumerated'] += total
        ortho = g.orthogonal()
        narrow = g.width2_ok(best, pbc)
        if inside and (ortho or narrow):
            stats['true_nearest_claimed'] += 1
            stats['claimed_ortho' if ortho else 'claimed_width'] += 1
            if e2 > best + slack:
                ctx.violate('true-nearest', f'points in the cell ({"orthogonal cell" if ortho else "nearest image below half the smallest width"}), '
                            f'dvect({p0s[k]}, {p1s[k]}) pbc={pbc} = {dv[k].tolist()} (|.|^2 = {e2 / g.D ** 2}) but the image with '
                            f'n = {list(arg)} has |.|^2 = {best / g.D ** 2}', rep)
        elif inside:
            stats['inside_no_claim'] += 1
            if e2 > best:
                stats['inside_no_claim_not_nearest'] += 1
        elif e2 > best:
            stats['outside_not_nearest'] += 1


def _oracle_case(rng, regime, kind=None, inside=None):
    if regime == 'exact':
        v, o = gen_cell(rng, kind or rng.choice(CELL_KINDS))
        n = rng.randint(1, 5)
        where = inside if inside is not None else rng.choice(['in', 'in', 'face', None])
        p0 = [gen_point(rng, v, o, where) for _ in range(n)]
        p1 = [gen_point(rng, v, o, where) for _ in range(n)]
        if where == 'in' and rng.random() < 0.4:
            # close pairs across the cell boundary: s1 = (s0 + small step) wrapped back into the cell
            p0, p1 = [], []
            for _ in range(n):
                s0 = [rng.randint(0, 8) / 8.0 for _ in range(3)]
                s1 = [((s0[i] + rng.choice([-0.125, 0.0, 0.0, 0.125])) % 1.0) for i in range(3)]
                p0.append(rel_to_cart(s0, v, o))
                p1.append(rel_to_cart(s1, v, o))
        tr = [rng.randint(-64, 64) / 8.0 for _ in range(3)] if rng.random() < 0.5 else None
    else:
        v, o = gen_float_cell(rng)
        n = rng.randint(1, 4)
        lo, hi = (0.0, 1.0) if rng.random() < 0.7 else (-1.0, 2.0)
        pt = lambda: rel_to_cart([rng.uniform(lo, hi) for _ in range(3)], v, o)
        p0, p1 = [pt() for _ in range(n)], [pt() for _ in range(n)]
        tr = None
    pbc = gen_pbc(rng)
    if not any(pbc) and rng.random() < 0.7:
        pbc[rng.randrange(3)] = True
    return {'regime': regime, 'vects': v, 'origin': o, 'pbc': pbc, 'p0': p0, 'p1': p1, 'translate': tr}


def oracle_system(ctx, rng):
    """System.dvect/dmag by index == am.dvect/dmag on the positions with the system's own box and pbc;
    displacement == am.dvect atom by atom under the reference system's cell (all on the real code)."""
    import numpy as np
    import atomman as am
    v0, o0 = gen_cell(rng, rng.choice(CELL_KINDS))
    v1, o1 = gen_cell(rng, rng.choice(CELL_KINDS))
    n = rng.randint(2, 6)
    pos0 = [gen_point(rng, v0, o0) for _ in range(n)]
    pos1 = [gen_point(rng, v1, o1) for _ in range(n)]
    pbc0, pbc1 = gen_pbc(rng), gen_pbc(rng)
    s0 = _mk_system(am, np, v0, o0, pbc0, pos0)
    s1 = _mk_system(am, np, v1, o1, pbc1, pos1)
    case = {'sys0': {'vects': v0, 'origin': o0, 'pbc': pbc0, 'pos': pos0},
            'sys1': {'vects': v1, 'origin': o1, 'pbc': pbc1, 'pos': pos1}}
    i, j = rng.randrange(n), rng.randrange(n)
    ctx.stats.case('oracle:system', (v0, o0, pbc0, pos0, i, j))
    a = np.ravel(s0.dvect(i, j))      # values only: the squeeze is compared by the correspondence
    b = am.dvect(np.array(pos0[i]), np.array(pos0[j]), s0.box, s0.pbc)[0]
    if not np.array_equal(a, b):
        ctx.violate('system-dvect', f'System.dvect({i},{j}) = {a.tolist()} differs from dvect of the two positions with the '
                    f"system's box and pbc = {b.tolist()}", {'op': 'oracle-system', **case, 'i': i, 'j': j})
    a = float(np.ravel(s0.dmag(i, j))[0])
    b = float(am.dmag(np.array(pos0[i]), np.array(pos0[j]), s0.box, s0.pbc)[0])
    c = float(np.sqrt((np.ravel(s0.dvect(i, j)) ** 2).sum()))
    if a != b or abs(a - c) > 4e-16 * max(c, 1e-300) * 4:
        ctx.violate('system-dmag', f'System.dmag({i},{j}) = {a!r}; dmag of the positions = {b!r}; |System.dvect| = {c!r}',
                    {'op': 'oracle-system', **case, 'i': i, 'j': j})
    for ref, sref in (('final', s1), ('initial', s0), (None, None)):
        d = am.displacement(s0, s1, box_reference=ref)
        for k in range(n):
            if sref is None:
                want = np.array(pos1[k]) - np.array(pos0[k])
            else:
                want = am.dvect(np.array(pos0[k]), np.array(pos1[k]), sref.box, sref.pbc)[0]
            if not np.array_equal(d[k], want):
                ctx.violate('displacement', f'displacement(box_reference={ref!r}) atom {k}: {d[k].tolist()} but the separation of '
                            f'the two positions under that cell is {want.tolist()}',
                            {'op': 'oracle-system', **case, 'ref': ref, 'atom': k})
                break


def search(ctx, broken):
    rng = random.Random(ctx.seed * 7919 + 17)
    mult = 3 if broken else 1
    stats = {k: 0 for k in ('pairs', 'true_nearest_claimed', 'claimed_ortho', 'claimed_width', 'inside_no_claim',
                            'inside_no_claim_not_nearest', 'outside_not_nearest', 'enumeration_skipped',
                            'lattice_points_enumerated')}
    plan = []
    N = ctx.n(1500, 25000) * mult
    for it in range(N):
        kind = CELL_KINDS[it % len(CELL_KINDS)]
        plan.append(_oracle_case(rng, 'exact', kind, inside='in' if it % 3 else None))
    for it in range(ctx.n(400, 6000) * mult):
        plan.append(_oracle_case(rng, 'tol'))
    for case in plan:
        ctx.stats.case('oracle:' + case['regime'], (case['vects'], case['origin'], case['pbc'], case['p0'], case['p1']),
                       nontrivial=any(case['pbc']))
        oracle_pairs(ctx, case, stats)
    for _ in range(ctx.n(300, 4000) * mult):
        oracle_system(ctx, rng)
    ctx.extra['oracle'] = stats
    if stats['inside_no_claim_not_nearest']:
        ctx.notes.append(f"{stats['inside_no_claim_not_nearest']} in-cell pairs in strongly tilted cells where the 27-candidate "
                         'result is not the true nearest image (outside both regimes of the property: no claim, see the '
                         'sharpness example in Proofs/C02.lean)')


# ----------------------------------------------------------------------------------------
def replay(ctx, payload):
    r = payload.get('replay', {})
    if r.get('op') == 'oracle':
        stats = {k: 0 for k in ('pairs', 'true_nearest_claimed', 'claimed_ortho', 'claimed_width', 'inside_no_claim',
                                'inside_no_claim_not_nearest', 'outside_not_nearest', 'enumeration_skipped',
                                'lattice_points_enumerated')}
        oracle_pairs(ctx, r['case'], stats)
        print('replay oracle:', 'still fails' if ctx.violations else 'passes now', stats)
        return
    cases = []
    if 'case' in r:
        cases = [r['case']]
    elif payload.get('disagreements'):
        cases = [d['case'] for d in payload['disagreements'] if isinstance(d, dict) and 'case' in d]
    if cases and ctx.driver is not None:
        nb = run_cases(ctx, cases)
        print(f'replay: {len(cases)} stored case(s), {nb} disagreement(s) between implementation and model')
        for c in cases:
            if c['op'] == 'arr' and c['pos0'] and c['pos1'] and len(c['pos0']) == len(c['pos1']):
                oracle_pairs(ctx, {'regime': c['regime'], 'vects': c['vects'], 'origin': c['origin'], 'pbc': c['pbc'],
                                   'p0': c['pos0'], 'p1': c['pos1']}, {k: 0 for k in (
                                       'pairs', 'true_nearest_claimed', 'claimed_ortho', 'claimed_width', 'inside_no_claim',
                                       'inside_no_claim_not_nearest', 'outside_not_nearest', 'enumeration_skipped',
                                       'lattice_points_enumerated')})
    else:
        search(ctx, True)


MANIFEST = {
    'text': 'The loops of dvect.pyx/dmag.pyx are modelled in Lean (same candidate order, strict <) and proved, for every '
            'linearly ordered field, to return the direct separation shifted by n.vects with n_i in {-1,0,1} and n_i = 0 on '
            'non-periodic axes, never longer than any of the <=27 candidates, with dmag^2 = |dvect|^2, first-shortest tie '
            'rule and translation invariance; displacement is that separation atom by atom under the selected cell. For '
            'both points in the closed cell the result is the true nearest image over ALL integer shifts when the cell '
            'vectors are mutually orthogonal (any orientation), and, for any cell with det != 0, whenever some image is '
            'shorter than half the smallest perpendicular width of the periodic axes (that image is then unique, is one of '
            'the 27 candidates and is exactly what dvect returns). The finite lattice radius used by the search oracle is a '
            'theorem. The model is tied to the compiled code by an exact (bit for bit on a dyadic grid) correspondence run '
            'over am.dvect, am.dmag, System.dvect/dmag (index/slice/list/position dispatch, squeeze) and am.displacement.',
    'note': 'Trusted: Lean kernel + propext/Classical.choice/Quot.sound; the correspondence harness and its derived '
            'tolerance (2^-48 * input scale, tie margin computed by the model); numpy indexing/broadcast/sqrt. Floating '
            'point rounding is modelled, not verified. Undefined behaviour of the unchecked memoryview for non-(n,3) '
            'input is outside the model.',
    'technique': 'Lean 4 theorems over a hand-written executable model + differential correspondence + exact lattice oracle',
}
