"""C05 — System.wrap and System.normalize / atomman.lammps.normalize.

Tie: correspondence.  The hand-written Lean model (lean/Atomman/C05.lean: `wrap`, `normalize?`;
lean/Atomman/C05_Hist.lean: the object with its cached reciprocal vectors, the clean-up of the `vects`
setter, histories of operations) is run by the compiled driver on exactly the rational inputs the real
code saw; image flags are compared exactly, positions/box exactly in the grid regime and within a derived
rounding bound elsewhere.  Besides single calls, *histories on ONE System object* are compared step by
step (model restarted from the implementation's own state before each step, so the only thing a history
can add is hidden state of the implementation — which the theorems say must not exist).
Search: the clauses of the property evaluated on the real code with fractions.Fraction, on single calls
and at every wrap / normalize of such histories.
"""
from __future__ import annotations

import math
import random
from fractions import Fraction as F

from .. import common as cm

PROP = 'C05'
THEOREMS = [
    'C05.wrap_reconstruct', 'C05.wrap_inside', 'C05.wrap_periodic_axes_fixed', 'C05.wrap_idem',
    'C05.flip_same_points', 'C05.abcBox_spec', 'C05.normalize_lammps_normal', 'C05.normalize_gram',
    'C05.gram_eq_rotation', 'C05.normalize_proper_rotation', 'C05.normalize_inside',
    'C05.dist_depends_on_gram', 'C05.normalize_rel_mod_one', 'C05.normalize_image_distances',
    'C05.normalize_distance_spectrum', 'C05.sqrt_args_closed_form', 'C05.isFloor_ratFloor', 'C05.sqrtOK_real',
    # object-level state (cached reciprocal vectors) and histories
    'C05.wrapWith_recip', 'C05.recip_spec', 'C05.getSpos_spec', 'C05.boxSet_spec', 'C05.wrapC_spec',
    'C05.rebuild_spec', 'C05.normalizeC_spec', 'C05.stepC_erase', 'C05.runC_erase', 'C05.runC_cache_irrelevant',
    'C05.coherent_fresh', 'C05.hist_wrap_reconstruct', 'C05.hist_wrap_inside', 'C05.normalizeS_eq_normalize',
    'C05.hist_normalize', 'C05.zeroSmall_eq_self', 'C05.maxAbs_zeroSmall', 'C05.zeroSmall_idem', 'C05.clean_stepC',
    'C05.clean_runC', 'C05.hist_wrap_full',
]
PARTIAL = {
    'input_left_as_it_was': 'a heap fact (aliasing/mutation), true by construction of the functional model and '
                            'therefore not a theorem; checked on the implementation in every run by a bitwise '
                            'snapshot of the input system and numpy.shares_memory on every per-atom array and the box',
    'lengths_and_angles': 'stated as equality of the Gram matrix (squared lengths, dot products) and of the '
                          'determinant; lengths and angles are sqrt/arccos of these (not formed in the model)',
    'setter_clean_up': 'the "zero out near zero terms" step of the Box.vects setter (components below 1e-9 of the '
                       'largest one are set to 0) is part of the object-level model (zeroSmall) and of the '
                       'correspondence, but the wrap_*/normalize_* theorems are about the functional model without it: '
                       'they transfer to the object under the explicit hypothesis that the clean-up is inactive '
                       '(hist_wrap_inside: hclean; hist_normalize: hc1-hc3; zeroSmall_eq_self says when; for a fully periodic wrap '
                       'the hypothesis is discharged: zeroSmall_idem, clean_runC, hist_wrap_full). Where it is '
                       'active the real code does change a cell vector by up to 1e-9 of the largest component; the '
                       'oracle grants exactly that much and only where a component became exactly 0',
}
RULE = ('wrap: cells = products of dyadic shears/permutations/diagonal powers of two whose numpy inverse is '
        'exact (grid regime: relative coordinates multiples of 1/8 incl. exactly on faces, up to 2^10 cells '
        'outside; flags, positions and unpadded boxes compared exactly) and rotated/left-handed/strongly tilted '
        'float cells (tolerance regime: atoms up to 1e6 cells outside, atoms within 1e-13 of faces; a flag is '
        'exempt only where the model puts the scaled coordinate within 1e-9(1+|s|) of an integer); all 8 pbc '
        'settings, non-zero origins, extra per-atom properties. normalize: the same cell families, fully '
        'periodic plus some partially periodic systems. histories: 2-9 operations on ONE System object drawn from '
        '{read scaled positions, wrap, normalize, box_set(vects=/avect=/lx=.., scale=True/False), Box.set, '
        'box.vects=, box.origin=, pbc=, rebuild from a,b,c,angles} with the new cell = old cell times (1+E), |E| '
        'log-uniform in [1e-13, 3e-2] (isotropic, diagonal, single shear, full, lower-triangular), identical, a fresh '
        'random cell, or (grid) a row permutation/negation/power-of-two scaling/dyadic shear 2^-4..2^-40; atoms tens '
        'to thousands of cells outside (up to 1e6 in the float regime); every step compared with the model restarted '
        'from the implementation state before it, at the bound 32 u kappa (1+|s|) (u=2^-53, kappa=|| |V||V^-1| ||); '
        'histories that stay on the grid are also run as one chain on the object-level model and compared exactly. '
        'distinct = distinct canonical driver line; '
        'non-trivial = at least one atom outside the cell or a left-handed/non-normal cell')
ASSUMPTIONS = [
    'numpy.floor followed by the cast to int is the mathematical floor (parameter `fl` with '
    '(fl s : K) <= s < fl s + 1)',
    'x**0.5 is a positive square root of its argument (parameter `sqrt`, hypothesis SqrtAt: s*s = x and 0 < s '
    'at the five arguments a.a, b.b, c.c, b^2-xy^2, c^2-xz^2-yz^2)',
    'cos(arccos(x)) = x for the cell-angle cosines (the model keeps cosines, never forms angles); the clamp of '
    'vect_angle to [-1,1] is inactive in exact arithmetic (Cauchy-Schwarz)',
    'numpy.linalg.inv is the exact inverse; numpy.linalg.lstsq on a square non-singular system is the exact solve',
    'IEEE double rounding of the implementation: single calls are compared at 1e-9(1+|s|) relative to the cell size; '
    'histories and every oracle clause at the derived bounds |ds| <= 32 u kappa (1+|s|), |dp| <= (32 kappa + 8) u '
    '(1+|s|)|V| + 8u|o| (u = 2^-53, kappa = || |V||V^-1| ||; normalize: 256 u kappa^2, transform: normwise kappa); '
    'the largest fraction of each bound actually used is recorded in the evidence file (bound_used)',
    'the 1e-9-relative "zero out near zero terms" clean-up of the Box.vects setter is modelled in the object-level '
    'model (histories) and ignored by the single-call model (absorbed by its 1e-9 tolerance)',
    'every write of the cell vectors goes through the Box.vects setter (CSys.setVects), which drops the cached '
    'reciprocal vectors: this is the discipline runC_erase needs; the correspondence on histories checks that the '
    'implementation follows it',
    'the cell is non-singular (det vects != 0)',
]
TRUSTED = ['numpy (inner, dot, floor, min/max, inv, lstsq) inside the implementation run',
           'rational square root of the driver (Nat.sqrt, error < 2^-160)']

TOL = 1e-9

# Derived rounding bounds for IEEE double evaluation (u = 2^-53), used wherever a history is compared.
#   scaled coordinate   s = inner(p - o, inv(V).T):  |ds| <= CS u kappa (1 + |s|)     kappa = || |V| |V^-1| ||
#   rebuilt position    p' = (s - f) V + o:          |dp| <= (CS kappa + 8) u (1 + |s|) |V| + 8 u |o|
# CS = 32 is ten times the largest ratio observed over 10^5 random cells/atoms up to 10^6 cells outside
# (2.9, reached for orthogonal cells where only the roundings of p - o and of s itself contribute).
U = 2.0 ** -53
CS = 32.0
# normalize adds sqrt / arccos / cos / division of the cell parameters and a least-squares solve
CN = 256.0


# ----------------------------------------------------------------------------------------
# exact 3x3 helpers
# ----------------------------------------------------------------------------------------
def _fm(V):
    return [[F(float(x)) for x in r] for r in V]


def _fv(v):
    return [F(float(x)) for x in v]


def _det(m):
    return (m[0][0] * (m[1][1] * m[2][2] - m[1][2] * m[2][1])
            - m[0][1] * (m[1][0] * m[2][2] - m[1][2] * m[2][0])
            + m[0][2] * (m[1][0] * m[2][1] - m[1][1] * m[2][0]))


def _inv(m):
    d = _det(m)
    cof = [[None] * 3 for _ in range(3)]
    for i in range(3):
        for j in range(3):
            mm = [[m[a][b] for b in range(3) if b != j] for a in range(3) if a != i]
            cof[i][j] = (-1) ** (i + j) * (mm[0][0] * mm[1][1] - mm[0][1] * mm[1][0])
    return [[cof[j][i] / d for j in range(3)] for i in range(3)]


def _vm(s, M):
    """row vector times matrix."""
    return [s[0] * M[0][j] + s[1] * M[1][j] + s[2] * M[2][j] for j in range(3)]


def _mm(A, B):
    return [_vm(r, B) for r in A]


def _tr(A):
    return [[A[j][i] for j in range(3)] for i in range(3)]


def _gram(V):
    return _mm(V, _tr(V))


def _rel(p, V, Vinv, o):
    return _vm([p[k] - o[k] for k in range(3)], Vinv)


def _nearint(x: F):
    return math.floor(x + F(1, 2))


def _kappa(Vf):
    """|| |V| |V^-1| || (max column sum): the condition number that governs s = (p - o) V^-1."""
    Vi = _inv(Vf)
    P = _mm([[abs(x) for x in r] for r in Vf], [[abs(x) for x in r] for r in Vi])
    return float(max(sum(P[j][i] for j in range(3)) for i in range(3)))


def _kappa2(Vf):
    """normwise condition number ||V|| ||V^-1|| (row-sum norms): governs the least-squares solve of normalize."""
    Vi = _inv(Vf)
    return float(max(sum(abs(x) for x in r) for r in Vf) * max(sum(abs(x) for x in r) for r in Vi))


CLEAN = 1e-9 * (1 + 1e-6)      # the "zero out near zero terms" threshold of the Box.vects setter (relative to max|vects|)


def _es(kap, smax, c=CS):
    return c * U * kap * (1.0 + smax)


def _ep(kap, smax, nV, omax, c=CS):
    return (c * kap + 8.0) * U * (1.0 + smax) * nV + 8.0 * U * omax


def _er(kap, smax, omax, rinv, c=CS):
    """bound, in cell units, on a rebuilt position: the error of s plus the roundings of s V + o seen through V^-1."""
    return (c + 8.0) * U * kap * (1.0 + smax) + 8.0 * U * omax * rinv


def _colsum(Vi):
    return float(max(sum(abs(Vi[j][k]) for j in range(3)) for k in range(3)))


MARGIN = {}        # clause -> largest observed (error / bound) on this run; reported in the evidence file


def _over(name, err, bound):
    """is `err` beyond `bound`?  Also records how much of the bound was used."""
    err = float(err)
    if bound > 0:
        r = err / bound
        if r > MARGIN.get(name, 0.0):
            MARGIN[name] = r
    return err > bound


# ----------------------------------------------------------------------------------------
# building systems
# ----------------------------------------------------------------------------------------
def _props(n):
    import numpy as np
    return {'atype': np.array([1 + 2 * ((i * 7) % 2) for i in range(n)]),       # types 1 and 3: a gap
            'charge': np.array([0.25 * i - 1.0 for i in range(n)]),
            'spin': np.array([[i + 0.5, -i, 2.0 * i] for i in range(n)]),
            'tag': np.array([100 + 3 * i for i in range(n)], dtype=int)}


def _build(case):
    import numpy as np
    import atomman as am
    pos = np.array(case['pos'], dtype=float).reshape(-1, 3)
    pr = _props(len(pos))
    atoms = am.Atoms(atype=pr['atype'], pos=pos.copy(), charge=pr['charge'].copy(), spin=pr['spin'].copy(),
                     tag=pr['tag'].copy())
    box = am.Box(vects=np.array(case['vects'], dtype=float), origin=np.array(case['origin'], dtype=float))
    return am.System(atoms=atoms, box=box, pbc=tuple(bool(p) for p in case['pbc']), symbols=('Al', None, 'Cu'))


def _raw_vects(box):
    return getattr(box, '_Box__vects', None)


def _snap(system):
    d = {k: system.atoms.view[k].copy() for k in system.atoms.view.keys()}
    return {'vects': system.box.vects.copy(), 'origin': system.box.origin.copy(), 'pbc': tuple(system.pbc),
            'symbols': tuple(system.symbols), 'natoms': system.natoms, 'props': d}


def _same_snap(a, b, skip=()):
    import numpy as np
    bad = []
    for k in ('vects', 'origin'):
        if k not in skip and not np.array_equal(a[k], b[k]):
            bad.append(k)
    if a['pbc'] != b['pbc']:
        bad.append('pbc')
    if a['symbols'] != b['symbols']:
        bad.append('symbols')
    if a['natoms'] != b['natoms']:
        bad.append('natoms')
    if set(a['props']) != set(b['props']):
        bad.append('property keys')
    for k in a['props']:
        if k in skip or k not in b['props']:
            continue
        if a['props'][k].dtype != b['props'][k].dtype or not np.array_equal(a['props'][k], b['props'][k]):
            bad.append('property ' + k)
    return bad


def _canon_case(case):
    """pass the cell through Box (the setter's clean-up is part of construction, not of wrap)."""
    import numpy as np
    import atomman as am
    box = am.Box(vects=np.array(case['vects'], dtype=float), origin=np.array(case['origin'], dtype=float))
    case['vects'] = box.vects.tolist()
    case['origin'] = box.origin.tolist()
    case['pos'] = [[float(x) for x in p] for p in case['pos']]
    case['pbc'] = [bool(p) for p in case['pbc']]
    return case


def _line(op, case):
    flat = [x for p in case['pos'] for x in p]
    return (f"{op} {' '.join('1' if p else '0' for p in case['pbc'])} {len(case['pos'])} "
            + cm.frs([x for r in case['vects'] for x in r]) + ' ' + cm.frs(case['origin']) + ' ' + cm.frs(flat))


# ----------------------------------------------------------------------------------------
# generators
# ----------------------------------------------------------------------------------------
def _grid_cell(rng):
    """dyadic cell with power-of-two determinant whose numpy inverse is exact (checked)."""
    import numpy as np
    import atomman as am
    for _ in range(200):
        V = np.diag([rng.choice([1, 2, 4, 0.5, 8]) * rng.choice([1, 1, 1, -1]) for _ in range(3)]).astype(float)
        for _ in range(rng.randint(0, 4)):
            i, j = rng.sample(range(3), 2)
            S = np.eye(3)
            S[i, j] = rng.choice([1, -1, 2, -2, 0.5, -0.5, 3, -3, 0.25, 1.5])
            V = S @ V if rng.random() < 0.5 else V @ S
        if rng.random() < 0.3:
            V = V[rng.sample(range(3), 3)]
        if np.abs(V).max() > 64:
            continue
        Vf = _fm(V)
        R = am.Box(vects=V).reciprocal_vects
        want = _tr(_inv(Vf))
        if all(F(float(R[i][j])) == want[i][j] for i in range(3) for j in range(3)):
            return V
    raise cm.InfraError('no exactly invertible grid cell found')


def _grid_case(rng, pbc, n=None):
    V = _grid_cell(rng)
    o = [0.0, 0.0, 0.0] if rng.random() < 0.3 else [cm.dyadic(rng, -8, 8, 2) for _ in range(3)]
    n = n or rng.randint(1, 8)
    Vf, of = _fm(V), _fv(o)
    pos = []
    for _ in range(n):
        s = []
        for _k in range(3):
            r = rng.random()
            if r < 0.35:
                s.append(F(rng.randint(-24, 32), 8))                       # multiples of 1/8 in [-3, 4]
            elif r < 0.65:
                s.append(F(rng.choice([0, 1, 0, 1, -1, 2, -2, 3])))         # exactly on a face / lattice plane
            elif r < 0.85:
                s.append(F(rng.randint(1, 7), 8))                          # inside
            else:
                s.append(rng.choice([-1, 1]) * F(2 ** rng.randint(3, 10)) + F(rng.randint(0, 8), 8))  # far out
        p = [a + b for a, b in zip(_vm(s, Vf), of)]
        pf = [float(x) for x in p]
        assert all(F(a) == b for a, b in zip(pf, p))
        pos.append(pf)
    return _canon_case({'vects': V.tolist(), 'origin': o, 'pbc': list(pbc), 'pos': pos, 'regime': 'grid'})


def _rotation(rng):
    import numpy as np
    q = np.array([rng.gauss(0, 1) for _ in range(4)])
    q /= np.linalg.norm(q)
    w, x, y, z = q
    return np.array([[1 - 2 * (y * y + z * z), 2 * (x * y - z * w), 2 * (x * z + y * w)],
                     [2 * (x * y + z * w), 1 - 2 * (x * x + z * z), 2 * (y * z - x * w)],
                     [2 * (x * z - y * w), 2 * (y * z + x * w), 1 - 2 * (x * x + y * y)]])


def _float_cell(rng):
    """triclinic cell from a,b,c and a realisable angle triple; rotated / left-handed / strongly tilted."""
    import numpy as np
    kind = rng.choice(['normal', 'rotated', 'rotated', 'left', 'left', 'tilted', 'tilted-left', 'ortho'])
    while True:
        a, b, c = (math.exp(rng.uniform(0.0, 2.5)) for _ in range(3))
        if kind == 'ortho':
            al = be = ga = 90.0
        else:
            al, be, ga = (rng.uniform(50, 130) for _ in range(3))
        ca, cb, cg = (math.cos(math.radians(t)) for t in (al, be, ga))
        if 1 - ca * ca - cb * cb - cg * cg + 2 * ca * cb * cg > 0.1:
            break
    lx = a
    xy = b * cg
    xz = c * cb
    ly = math.sqrt(b * b - xy * xy)
    yz = (b * c * ca - xy * xz) / ly
    lz = math.sqrt(c * c - xz * xz - yz * yz)
    V = np.array([[lx, 0, 0], [xy, ly, 0], [xz, yz, lz]])
    if kind.startswith('tilted'):
        V[1] += rng.choice([-2, -1, 1, 2]) * V[0]
        V[2] += rng.choice([-2, -1, 1, 2]) * V[0] + rng.choice([-1, 0, 1]) * V[1]
    if kind != 'normal' and kind != 'ortho':
        V = V @ _rotation(rng).T
    if kind in ('left', 'tilted-left'):
        w = rng.randint(0, 2)
        if w == 0:
            V[rng.randint(0, 2)] *= -1
        elif w == 1:
            i, j = rng.sample(range(3), 2)
            V[[i, j]] = V[[j, i]]
        else:
            V = -V
    return V, kind


def _float_case(rng, pbc, n=None, far=True, faces=True):
    import numpy as np
    V, kind = _float_cell(rng)
    o = np.zeros(3) if rng.random() < 0.25 else np.array([rng.uniform(-10, 10) for _ in range(3)])
    n = n or rng.randint(1, 10)
    S = []
    for _ in range(n):
        s = []
        for k in range(3):
            r = rng.random()
            if r < 0.5:
                s.append(rng.uniform(-2, 3))
            elif r < 0.7:
                s.append(rng.uniform(0.05, 0.95))
            elif r < 0.85 and faces:
                s.append(rng.choice([0, 1, -1, 2]) + rng.choice([0, 1e-13, -1e-13, 3e-16]))
            elif far:
                # far outside: unrestricted along periodic directions, moderate along padded ones
                s.append(rng.choice([-1, 1]) * 10 ** rng.uniform(1, 6 if pbc[k] else 3))
            else:
                s.append(rng.uniform(-1, 2))
        S.append(s)
    pos = np.array(S) @ V + o
    return _canon_case({'vects': V.tolist(), 'origin': o.tolist(), 'pbc': list(pbc), 'pos': pos.tolist(),
                        'regime': 'float', 'kind': kind})


PBCS = [(bool(i & 4), bool(i & 2), bool(i & 1)) for i in range(8)]


# ----------------------------------------------------------------------------------------
# correspondence
# ----------------------------------------------------------------------------------------
def _sections(out):
    return [sec.split() for sec in out.split(' | ')]


def _chunks3(xs):
    return [xs[i:i + 3] for i in range(0, len(xs), 3)]


def _normV(V):
    return max(sum(abs(float(x)) for x in r) for r in V) * 3


def _impl_err(e):
    if isinstance(e, AssertionError):
        return 'err:assert'
    if isinstance(e, (ValueError,)) or type(e).__name__ == 'LinAlgError':
        return 'err:value'
    return 'err:' + type(e).__name__


def _nontrivial(case, spos):
    return any(not (0 <= x < 1) for s in spos for x in s) or case.get('kind') not in (None, 'normal', 'ortho')


def _compare_positions(case, key, ctx, impl_pos, model_pos, spos, exempt, latt, grid):
    """atoms with an exempt axis may differ by one lattice vector along that axis; others must agree."""
    nV = _normV(case['vects'])
    for i, (ip, mp) in enumerate(zip(impl_pos, model_pos)):
        tol = TOL * (1 + max(abs(float(x)) for x in spos[i])) * nV + TOL * max(abs(x) for x in case['origin'])
        if not exempt[i]:
            ok = all(F(float(a)) == b for a, b in zip(ip, mp)) if grid else \
                all(abs(float(a) - float(b)) <= tol for a, b in zip(ip, mp))
        else:
            d = [F(float(a)) - b for a, b in zip(ip, mp)]
            c = _vm(d, latt)            # difference in units of the (new) cell vectors
            ok = all((abs(float(c[k] - _nearint(c[k]))) <= 1e-6 and abs(_nearint(c[k])) <= (1 if k in exempt[i] else 0))
                     for k in range(3))
        if not ok:
            ctx.disagree(key + ':positions', f'{key}: atom {i} at {list(map(float, ip))}, model {list(map(float, mp))}',
                         {'op': key, 'case': case, 'atom': i})
            return False
    return True


def _corr_wrap(ctx, cases):
    import numpy as np
    outs = ctx.driver.ask_many([_line('wrap', c) for c in cases])
    for case, out in zip(cases, outs):
        grid = case['regime'] == 'grid'
        system = _build(case)
        before = _snap(system)
        try:
            flags = system.wrap(return_imageflags=True)
            impl_err = None
        except Exception as e:  # noqa
            impl_err = _impl_err(e)
        if out.startswith('err:') or impl_err:
            ctx.stats.case('wrap:error', _line('wrap', case), nontrivial=False)
            if out != impl_err:
                ctx.disagree('wrap:error', f'wrap: implementation {impl_err or "succeeds"}, model {out if out.startswith("err:") else "succeeds"}',
                             {'op': 'wrap', 'case': case})
            continue
        sec = _sections(out)
        mbox = [F(t) for t in sec[0]]
        mpos = _chunks3([F(t) for t in sec[1]])
        mflags = _chunks3([int(t) for t in sec[2]])
        spos = _chunks3([F(t) for t in sec[3]])
        ctx.stats.case('wrap:' + case['regime'] + ':' + ''.join('p' if p else 'f' for p in case['pbc']),
                       _line('wrap', case), nontrivial=_nontrivial(case, spos),
                       sample={'op': 'wrap', 'case': case, 'model_flags': mflags})
        pbc = case['pbc']
        # exemptions (tolerance regime only): scaled coordinate within the bound of an integer
        exempt = []
        for s in spos:
            ex = set()
            if not grid:
                for k in range(3):
                    if pbc[k] and abs(float(s[k] - _nearint(s[k]))) <= TOL * (1 + abs(float(s[k]))):
                        ex.add(k)
            exempt.append(ex)
        box_exempt = False
        if not grid:
            for k in range(3):
                if not pbc[k]:
                    mn = min(s[k] for s in spos)
                    mx = max(s[k] for s in spos)
                    if abs(float(mn)) <= TOL * (1 + abs(float(mn))) or abs(float(mx) - 1) <= TOL * (1 + abs(float(mx))):
                        box_exempt = True
        ctx.extra['exempt_flags'] = ctx.extra.get('exempt_flags', 0) + sum(len(e) for e in exempt)
        ctx.extra['exempt_boxes'] = ctx.extra.get('exempt_boxes', 0) + int(box_exempt)
        key = 'wrap'
        replay = {'op': 'wrap', 'case': case}
        # flags: exact
        fl = np.asarray(flags)
        if fl.shape != (len(spos), 3) or not np.issubdtype(fl.dtype, np.integer):
            ctx.disagree('wrap:flags-shape', f'image flags have shape {fl.shape} dtype {fl.dtype}', replay)
            continue
        bad = [(i, k) for i in range(len(spos)) for k in range(3)
               if int(fl[i, k]) != mflags[i][k] and not (k in exempt[i] and abs(int(fl[i, k]) - mflags[i][k]) == 1)]
        if bad:
            i, k = bad[0]
            ctx.disagree('wrap:flags', f'wrap: image flag of atom {i} axis {k} (pbc {pbc}) is {int(fl[i, k])}, model '
                         f'{mflags[i][k]} (scaled coordinate {float(spos[i][k])!r})', replay)
            continue
        # positions (rebuilt with the OLD box): exempt atoms may differ by one old cell vector
        oldinv = _inv(_fm(case['vects']))
        if not _compare_positions(case, 'wrap', ctx, system.atoms.view['pos'].tolist(), mpos, spos, exempt, oldinv, grid):
            continue
        # box
        if not box_exempt:
            ibox = list(system.box.vects.ravel()) + list(system.box.origin)
            padded = any((not pbc[k]) and (min(s[k] for s in spos) <= 0 or max(s[k] for s in spos) >= 1) for k in range(3))
            if grid and not padded:
                okb = all(F(float(a)) == b for a, b in zip(ibox, mbox))
            else:
                sc = max(abs(float(b)) for b in mbox)
                okb = all(abs(float(a) - float(b)) <= TOL * sc for a, b in zip(ibox, mbox))
            if not okb:
                ctx.disagree('wrap:box', f'wrap (pbc {pbc}): new box {[float(x) for x in ibox]}, model '
                             f'{[float(x) for x in mbox]}', replay)
                continue
        after = _snap(system)
        bad = _same_snap(before, after, skip=('vects', 'origin', 'pos'))
        if bad:
            ctx.disagree('wrap:carried', f'wrap changed {bad}', replay)


def _corr_norm(ctx, cases):
    import numpy as np
    import atomman as am
    outs = ctx.driver.ask_many([_line('norm', c) for c in cases])
    for case, out in zip(cases, outs):
        system = _build(case)
        before = _snap(system)
        replay = {'op': 'norm', 'case': case}
        try:
            new, T = system.normalize(return_transform=True)
            impl_err = None
        except Exception as e:  # noqa
            impl_err = _impl_err(e)
        # "the input system is left as it was": heap fact, checked on the implementation
        bad = _same_snap(before, _snap(system))
        if bad:
            ctx.violate('normalize:input-modified', f'normalize changed its input: {bad}', replay)
            continue
        if out.startswith('err:') or impl_err:
            ctx.stats.case('norm:error', _line('norm', case), nontrivial=False)
            # partially periodic systems whose padding decision is within the bound of a face are exempt
            if out != impl_err and not _norm_raise_exempt(case):
                ctx.disagree('norm:error', f'normalize (pbc {case["pbc"]}): implementation {impl_err or "succeeds"}, '
                             f'model {out if out.startswith("err:") else "succeeds"}', replay)
            continue
        shared = [k for k in new.atoms.view.keys() if np.shares_memory(new.atoms.view[k], system.atoms.view[k])]
        if shared or (_raw_vects(new.box) is not None and np.shares_memory(_raw_vects(new.box), _raw_vects(system.box))):
            ctx.violate('normalize:shares-memory', f'normalized system shares memory with its input: {shared or "box"}',
                        replay)
            continue
        sec = _sections(out)
        mbox = [F(t) for t in sec[0]]
        mpos = _chunks3([F(t) for t in sec[1]])
        mT = [F(t) for t in sec[3]]
        spos = _chunks3([F(t) for t in sec[4]])
        flipped = sec[5] == ['1']
        full = all(case['pbc'])
        ctx.stats.case('norm:' + case.get('kind', case['regime']) + (':full' if full else ':partial'),
                       _line('norm', case), nontrivial=True,
                       sample={'op': 'normalize', 'case': case, 'flipped': flipped})
        # the public function and the method are the same thing
        new2, T2 = am.lammps.normalize(system, return_transform=True)
        if not (np.array_equal(new2.atoms.pos, new.atoms.pos) and np.array_equal(new2.box.vects, new.box.vects)
                and np.array_equal(T2, T)):
            ctx.disagree('norm:entry-points', 'System.normalize and atomman.lammps.normalize differ', replay)
            continue
        pbc = case['pbc']
        # after the rebuild every coordinate is recomputed in floating point: a coordinate the model puts
        # within the bound of an integer is exempt on periodic axes; a partially periodic system whose
        # outermost atom is within the bound of a face has an undecided padding
        exempt, box_exempt = [], False
        for s in spos:
            ex = {k for k in range(3) if pbc[k] and abs(float(s[k] - _nearint(s[k]))) <= TOL * (1 + abs(float(s[k])))}
            exempt.append(ex)
        if not full and _norm_raise_exempt(case, spos):
            box_exempt = True
        ctx.extra['exempt_flags'] = ctx.extra.get('exempt_flags', 0) + sum(len(e) for e in exempt)
        if box_exempt:
            continue
        ibox = list(new.box.vects.ravel()) + list(new.box.origin)
        sc = max(abs(float(b)) for b in mbox)
        if not all(abs(float(a) - float(b)) <= TOL * sc for a, b in zip(ibox, mbox)):
            ctx.disagree('norm:box', f'normalize: new box {[float(x) for x in ibox]}, model {[float(x) for x in mbox]}',
                         replay)
            continue
        if not all(abs(float(a) - float(b)) <= 1e-8 for a, b in zip(T.ravel(), mT)):
            ctx.disagree('norm:transform', f'normalize: transform {T.tolist()}, model {[float(x) for x in mT]}', replay)
            continue
        newinv = _inv([mbox[0:3], mbox[3:6], mbox[6:9]])
        ncase = dict(case, vects=[[float(x) for x in mbox[0:3]], [float(x) for x in mbox[3:6]],
                                  [float(x) for x in mbox[6:9]]], origin=[float(x) for x in mbox[9:12]])
        if not _compare_positions(ncase, 'norm', ctx, new.atoms.view['pos'].tolist(), mpos, spos, exempt, newinv, False):
            continue
        bad = _same_snap(before, _snap(new), skip=('vects', 'origin', 'pos'))
        if bad:
            ctx.disagree('norm:carried', f'normalize did not carry over {bad}', replay)


def _norm_raise_exempt(case, spos=None):
    """partially periodic normalize: is some non-periodic extreme within the bound of a face (of the flipped cell)?"""
    if all(case['pbc']):
        return False
    if spos is None:
        V, o = _fm(case['vects']), _fv(case['origin'])
        if _det(V) < 0:
            o = [a + b for a, b in zip(o, V[2])]
            V = [V[0], V[1], [-x for x in V[2]]]
        Vi = _inv(V)
        spos = [_rel(_fv(p), V, Vi, o) for p in case['pos']]
    for k in range(3):
        if not case['pbc'][k]:
            mn = float(min(s[k] for s in spos))
            mx = float(max(s[k] for s in spos))
            if abs(mn) <= TOL * (1 + abs(mn)) or abs(mx - 1) <= TOL * (1 + abs(mx)):
                return True
    return False


# ----------------------------------------------------------------------------------------
# histories on ONE System object (hidden state: the Box's cached reciprocal vectors)
# ----------------------------------------------------------------------------------------
def _state(system):
    """the visible state of a live system in the form of a case (exact floats)."""
    return {'vects': system.box.vects.tolist(), 'origin': system.box.origin.tolist(),
            'pbc': [bool(p) for p in system.pbc], 'pos': system.atoms.view['pos'].tolist()}


def _inv_exact(V):
    """is numpy's inverse of this cell exact (so that scaled coordinates on the grid are computed exactly)?"""
    import numpy as np
    try:
        R = np.linalg.inv(np.array(V, dtype=float)).T
    except Exception:  # noqa
        return False
    want = _tr(_inv(_fm(V)))
    return all(F(float(R[i][j])) == want[i][j] for i in range(3) for j in range(3))


def _concretize(system, op):
    """turn the recipe of a box operation into the concrete numbers handed to the implementation."""
    import numpy as np
    if op['op'] not in ('boxset', 'setvects'):
        return op
    V, o = system.box.vects, system.box.origin
    if op.get('same'):
        Vn = V
    elif 'left' in op:
        Vn = np.array(op['left'], dtype=float) @ V
    elif 'right' in op:
        Vn = V @ np.array(op['right'], dtype=float)
    else:
        Vn = np.array(op['vects'], dtype=float)
    og = op.get('origin', 'keep')
    if isinstance(og, str) and og == 'default':            # origin not passed: Box.set resets it to (0, 0, 0)
        on = np.zeros(3)
    elif isinstance(og, str) and og == 'follow' and 'right' in op:
        on = o @ np.array(op['right'], dtype=float)
    elif isinstance(og, str):
        on = o
    else:
        on = np.array(og, dtype=float)
    how = op.get('how', 'vects')
    lower = Vn[0, 1] == 0 and Vn[0, 2] == 0 and Vn[1, 2] == 0 and Vn[0, 0] > 0 and Vn[1, 1] > 0 and Vn[2, 2] > 0
    if how == 'lengths' and not lower:
        how = 'avect'
    return dict(op, how=how, V=Vn.tolist(), o=on.tolist())


def _op_line(c):
    k = c['op']
    if k == 'boxset':
        return f"boxset {int(bool(c['scale']))} " + cm.frs([x for r in c['V'] for x in r]) + ' ' + cm.frs(c['o'])
    if k == 'setvects':
        return 'setvects ' + cm.frs([x for r in c['V'] for x in r])
    if k == 'setorigin':
        return 'setorigin ' + cm.frs(c['origin'])
    if k == 'setpbc':
        return 'setpbc ' + ' '.join('1' if p else '0' for p in c['pbc'])
    return k


def _apply(system, c):
    """one operation on the live object; returns what the call hands back."""
    import numpy as np
    k = c['op']
    if k == 'spos':
        return system.atoms_prop('pos', scale=True)
    if k == 'wrap':
        return system.wrap(return_imageflags=True)
    if k == 'norm':
        return system.normalize(return_transform=True)
    if k == 'rebuild':
        b = system.box
        return system.box_set(a=b.a, b=b.b, c=b.c, alpha=b.alpha, beta=b.beta, gamma=b.gamma, scale=True)
    if k == 'setorigin':
        system.box.origin = np.array(c['origin'], dtype=float)
        return None
    if k == 'setpbc':
        system.pbc = tuple(c['pbc'])
        return None
    V, o = np.array(c['V'], dtype=float), np.array(c['o'], dtype=float)
    if k == 'setvects':
        system.box.vects = V
        return None
    how, sc = c['how'], bool(c['scale'])
    kw = {} if c.get('origin') == 'default' else {'origin': o}
    if how == 'vects':
        system.box_set(vects=V, scale=sc, **kw)
    elif how == 'avect':
        system.box_set(avect=V[0], bvect=V[1], cvect=V[2], scale=sc, **kw)
    elif how == 'lengths':
        system.box_set(lx=V[0, 0], ly=V[1, 1], lz=V[2, 2], xy=V[1, 0], xz=V[2, 0], yz=V[2, 1], scale=sc, **kw)
    elif how == 'box.set':                      # only generated with scale False
        system.box.set(vects=V, **kw)
    else:
        raise cm.InfraError('unknown box_set form ' + how)
    return None


def _run_hist(hist):
    """run the history on ONE System object; one record per operation (the run ends at the first exception)."""
    import numpy as np
    system = _build(hist['case'])
    recs = []
    for op in hist['ops']:
        c = _concretize(system, op)
        rec = {'c': c, 'before': _state(system), 'snap0': _snap(system)}
        try:
            rec['obs'] = _apply(system, c)
            if c['op'] == 'norm':
                new = rec['obs'][0]
                rec['shared'] = [kk for kk in new.atoms.view.keys()
                                 if np.shares_memory(new.atoms.view[kk], system.atoms.view[kk])]
                if _raw_vects(new.box) is not None and np.shares_memory(_raw_vects(new.box), _raw_vects(system.box)):
                    rec['shared'].append('box')
        except cm.InfraError:
            raise
        except Exception as e:  # noqa
            rec['err'] = _impl_err(e)
            rec['exc'] = f'{type(e).__name__}: {e}'
        rec['after'] = _state(system)
        rec['snap1'] = _snap(system)
        recs.append(rec)
        if 'err' in rec:
            break
    return system, recs


def _keeps_exact(c, before, after_vects):
    """does this operation keep a grid state on the grid (every float operation of later steps exact)?"""
    k = c['op']
    if k in ('spos', 'norm', 'setpbc'):
        return True
    if k == 'setorigin':
        return bool(c.get('gridkeep'))
    if k == 'wrap':
        return all(before['pbc'])
    if k in ('boxset', 'setvects'):
        if c.get('same'):
            return True
        if c.get('gridkeep') and _inv_exact(after_vects):
            return True
    return False


def _hist_name(hist):
    return '>'.join(o['op'] + ('*' if o.get('scale') else '') for o in hist['ops'])


def _corr_hist(ctx, hists):
    import numpy as np
    runs = []
    lines = []
    for h in hists:
        try:
            system, recs = _run_hist(h)
        except cm.InfraError:
            raise
        runs.append(recs)
        exact = h['case']['regime'] == 'grid'
        chain = exact
        for rec in recs:
            rec['exact'] = exact
            exact = exact and 'err' not in rec and _keeps_exact(rec['c'], rec['before'], rec['after']['vects'])
            lines.append(_line('hist', rec['before']) + ' ; ' + _op_line(rec['c']))
        # a history that stays on the grid is also run as ONE chain on the object-level model
        h['_chain'] = chain and exact and len(recs) == len(h['ops'])
        if h['_chain']:
            lines.append(_line('hist', recs[0]['before']) + ' ; ' + ' ; '.join(_op_line(r['c']) for r in recs))
    outs = iter(ctx.driver.ask_many(lines))
    for h, recs in zip(hists, runs):
        secs = [next(outs) for _ in recs]
        ctx.stats.case('hist:' + h['case']['regime'] + ':' + str(len(h['ops'])), (_hist_name(h), _line('hist', h['case'])),
                       nontrivial=True, sample={'op': 'hist', 'ops': _hist_name(h), 'pbc': h['case']['pbc'],
                                                'natoms': len(h['case']['pos'])})
        ctx.extra['hist_steps'] = ctx.extra.get('hist_steps', 0) + len(recs)
        ok = True
        for k, (rec, sec) in enumerate(zip(recs, secs)):
            try:
                good = _check_step(ctx, h, k, rec, sec)
            except cm.InfraError:
                raise
            except Exception as e:  # noqa  an implementation state the comparison cannot digest is a disagreement
                ctx.disagree('hist:uncomparable', f'history {_hist_name(h)} step {k}: {type(e).__name__}: {e}',
                             {'op': 'hist', 'hist': _pub(h), 'step': k})
                good = False
            if not good:
                ok = False
                break
        if h['_chain']:
            chain = next(outs).split(' ; ')
            ctx.extra['hist_chained'] = ctx.extra.get('hist_chained', 0) + 1
            if ok and chain != [s_ for s_ in secs]:
                # every step agreed exactly with the model started from the implementation's own state, so the
                # chained run of the object-level model (cache carried along) must print the same sections
                bad = next((i for i, (a, b) in enumerate(zip(chain, secs)) if a != b), min(len(chain), len(secs)))
                ctx.disagree('hist:chain', f'history {_hist_name(h)}: the chained model run differs from the step-wise '
                             f'one at step {bad}', {'op': 'hist', 'hist': _pub(h), 'step': bad})


def _pub(h):
    return {'case': h['case'], 'ops': h['ops']}


def _split(sec):
    tag, _, body = sec.partition(' ')
    return tag, [p.split() for p in body.split(' | ')]


def _check_step(ctx, h, k, rec, sec):
    """compare one operation of a history: model started from the implementation's state before the operation."""
    import numpy as np
    c = rec['c']
    name = c['op']
    replay = {'op': 'hist', 'hist': _pub(h), 'step': k}
    label = f'history {_hist_name(h)} step {k} ({name})'
    b, a = rec['before'], rec['after']
    pbc = b['pbc']
    # --- heap facts first: what an operation must not touch -----------------------------------------
    skip = ('vects', 'origin', 'pos') if name in ('wrap', 'boxset', 'rebuild', 'setvects', 'setorigin') else ()
    s0, s1 = rec['snap0'], rec['snap1']
    if name == 'setpbc':
        s0 = dict(s0, pbc=tuple(c['pbc']))
    bad = _same_snap(s0, s1, skip=skip)
    if bad and 'err' not in rec:
        if name == 'norm':
            ctx.violate('normalize:input-modified', f'{label}: normalize changed its input: {bad}', replay)
        else:
            ctx.disagree('hist:carried', f'{label} changed {bad}', replay)
        return False
    # --- failures ------------------------------------------------------------------------------------
    if sec.startswith('E') or sec.startswith('err:') or 'err' in rec:
        merr = {'E assert': 'err:assert', 'E value': 'err:value'}.get(sec.strip(), sec.strip() if sec.startswith('err:') else None)
        ctx.stats.case('hist:error', (label, sec[:40]), nontrivial=False)
        if merr != rec.get('err'):
            if name == 'norm' and _norm_raise_exempt(b):
                return False
            ctx.disagree('hist:error', f'{label}: implementation {rec.get("exc") or "succeeds"}, model '
                         f'{merr or "succeeds"}', replay)
        return False
    tag, parts = _split(sec)
    exact = rec['exact']
    Vf, of = _fm(b['vects']), _fv(b['origin'])
    if _det(Vf) == 0:
        ctx.disagree('hist:singular', f'{label}: the object holds the singular cell {b["vects"]}', replay)
        return False
    kap = _kappa(Vf)
    nV = _normV(b['vects'])
    omax = max(abs(x) for x in b['origin'])
    n = len(b['pos'])

    def dis(key, what):
        ctx.disagree('hist:' + key, f'{label}: {what}', replay)
        return False

    if tag == 'S':
        ms = _chunks3([F(t) for t in parts[0]])
        obs = np.asarray(rec['obs'], dtype=float)
        if obs.shape != (n, 3):
            return dis('spos', f'scaled positions have shape {obs.shape}')
        for i in range(n):
            smax = max(abs(float(x)) for x in ms[i])
            for j in range(3):
                d = abs(F(float(obs[i, j])) - ms[i][j])
                if (exact and d != 0) or _over('corr:spos', d, _es(kap, smax)):
                    return dis('spos', f'scaled coordinate {j} of atom {i} is {float(obs[i, j])!r}, model {float(ms[i][j])!r}')
        return True
    if tag == 'W':
        mbox = [F(t) for t in parts[0]]
        mpos = _chunks3([F(t) for t in parts[1]])
        mflags = _chunks3([int(t) for t in parts[2]])
        spos = _chunks3([F(t) for t in parts[3]])
        fl = np.asarray(rec['obs'])
        if fl.shape != (n, 3) or not np.issubdtype(fl.dtype, np.integer):
            return dis('flags-shape', f'image flags have shape {fl.shape} dtype {fl.dtype}')
        smaxs = [max(abs(float(x)) for x in s) for s in spos]
        exempt = []
        for i, s in enumerate(spos):
            ex = set()
            if not exact:
                for j in range(3):
                    if pbc[j] and abs(float(s[j] - _nearint(s[j]))) <= _es(kap, smaxs[i]):
                        ex.add(j)
            exempt.append(ex)
        ctx.extra['exempt_flags'] = ctx.extra.get('exempt_flags', 0) + sum(len(e) for e in exempt)
        for i in range(n):
            for j in range(3):
                if int(fl[i, j]) != mflags[i][j] and not (j in exempt[i] and abs(int(fl[i, j]) - mflags[i][j]) == 1):
                    return dis('flags', f'image flag of atom {i} axis {j} (pbc {pbc}) is {int(fl[i, j])}, model '
                               f'{mflags[i][j]} (scaled coordinate {float(spos[i][j])!r})')
        oldinv = _inv(Vf)
        for i in range(n):
            ip = [F(float(x)) for x in a['pos'][i]]
            d = [x - y for x, y in zip(ip, mpos[i])]
            if exempt[i]:
                cc = _vm(d, oldinv)
                shift = [(_nearint(cc[j]) if j in exempt[i] else 0) for j in range(3)]
                if any(abs(t) > 1 for t in shift):
                    return dis('positions', f'atom {i} moved by {shift} cells relative to the model')
                d = [x - y for x, y in zip(d, _vm([F(t) for t in shift], Vf))]
            err = max(abs(float(x)) for x in d)
            if (exact and err != 0) or _over('corr:wrap-pos', err, _ep(kap, smaxs[i], nV, omax)):
                return dis('positions', f'atom {i} at {a["pos"][i]}, model {[float(x) for x in mpos[i]]} '
                           f'(flags {fl[i].tolist()})')
        ibox = [F(float(x)) for r in a['vects'] for x in r] + [F(float(x)) for x in a['origin']]
        if all(pbc):
            if ibox != mbox:
                return dis('box', f'fully periodic wrap changed the box to {a["vects"]} origin {a["origin"]}')
        else:
            sall = max(smaxs)
            es = _es(kap, sall)
            undecided = (not exact) and any((not pbc[j]) and (abs(float(min(s[j] for s in spos))) <= es
                                              or abs(float(max(s[j] for s in spos)) - 1) <= es) for j in range(3))
            tolb = (4 * es + 8 * U * (1 + sall)) * nV + 8 * U * omax
            if not undecided and any(_over('corr:wrap-box', abs(x - y), tolb) for x, y in zip(ibox, mbox)):
                return dis('box', f'wrap (pbc {pbc}): new box {[float(x) for x in ibox]}, model {[float(x) for x in mbox]}')
        return True
    if tag == 'B':
        mbox = [F(t) for t in parts[0]]
        mpos = _chunks3([F(t) for t in parts[1]])
        ibox = [F(float(x)) for r in a['vects'] for x in r] + [F(float(x)) for x in a['origin']]
        if name == 'rebuild':
            sc = max(abs(float(x)) for x in mbox[:9])
            if any(_over('corr:rebuild-box', abs(x - y), CN * U * kap * kap * sc) for x, y in zip(ibox, mbox)):
                return dis('box', f'rebuilt box {[float(x) for x in ibox]}, model {[float(x) for x in mbox]}')
        elif ibox != mbox:
            # the clean-up of the setter is decided in exact arithmetic by the model: a term within rounding of the
            # 1e-9 threshold may go either way
            m = max(abs(x) for x in mbox[:9])
            soft = all(x == y or (abs(abs(float((x if x != 0 else y) / m)) - 1e-9) <= 1e-15) for x, y in zip(ibox, mbox))
            if not soft:
                return dis('box', f'box after the operation is {[float(x) for x in ibox]}, model {[float(x) for x in mbox]}')
        scaled = name == 'rebuild' or (name == 'boxset' and c['scale'])
        if not scaled:
            if a['pos'] != b['pos']:
                return dis('positions', 'absolute positions changed although scale is False')
            return True
        nVn = _normV(a['vects'])
        onew = max(abs(x) for x in a['origin'])
        oi = _inv(Vf)
        cn = CN * kap if name == 'rebuild' else CS
        for i in range(n):
            smax = max(abs(float(x)) for x in _rel(_fv(b['pos'][i]), Vf, oi, of))
            err = max(abs(F(float(x)) - y) for x, y in zip(a['pos'][i], mpos[i]))
            if (exact and name != 'rebuild' and (c.get('same') or c.get('gridkeep')) and err != 0) or _over('corr:' + name + '-pos', err, _ep(kap, smax, nVn, onew, cn)):
                return dis('positions', f'atom {i} (relative coordinates held) is at {a["pos"][i]}, model '
                           f'{[float(x) for x in mpos[i]]}')
        return True
    if tag == 'N':
        return _check_norm_step(ctx, h, k, rec, parts, label, replay, kap)
    return dis('protocol', f'unexpected driver reply {sec[:60]!r}')


def _check_norm_step(ctx, h, k, rec, parts, label, replay, kap):
    import numpy as np
    import atomman as am
    b = rec['before']
    pbc = b['pbc']
    n = len(b['pos'])

    def dis(key, what):
        ctx.disagree('hist:norm-' + key, f'{label}: {what}', replay)
        return False

    new, T = rec['obs']
    mbox = [F(t) for t in parts[0]]
    mpos = _chunks3([F(t) for t in parts[1]])
    mT = [F(t) for t in parts[3]]
    spos = _chunks3([F(t) for t in parts[4]])
    full = all(pbc)
    es = [_es(kap, max(abs(float(x)) for x in s), CN * kap) for s in spos]
    exempt = [{j for j in range(3) if pbc[j] and abs(float(s[j] - _nearint(s[j]))) <= es[i]} for i, s in enumerate(spos)]
    ctx.extra['exempt_flags'] = ctx.extra.get('exempt_flags', 0) + sum(len(e) for e in exempt)
    if not full and _norm_raise_exempt(b, spos):
        return True
    ibox = [F(float(x)) for x in new.box.vects.ravel()] + [F(float(x)) for x in new.box.origin]
    sc = max(abs(float(x)) for x in mbox[:9])
    if not full:
        sc *= 1 + max(max(abs(float(x)) for x in s) for s in spos)
    if any(_over('corr:norm-box', abs(x - y), CN * U * kap * kap * sc) for x, y in zip(ibox, mbox)):
        return dis('box', f'normalized box {[float(x) for x in ibox]}, model {[float(x) for x in mbox]}')
    k2 = _kappa2(_fm(b['vects']))
    if any(_over('corr:norm-transform', abs(F(float(x)) - y), CN * U * k2 * k2) for x, y in zip(T.ravel(), mT)):
        return dis('transform', f'transform {T.tolist()}, model {[float(x) for x in mT]}')
    N = [mbox[0:3], mbox[3:6], mbox[6:9]]
    Ni = _inv(N)
    nVn = _normV([[float(x) for x in r] for r in N])
    newpos = new.atoms.view['pos'].tolist()
    for i in range(n):
        d = [F(float(x)) - y for x, y in zip(newpos[i], mpos[i])]
        if exempt[i]:
            cc = _vm(d, Ni)
            shift = [(_nearint(cc[j]) if j in exempt[i] else 0) for j in range(3)]
            if any(abs(t) > 1 for t in shift):
                return dis('positions', f'atom {i} moved by {shift} cells relative to the model')
            d = [x - y for x, y in zip(d, _vm([F(t) for t in shift], N))]
        smax = max(abs(float(x)) for x in spos[i])
        if _over('corr:norm-pos', max(abs(float(x)) for x in d), _ep(kap, smax, nVn, 0.0, CN * kap)):
            return dis('positions', f'atom {i} at {newpos[i]}, model {[float(x) for x in mpos[i]]}')
    bad = _same_snap(rec['snap0'], _snap(new), skip=('vects', 'origin', 'pos'))
    if bad:
        return dis('carried', f'normalize did not carry over {bad}')
    if rec.get('shared'):
        ctx.violate('normalize:shares-memory', f'{label}: normalized system shares memory with its input: {rec["shared"]}',
                    replay)
        return False
    return True


# ---- generators of histories ---------------------------------------------------------------------
def _far_atoms(rng, case, lo=1.0, hi=3.7):
    """add atoms tens to thousands of cells outside along periodic directions (moderately along the others)."""
    import numpy as np
    V = np.array(case['vects'])
    o = np.array(case['origin'])
    grid = case['regime'] == 'grid'
    extra = []
    for _ in range(rng.randint(1, 3)):
        s = []
        for k in range(3):
            if rng.random() < 0.3:
                s.append(rng.randint(1, 7) / 8 if grid else rng.uniform(0.05, 0.95))
            else:
                m = 10 ** rng.uniform(lo, hi if case['pbc'][k] else min(hi, 2.0))
                if not grid and all(case['pbc']) and rng.random() < 0.08:
                    m = 10 ** rng.uniform(6, 14)           # "arbitrarily far": beyond the int32 range of image flags
                s.append(rng.choice([-1, 1]) * (float(int(m)) + rng.randint(0, 7) / 8 if grid else m))
        extra.append((np.array(s) @ V + o).tolist())
    case['pos'] = case['pos'] + extra
    return _canon_case(case)


def _strain(rng, lower=False):
    """I + E with |E| log-uniform from far below the rounding level to a few percent."""
    import numpy as np
    eps = rng.choice([-1, 1]) * 10 ** rng.uniform(-13, -1.5)
    kind = rng.choice(['iso', 'diag', 'shear', 'full', 'lower'])
    E = np.zeros((3, 3))
    if kind == 'iso':
        E = eps * np.eye(3)
    elif kind == 'diag':
        E = np.diag([eps * rng.uniform(-1, 1) for _ in range(3)])
    elif kind == 'shear':
        i, j = rng.sample(range(3), 2)
        if lower and j > i:
            i, j = j, i
        E[i, j] = eps
    else:
        E = eps * np.array([[rng.uniform(-1, 1) for _ in range(3)] for _ in range(3)])
        if kind == 'lower' or lower:
            E = np.tril(E)
    return (np.eye(3) + E).tolist()


def _box_op(rng, regime, kind, far=False):
    import numpy as np
    scale = rng.random() < 0.55
    how = rng.choice(['vects', 'vects', 'avect', 'lengths'] + ([] if scale else ['box.set']))
    if regime == 'grid':
        r = rng.random()
        og = rng.choice(['keep', 'keep', 'keep', 'default'])
        if r < 0.2:
            return {'op': 'boxset', 'same': True, 'scale': scale, 'how': how, 'origin': og}
        if r < 0.55:
            # row permutation / negation / power-of-two scaling: the state stays on the grid (handedness may flip)
            M = np.eye(3)
            t = rng.random()
            if t < 0.35:
                M = M[rng.sample(range(3), 3)]
            elif t < 0.6:
                M[rng.randint(0, 2)] *= -1
            else:
                M = np.diag([rng.choice([1, 2, 0.5, 1, 4]) for _ in range(3)]).astype(float)
            return {'op': 'boxset', 'left': M.tolist(), 'scale': scale, 'how': how, 'gridkeep': True, 'origin': og}
        # small dyadic shear / stretch: exactly representable input, tiny change of the cell
        M = np.eye(3)
        e = rng.choice([-1, 1]) * 2.0 ** -rng.choice([4, 12, 17, 20, 24, 27, 30, 34, 40])
        if rng.random() < 0.5:
            i, j = rng.sample(range(3), 2)
            M[i, j] = e
        else:
            M[rng.randint(0, 2), ] *= (1 + e)
        return {'op': 'boxset', 'left': M.tolist(), 'scale': scale, 'how': how}
    r = rng.random()
    if r < 0.08:
        return {'op': 'boxset', 'same': True, 'scale': scale, 'how': how}
    if r < 0.16:
        V, _ = _float_cell(rng)
        if far and not scale:        # a fresh cell under fixed Cartesian positions would turn "far along a periodic
            scale, how = True, 'vects'   # axis" into "far along any axis" (see the note at setpbc below)
        return {'op': 'boxset', 'vects': V.tolist(), 'scale': scale, 'how': how,
                'origin': [rng.uniform(-10, 10) for _ in range(3)]}
    lower = kind in ('normal', 'ortho') and rng.random() < 0.7
    og = rng.choice(['keep', 'keep', 'follow', 'default'])
    if rng.random() < 0.15:
        return {'op': 'setvects', 'right': _strain(rng, lower)}
    return {'op': 'boxset', 'right': _strain(rng, lower), 'scale': scale, 'how': how if lower else
            ('avect' if how == 'lengths' else how), 'origin': og}


def _gen_hist(rng, regime):
    pbc = (True, True, True) if rng.random() < 0.75 else rng.choice(PBCS)
    case = _grid_case(rng, pbc, n=rng.randint(1, 5)) if regime == 'grid' else \
        _float_case(rng, pbc, n=rng.randint(1, 6), far=rng.random() < 0.3)
    if rng.random() < 0.8:
        case = _far_atoms(rng, case, hi=3.0 if regime == 'grid' else 3.7)
    kind = case.get('kind')
    ops = []
    import numpy as np
    srel = np.abs(np.linalg.solve(np.array(case['vects']).T, (np.array(case['pos']) - np.array(case['origin'])).T).T)
    far = bool(srel.max() > 100.0)
    free = [not far] * 3       # (a strain under fixed Cartesian positions mixes the axes along which an atom is far)
    # opening: the cache is warmed (or not) before the cell is touched
    first = rng.choice(['spos', 'wrap', 'norm', None, 'spos', 'wrap'])
    if first:
        ops.append({'op': first})
    for _ in range(rng.randint(1, 4)):
        r = rng.random()
        if r < 0.45:
            ops.append(_box_op(rng, regime, kind, far))
        elif r < 0.55:
            ops.append({'op': 'spos'})
        elif r < 0.75:
            ops.append({'op': 'wrap'})
        elif r < 0.87:
            ops.append({'op': 'norm'})
        elif r < 0.91 and regime != 'grid':
            ops.append({'op': 'rebuild'})
        elif r < 0.95:
            ops.append({'op': 'setorigin', 'gridkeep': regime == 'grid',
                        'origin': [cm.dyadic(rng, -8, 8, 2) for _ in range(3)] if regime == 'grid'
                        else [rng.uniform(-10, 10) for _ in range(3)]})
        else:
            # an axis is only freed when no atom is far out along it: lengthening a cell vector by more than 1e9
            # makes the clean-up of the Box.vects setter zero the other vectors (singular cell, see docs/C05.md)
            ops.append({'op': 'setpbc', 'pbc': [bool(p or not free[k]) for k, p in enumerate(rng.choice(PBCS))]})
    if not any(o['op'] in ('boxset', 'setvects') for o in ops):
        ops.insert(rng.randint(1 if first else 0, len(ops)), _box_op(rng, regime, kind, far))
    # closing: look at the object again
    ops.append({'op': rng.choice(['wrap', 'wrap', 'norm', 'spos'])})
    if rng.random() < 0.5:
        ops.append({'op': rng.choice(['wrap', 'norm'])})
    return {'case': case, 'ops': ops}


def correspond(ctx):
    rng = ctx.rng
    N = ctx.n(25, 400)
    wrap_cases = []
    for it in range(N):
        for pbc in PBCS:
            wrap_cases.append(_grid_case(rng, pbc))
            if it % 2 == 0:
                wrap_cases.append(_float_case(rng, pbc))
    _corr_wrap(ctx, wrap_cases)
    norm_cases = []
    for it in range(ctx.n(120, 2000)):
        norm_cases.append(_float_case(rng, (True, True, True)))
        if it % 3 == 0:
            norm_cases.append(_grid_case(rng, (True, True, True)))
        if it % 6 == 0:
            # partially periodic: atoms strictly inside along the non-periodic directions (normalize is
            # defined there too), or outside (both sides must fail the orthonormality assertion)
            pbc = rng.choice(PBCS[:7])
            c = _float_case(rng, pbc, far=False, faces=False)
            norm_cases.append(_inside_nonperiodic(rng, c) if rng.random() < 0.7 else c)
    _corr_norm(ctx, norm_cases)
    # histories on one object: the hidden state (cached reciprocal vectors) must never show
    hists = [_gen_hist(rng, 'grid' if it % 3 == 0 else 'float') for it in range(ctx.n(150, 2500))]
    # the single calls above once more as one- and two-step histories: compared with the object-level model (which
    # includes the clean-up of the setter) at the derived rounding bound instead of the 1e-9 of the single-call path
    hists += [{'case': dict(c), 'ops': [{'op': 'wrap'}, {'op': 'wrap'}]} for c in wrap_cases]
    hists += [{'case': dict(c), 'ops': [{'op': 'norm'}]} for c in norm_cases]
    _corr_hist(ctx, hists)


def _inside_nonperiodic(rng, case):
    """move every atom strictly inside along the non-periodic directions (in the flipped cell's terms)."""
    import numpy as np
    V = np.array(case['vects'])
    o = np.array(case['origin'])
    S = np.linalg.solve(V.T, (np.array(case['pos']) - o).T).T
    for k in range(3):
        if not case['pbc'][k]:
            S[:, k] = [rng.uniform(0.05, 0.95) for _ in range(len(S))]
    case['pos'] = (S @ V + o).tolist()
    return _canon_case(case)


# ----------------------------------------------------------------------------------------
# search: the clauses of the property on the real code, exact rational oracle
# ----------------------------------------------------------------------------------------
def _wrap_clauses(ctx, case, report=True):
    """returns the first violated clause (key, text) or None."""
    def fail(key, what):
        if report:
            ctx.violate(key, what, {'op': 'wrap', 'case': case})
        return key, what

    return _wrap_clauses_sys(_build(case), case['regime'] == 'grid', fail)


def _wrap_clauses_sys(system, grid, fail):
    """the wrap clauses of the property on a live System (wraps it twice); exact rational oracle.
    `grid`: every float operation is exact on this state, so the clauses are decided with zero tolerance."""
    import numpy as np
    before = _snap(system)
    V, o = _fm(before['vects']), _fv(before['origin'])
    if _det(V) == 0:
        return fail('wrap:box-singular', f'the cell {before["vects"].tolist()} is singular before wrap is called')
    Vi = _inv(V)
    pbc = [bool(p) for p in before['pbc']]
    old = [_fv(p) for p in before['props']['pos']]
    sold = [_rel(p, V, Vi, o) for p in old]
    nV = _normV(before['vects'])
    omax = max(abs(float(x)) for x in before['origin'])
    kap = _kappa(V)

    try:
        flags = np.asarray(system.wrap(return_imageflags=True))
    except Exception as e:  # noqa
        return fail('wrap:raises', f'wrap raised {type(e).__name__}: {e}')
    if flags.shape != (len(old), 3):
        return fail('wrap:flags-shape', f'image flags have shape {flags.shape}')
    new = [_fv(p) for p in system.atoms.view['pos']]
    NV, no = _fm(system.box.vects), _fv(system.box.origin)
    if _det(NV) == 0:
        return fail('wrap:box-singular', 'wrap produced a singular cell')
    NVi = _inv(NV)
    rinv = _colsum(Vi)
    rinvN = _colsum(NVi)
    kapN = _kappa(NV)
    nVN = _normV(system.box.vects)
    omaxN = max(abs(float(x)) for x in no)
    sall = max(max(abs(float(x)) for x in s) for s in sold)
    # the Box.vects setter zeroes components below 1e-9 of the largest one: when a non-periodic vector is lengthened
    # a small component of any vector may disappear (documented behaviour of the setter, see ASSUMPTIONS); the
    # positions were rebuilt with the old vectors, so they may then be off the new cell by that much
    maxN = max(abs(float(x)) for r in NV for x in r)
    cleaned = any(NV[k][j] == 0 and V[k][j] != 0 for k in range(3) for j in range(3))
    clean = CLEAN * maxN * rinvN * 3 if cleaned else 0.0
    for i in range(len(old)):
        smax = max(abs(float(x)) for x in sold[i])
        tol = _ep(kap, smax, nV, omax)
        rtol_ = _er(kap, smax, omax, rinv)
        # (1) whole cell vectors along periodic directions only; flags reconstruct the original positions
        for k in range(3):
            if not pbc[k] and int(flags[i, k]) != 0:
                return fail('wrap:flag-nonperiodic', f'atom {i} has image flag {int(flags[i, k])} along non-periodic axis {k}')
        back = [a + b for a, b in zip(new[i], _vm([F(int(f)) for f in flags[i]], V))]
        err = max(abs(float(a - b)) for a, b in zip(back, old[i]))
        if (grid and err != 0) or err > tol:
            return fail('wrap:reconstruct', f'atom {i} (pbc {pbc}): new position + flags·old vectors = '
                        f'{[float(x) for x in back]} but it was at {[float(x) for x in old[i]]} (flags {flags[i].tolist()}, '
                        f'off by {err:.3g}, rounding bound {tol:.3g})')
        # (1') the same clause in lattice terms: the displacement is a whole number of OLD cell vectors, zero along
        #      non-periodic directions
        d = _vm([a - b for a, b in zip(old[i], new[i])], Vi)
        for k in range(3):
            want = _nearint(d[k]) if pbc[k] else 0
            off = abs(float(d[k] - want))
            if (grid and off != 0) or off > rtol_:
                return fail('wrap:non-lattice-move', f'atom {i} (pbc {pbc}) was moved by {[float(x) for x in d]} old cell '
                            f'vectors: not a whole number along axis {k} (off by {off:.3g}, rounding bound {rtol_:.3g})')
        # (2) every atom inside the new cell (faces included)
        sn = _rel(new[i], NV, NVi, no)
        stol = 0 if grid and all(pbc) else _er(kap, smax, omax, rinv) + _er(kapN, 1.0, omaxN, rinvN) + clean
        for k in range(3):
            if float(sn[k]) < -stol or float(sn[k]) > 1 + stol:
                return fail('wrap:outside', f'atom {i} is outside the cell after wrap (pbc {pbc}): relative coordinate '
                            f'{float(sn[k])!r} along axis {k}')
    # (3) periodic cell vectors untouched; non-periodic ones only lengthened; old cell inside the new
    lo = _vm([a - b for a, b in zip(no, o)], Vi)          # new origin in old relative coordinates
    tol3 = 8 * U * (omax + (1 + sall) * nV) * rinv + _es(kap, sall)
    clean = CLEAN * maxN * rinv * 3 if cleaned else 0.0
    for k in range(3):
        w = _vm(NV[k], Vi)                                 # new vector k in units of the old vectors
        if pbc[k]:
            if not all(a == b or (a == 0 and abs(b) <= CLEAN * maxN and not all(pbc))
                       for a, b in zip(system.box.vects[k].tolist(), before['vects'][k].tolist())):
                return fail('wrap:periodic-vector-changed', f'periodic cell vector {k} changed from '
                            f'{before["vects"][k].tolist()} to {system.box.vects[k].tolist()}')
            if (all(pbc) and lo[k] != 0) or abs(float(lo[k])) > tol3:
                return fail('wrap:origin-moved-periodic', f'origin moved by {float(lo[k])!r} cell vectors along periodic axis {k}')
        else:
            off = [abs(float(w[j])) for j in range(3) if j != k]
            if max(off) > 8 * U * kap * max(1.0, abs(float(w[k]))) + clean:
                return fail('wrap:vector-turned', f'non-periodic cell vector {k} changed direction: {[float(x) for x in w]}')
            if float(lo[k]) > tol3 or float(lo[k] + w[k]) < 1 - 2 * tol3 - clean:
                return fail('wrap:cell-shrunk', f'old cell not contained in the new one along axis {k}: new cell spans '
                            f'[{float(lo[k])!r}, {float(lo[k] + w[k])!r}] in old relative units')
    bad = _same_snap(before, _snap(system), skip=('vects', 'origin', 'pos'))
    if bad:
        return fail('wrap:carried', f'wrap changed {bad}')
    # (4) wrapping again changes nothing
    snap1 = _snap(system)
    try:
        flags2 = np.asarray(system.wrap(return_imageflags=True))
    except Exception as e:  # noqa
        return fail('wrap:raises', f'second wrap raised {type(e).__name__}: {e}')
    snap2 = _snap(system)
    band = _er(kap, sall, omax, rinv) + _er(kapN, 1.0, omaxN, rinvN) + (CLEAN * maxN * rinvN * 3 if cleaned else 0.0)
    near = any(abs(float(x) - round(float(x))) <= band for p in new for x in _rel(p, NV, NVi, no))
    if not near or (grid and all(pbc)):
        if flags2.any():
            return fail('wrap:not-idempotent', f'second wrap returns non-zero image flags {flags2.tolist()}')
        if not (np.array_equal(snap1['vects'], snap2['vects']) and np.array_equal(snap1['origin'], snap2['origin'])):
            return fail('wrap:not-idempotent', f'second wrap changes the box from {snap1["vects"].tolist()} / '
                        f'{snap1["origin"].tolist()} to {snap2["vects"].tolist()} / {snap2["origin"].tolist()}')
        if not np.allclose(snap1['props']['pos'], snap2['props']['pos'], rtol=0, atol=_ep(kapN, 1.0, nVN, omaxN)):
            return fail('wrap:not-idempotent', 'second wrap moves atoms that were already inside the cell')
    return None


_NEIGH = None


def _min_image_d2(d, V, Vi_np, V_np):
    """exact squared length of the nearest image of separation d (Fractions) under lattice V (fully periodic).
    A first candidate (rounding of the relative separation) gives a distance dc; every closer image has relative
    coordinates |s_k + n_k| <= dc |column k of V^-1|, so the finite box of integers searched is provably sufficient.
    Candidates are ranked in floating point, the best few are evaluated exactly. None if the box is too large."""
    import numpy as np
    global _NEIGH
    if _NEIGH is None:
        _NEIGH = np.array([[i, j, k] for i in (-1, 0, 1) for j in (-1, 0, 1) for k in (-1, 0, 1) if (i, j, k) != (0, 0, 0)],
                          dtype=float)
    dn = np.array([float(x) for x in d])
    s = dn @ Vi_np
    n0 = -np.round(s)
    # greedy descent over the 26 neighbouring images: a good first candidate keeps the box below small
    for _ in range(400):
        c = dn + (n0 + _NEIGH) @ V_np
        q = (c * c).sum(axis=1)
        t = int(np.argmin(q))
        if q[t] >= ((dn + n0 @ V_np) ** 2).sum() * (1 - 1e-12):
            break
        n0 = n0 + _NEIGH[t]
    dc = float(np.linalg.norm(dn + n0 @ V_np)) * (1 + 1e-9) + 1e-12
    lo, hi = [], []
    for k in range(3):
        rad = dc * float(np.linalg.norm(Vi_np[:, k])) * (1 + 1e-9) + 1e-9
        lo.append(int(math.ceil(-s[k] - rad)))
        hi.append(int(math.floor(-s[k] + rad)))
    size = 1
    for k in range(3):
        size *= max(hi[k] - lo[k] + 1, 1)
    if size > 300_000:
        return None
    rng0 = [np.arange(lo[k], hi[k] + 1, dtype=float) if hi[k] >= lo[k] else np.array([n0[k]]) for k in range(3)]
    n = np.stack(np.meshgrid(*rng0, indexing='ij'), axis=-1).reshape(-1, 3)
    n = np.vstack([n, n0[None, :]])
    cand = dn + n @ V_np
    d2 = (cand * cand).sum(axis=1)
    m = float(d2.min())
    # ranking error of the float evaluation: relative 1e-9 of the larger of |d| and the cell size
    slack = 1e-9 * (m + float(np.abs(dn).max()) * float(np.abs(V_np).max()) * 1e-3) + 1e-12
    best = np.argsort(d2)[:16]
    out = None
    for t in best:
        if d2[t] > m + slack and out is not None:
            break
        x = [a + b for a, b in zip(d, _vm([F(int(q)) for q in n[t]], V))]
        v = sum(c * c for c in x)
        out = v if out is None or v < out else out
    return out


def _norm_clauses(ctx, case, report=True):
    def fail(key, what):
        if report:
            ctx.violate(key, what, {'op': 'norm', 'case': case})
        return key, what

    return _norm_clauses_sys(_build(case), fail)


def _norm_clauses_sys(system, fail):
    """the normalize clauses of the property on a live, fully periodic System; exact rational oracle."""
    import numpy as np
    import atomman as am
    before = _snap(system)
    try:
        new, T = system.normalize(return_transform=True)
    except Exception as e:  # noqa
        return fail('normalize:raises', f'normalize raised {type(e).__name__}: {e} on a fully periodic system')
    bad = _same_snap(before, _snap(system))
    if bad:
        return fail('normalize:input-modified', f'normalize changed its input: {bad}')
    if any(np.shares_memory(new.atoms.view[k], system.atoms.view[k]) for k in new.atoms.view.keys()):
        return fail('normalize:shares-memory', 'normalized system shares atom data with its input')
    V, o = _fm(before['vects']), _fv(before['origin'])
    if _det(V) == 0:
        return fail('normalize:box-singular', f'normalize accepted the singular cell {before["vects"].tolist()}')
    left = _det(V) < 0
    if left:                                   # "a left-handed cell first having its third vector reversed"
        o = [a + b for a, b in zip(o, V[2])]
        V = [V[0], V[1], [-x for x in V[2]]]
    Vi = _inv(V)
    N, no = _fm(new.box.vects), _fv(new.box.origin)
    sc = max(abs(float(x)) for r in V for x in r)
    # right-handed LAMMPS-compatible cell
    if not new.box.is_lammps_norm() or not (N[0][1] == 0 and N[0][2] == 0 and N[1][2] == 0 and _det(N) > 0):
        return fail('normalize:not-lammps-normal', f'new cell {new.box.vects.tolist()} is not a right-handed LAMMPS cell')
    kap = max(_kappa(V), _kappa(N))
    ub = CN * U * kap * kap            # sqrt/arccos/cos/division of the cell parameters: conditioning enters twice
    k2 = max(_kappa2(V), _kappa2(N))
    ubT = CN * U * k2 * k2             # the transformation comes from a least-squares solve (normwise conditioning)
    # the Box.vects setter zeroes a tilt factor below 1e-9 of the largest component (documented behaviour, see
    # ASSUMPTIONS): where the new cell has an exactly vanishing tilt factor, that much of a change is the setter's
    cl = CLEAN * max(abs(float(x)) for r in N for x in r) if (N[1][0] == 0 or N[2][0] == 0 or N[2][1] == 0) else 0.0
    # same lengths, angles and volume
    G0, G1 = _gram(V), _gram(N)
    for i in range(3):
        for j in range(3):
            if _over('normalize:gram', abs(G0[i][j] - G1[i][j]), ub * sc * sc + 6 * cl * sc):
                return fail('normalize:gram', f'cell vectors {i},{j}: dot product {float(G0[i][j])!r} became {float(G1[i][j])!r} '
                            '(lengths/angles not preserved)')
    if _over('normalize:volume', abs(_det(N) - abs(_det(V))), ub * abs(float(_det(V)))):
        return fail('normalize:volume', f'volume {float(abs(_det(V)))!r} became {float(_det(N))!r}')
    # returned transformation: proper rotation taking the old (reversed) vectors to the new ones
    Tf = _fm(T)
    TT = _mm(Tf, _tr(Tf))
    if any(_over('normalize:transform-not-rotation', abs(TT[i][j] - (1 if i == j else 0)), ubT + 4 * cl * k2 / sc) for i in range(3)
           for j in range(3)) or _over('normalize:transform-not-rotation', abs(_det(Tf) - 1), ubT + 4 * cl * k2 / sc):
        return fail('normalize:transform-not-rotation', f'returned transformation {T.tolist()} is not a proper rotation')
    for i in range(3):
        img = [sum(Tf[r][c] * V[i][c] for c in range(3)) for r in range(3)]
        if any(_over('normalize:transform-wrong', abs(a - b), ubT * sc + 2 * cl * k2) for a, b in zip(img, N[i])):
            return fail('normalize:transform-wrong', f'T·(old vector {i}) = {[float(x) for x in img]} but the new vector is '
                        f'{[float(x) for x in N[i]]}')
    # every atom inside; relative coordinates kept modulo 1 (so all image distances are kept)
    Ni = _inv(N)
    rinv = _colsum(Vi)
    omax = max(abs(float(x)) for x in o)
    old = [_fv(p) for p in before['props']['pos']]
    newp = [_fv(p) for p in new.atoms.view['pos']]
    rel0 = [_rel(p, V, Vi, o) for p in old]
    for i in range(len(old)):
        s0 = rel0[i]
        s1 = _rel(newp[i], N, Ni, no)
        stol = 4 * _er(kap, max(abs(float(x)) for x in s0), omax, rinv)
        for k in range(3):
            if _over('normalize:outside', max(-s1[k], s1[k] - 1, 0), stol):
                return fail('normalize:outside', f'atom {i} is outside the normalized cell: relative coordinate {float(s1[k])!r} '
                            f'along axis {k}')
            dk = s0[k] - s1[k]
            if _over('normalize:moved', abs(dk - _nearint(dk)), stol):
                return fail('normalize:moved', f'atom {i}: relative coordinate along axis {k} went from {float(s0[k])!r} to '
                            f'{float(s1[k])!r} (not a whole number of cells; rounding bound {stol:.3g})')
    # true nearest-image distances between atoms unchanged (independent of the above: brute force over images)
    n = len(old)
    pairs = [(i, j) for i in range(n) for j in range(i + 1, n)][:10]
    if pairs:
        V0 = _fm(before['vects'])
        V0n, Nn = np.array(before['vects'], dtype=float), np.array(new.box.vects, dtype=float)
        V0i, Nni = np.linalg.inv(V0n), np.linalg.inv(Nn)
        for i, j in pairs:
            d0 = _min_image_d2([a - b for a, b in zip(old[j], old[i])], V0, V0i, V0n)
            d1 = _min_image_d2([a - b for a, b in zip(newp[j], newp[i])], N, Nni, Nn)
            if d0 is None or d1 is None:          # image box too large to enumerate (extremely skewed cell)
                continue
            s0 = max(abs(float(x)) for x in rel0[i] + rel0[j])
            # |d0^2 - d1^2| <= 2 |d| |delta| with |d| <= the cell diameter and |delta| the position bound above
            dtol = 8 * (ub * sc + _ep(kap, s0, 3 * sc, omax) + 3 * cl) * 3 * sc
            if _over('normalize:distance', abs(d0 - d1), dtol):
                return fail('normalize:distance', f'nearest-image distance between atoms {i} and {j} changed from '
                            f'{math.sqrt(float(d0))!r} to {math.sqrt(float(d1))!r}')
    bad = _same_snap(before, _snap(new), skip=('vects', 'origin', 'pos'))
    if bad:
        return fail('normalize:carried', f'normalize did not carry over {bad}')
    return None


def _hist_clauses(ctx, hist, report=True):
    """the wrap / normalize clauses of the property at every wrap / normalize of a history on ONE System object."""
    system = _build(hist['case'])
    exact = hist['case']['regime'] == 'grid'
    for k, op in enumerate(hist['ops']):
        c = _concretize(system, op)
        before = _state(system)

        def fail(key, what, k=k, name=c['op']):
            what = f'history {_hist_name(hist)} step {k} ({name}): {what}'
            if report:
                ctx.violate(key, what, {'op': 'hist', 'hist': _pub(hist), 'step': k})
            return key, what

        if c['op'] == 'wrap':
            res = _wrap_clauses_sys(system, exact, fail)
        elif c['op'] == 'norm' and all(system.pbc):
            res = _norm_clauses_sys(system, fail)
        else:
            res = None
            try:
                _apply(system, c)
            except cm.InfraError:
                raise
            except Exception:  # noqa  (partially periodic normalize may refuse; box operations are not clauses)
                return None
        if res:
            return res
        exact = exact and _keeps_exact(c, before, system.box.vects.tolist())
    return None


def search(ctx, broken):
    rng = random.Random(ctx.seed + 17)
    mult = 3 if broken else 1
    for it in range(ctx.n(12, 200) * mult):
        for pbc in PBCS:
            case = _grid_case(rng, pbc) if it % 2 == 0 else _float_case(rng, pbc)
            ctx.stats.case('oracle:wrap', _line('wrap', case))
            _wrap_clauses(ctx, case)
    for it in range(ctx.n(60, 1000) * mult):
        case = _grid_case(rng, (True, True, True)) if it % 4 == 0 else _float_case(rng, (True, True, True))
        ctx.stats.case('oracle:normalize', _line('norm', case))
        _norm_clauses(ctx, case)
    for it in range(ctx.n(150, 2500) * mult):
        h = _gen_hist(rng, 'grid' if it % 3 == 0 else 'float')
        ctx.stats.case('oracle:history', (_hist_name(h), _line('hist', h['case'])))
        try:
            _hist_clauses(ctx, h)
        except cm.InfraError:
            raise
        except Exception as e:  # noqa  (degenerate state produced by the implementation: NaN, overflow, ...)
            ctx.violate('history:degenerate-state', f'history {_hist_name(h)}: the object reached a state on which the '
                        f'clauses cannot be evaluated ({type(e).__name__}: {e})', {'op': 'hist', 'hist': _pub(h)})
    ctx.extra['bound_used'] = {k: round(v, 4) for k, v in sorted(MARGIN.items())}


def replay(ctx, payload):
    r = payload.get('replay') or {}
    cases = [r] if (r.get('case') or r.get('hist')) else \
        [d for d in payload.get('disagreements', []) if d and (d.get('case') or d.get('hist'))]
    if not cases:
        search(ctx, True)
        return
    for r in cases:
        if r.get('hist'):
            h = r['hist']
            res = _hist_clauses(ctx, h)
            print('replay history', _hist_name(h), 'pbc', h['case']['pbc'], '->', res or 'all clauses hold')
            if ctx.driver is not None:
                _corr_hist(ctx, [{'case': h['case'], 'ops': h['ops']}])
                for d in ctx.disagreements:
                    print('replay: model/implementation disagree:', d.what)
            continue
        case = r['case']
        f = _wrap_clauses if r.get('op') == 'wrap' else _norm_clauses
        res = f(ctx, case)
        print('replay', r.get('op'), 'pbc', case['pbc'], '->', res or 'all clauses hold')
        if ctx.driver is not None:
            (_corr_wrap if r.get('op') == 'wrap' else _corr_norm)(ctx, [case])
            for d in ctx.disagreements:
                print('replay: model/implementation disagree:', d.what)


MANIFEST = {
    'text': 'Lean model of System.wrap / atomman.lammps.normalize (floor, padding, padded box, handedness flip, '
            'rebuild from lengths and cosines, transform) with theorems over every ordered field.',
    'note': 'see docs/C05.md',
    'technique': 'Lean 4 theorems over a hand-written model + differential correspondence + exact clause oracle',
}
