"""C05 — System.wrap and System.normalize / atomman.lammps.normalize.

Tie: correspondence.  The hand-written Lean model (lean/Atomman/C05.lean: `wrap`, `normalize?`;
lean/Atomman/C05_Hist.lean: the object with its cached reciprocal vectors, the clean-up of the `vects`
setter, histories of operations) is run by the compiled driver on exactly the rational inputs the real
code saw; image flags are compared exactly, positions/box exactly in the grid regime and within a derived
rounding bound elsewhere.  Besides single calls, *histories on ONE System object* are compared step by
step (model restarted from the implementation's own state before each step, so the only thing a history
can add is hidden state of the implementation — which the theorems say must not exist).
Search: the clauses of the property evaluated on the real code with fractions.Fraction, on single calls
and at every wrap / normalize of such histories; plus the cross-cutting clauses (aliasing of inputs and outputs,
magnitudes, input forms, call spellings, working units, refusals) listed in docs/C05.md.
"""
from __future__ import annotations

import math
import random
from fractions import Fraction as F

from .. import common as cm

PROP = 'C05'
THEOREMS = [
    'C05.wrap_reconstruct', 'C05.wrap_inside', 'C05.wrap_periodic_axes_fixed', 'C05.wrap_idem',
    'C05.flip_same_points', 'C05.abcBox_spec', 'C05.normalize_lammps_normal', 'C05.normalize_gram',
    'C05.gram_eq_rotation', 'C05.normalize_proper_rotation', 'C05.normalize_inside',
    'C05.dist_depends_on_gram', 'C05.normalize_rel_mod_one', 'C05.normalize_image_distances',
    'C05.normalize_distance_spectrum', 'C05.sqrt_args_closed_form', 'C05.isFloor_ratFloor', 'C05.sqrtOK_real',
    # object-level state (cached reciprocal vectors) and histories
    'C05.wrapWith_recip', 'C05.recip_spec', 'C05.getSpos_spec', 'C05.boxSet_spec', 'C05.wrapC_spec',
    'C05.rebuild_spec', 'C05.normalizeC_spec', 'C05.stepC_erase', 'C05.runC_erase', 'C05.runC_cache_irrelevant',
    'C05.coherent_fresh', 'C05.hist_wrap_reconstruct', 'C05.hist_wrap_inside', 'C05.normalizeS_eq_normalize',
    'C05.hist_normalize', 'C05.zeroSmall_eq_self', 'C05.maxAbs_zeroSmall', 'C05.zeroSmall_idem', 'C05.clean_stepC',
    'C05.clean_runC', 'C05.hist_wrap_full',
    # cross-cutting round: lengths/angles in the code's own terms, clean-up of the setter inside normalize
    'C05.lengths_angles_of_gram', 'C05.normalize_lengths_angles', 'C05.zeroSmall_flipC', 'C05.hist_normalize_full',
    'C05.boxSet_scale_spec', 'C05.hist_boxSet_scale',
    # round 4: normalize refuses no non-singular cell (angle check of set_abc in the model), pbc edited in place
    'C05.angleGuard_of_det_ne_zero', 'C05.normalize_never_refuses', 'C05.angleGuard_refuses_parallel',
    'C05.hist_wrap_pbc_edited',
    # growth round: uniqueness of the image flags, the entry points with their option handling (model C05_Src.lean)
    'C05.wrap_flags_unique', 'C05.boxSetApi_refuses_iff', 'C05.wrapApi_spec', 'C05.api_wrap_reconstruct',
    'C05.normalizeApi_style_iff', 'C05.api_normalize_never_refuses',
    'C05.lammps_normal_unique', 'C05.normalize_cell_unique', 'C05.normalize_of_lammps_normal',
    'C05.copyKeys_complete', 'C05.copyKeys_nodup', 'C05.api_boxSet_scale',
    # source tie (Proofs/C05_Source.lean): every definition regenerated from /repo by translate() equals the hand model
    'C05.gen_defaults_eq_model', 'C05.gen_flagTests_eq_model', 'C05.gen_literals_eq_model', 'C05.transformOK_eq_with',
    'C05.gen_protocol_eq_model', 'C05.gen_axisBounds_eq_model', 'C05.gen_axisFlag_eq_model', 'C05.gen_paddedBox_eq_model',
    'C05.gen_flip_eq_model', 'C05.gen_transform_eq_model', 'C05.gen_cleanEntry_eq_model', 'C05.gen_coords_eq_model',
    'C05.gen_lengths_eq_model', 'C05.gen_setLengths_eq_model', 'C05.gen_abc_eq_model', 'C05.gen_vectAngleCos_eq_model',
    'C05.gen_boxSetBody_eq_model', 'C05.gen_wrapBody_eq_model', 'C05.gen_wrapApi_eq_model', 'C05.gen_normalizeBody_eq_model',
    'C05.gen_deepcopyKeys_eq_model', 'C05.angle_rejected_iff', 'C05.gen_abcGuard_eq_angleGuard', 'C05.arccosDeg_real',
    # second growth round: which object a call works on + values of the carried properties (model C05_Heap.lean,
    # Proofs/C05_Heap.lean), exactly when the setter's clean-up is inactive (Proofs/C05_Clean.lean), set_hi_los regenerated
    'C05.gen_deepcopyValues_eq_model', 'C05.copyView_mem', 'C05.copyView_canonical', 'C05.copyView_canonical_full',
    'C05.wrapC_pbc', 'C05.wrapC_pos_length', 'C05.normalizeC_pos_length',
    'C05.heap_wrap_in_place', 'C05.heap_normalize_input_untouched', 'C05.heap_normalize_refusal', 'C05.heap_normalize_carried',
    'C05.zeroIfSmall_eq_self_iff', 'C05.zeroSmall_eq_self_iff', 'C05.clean_lammps_iff', 'C05.maxAbs_scaled_le',
    'C05.zeroSmall_stretched', 'C05.hclean_iff', 'C05.wrap_clean_of_margin', 'C05.hist_wrap_inside_margin', 'C05.hc2_iff',
    'C05.hist_normalize_full_explicit', 'C05.gen_setHiLos_eq_model',
]
PARTIAL = {
    'input_left_as_it_was': 'OBJECT level: a theorem since the second growth round (store of objects addressed by index, '
                            'lean/Atomman/C05_Heap.lean: heap_wrap_in_place - wrap rewrites the object it is called on, creates none, '
                            'touches no other; heap_normalize_input_untouched - normalize appends ONE new object and leaves every '
                            'existing one, the one it was called on included, exactly as it was; the `system = deepcopy(system)` '
                            'statement the model rests on is matched by the source reader). Still not a theorem: the ARRAY level '
                            '(that no ndarray buffer of the result is a view of one of the input, that arrays handed in / out are '
                            'not kept) - checked on the implementation in every run by a bitwise snapshot of the input system, '
                            'numpy.shares_memory on every per-atom array and the box, and by scribbling over everything a call '
                            'returned / was handed before the next call',
    'carried_properties': 'keys (copyKeys_complete) AND values of the per-atom properties are in the model since the second growth '
                          'round: copyView runs the regenerated statements of Atoms.__deepcopy__ (which key is stored under which, '
                          'gen_deepcopyValues_eq_model; driver op copyvals), copyView_mem / copyView_canonical / '
                          'heap_normalize_carried: the result of normalize has exactly the entries of the input, each value list '
                          'unchanged under its own name, one row per atom in the order of the positions; heap_wrap_in_place: wrap '
                          'leaves the properties alone (its body, matched statement by statement, writes pos and the box only). '
                          'Not in the model: the numpy representation of a value (dtype, per-atom shape), and the System-level '
                          'attributes symbols / masses (copied by the default deepcopy); these stay oracle clauses (*:carried) on '
                          'the implementation (vector and tensor properties are NOT rotated by normalize: neither the docstring '
                          'nor the property asks for it)',
    'setter_clean_up': 'the "zero out near zero terms" step of the Box.vects setter (components below 1e-9 of the '
                       'largest one are set to 0) is part of the object-level model (zeroSmall) and of the '
                       'correspondence, but the wrap_*/normalize_* theorems are about the functional model without it: '
                       'they transfer to the object under the explicit hypothesis that the clean-up is inactive. '
                       'Exactly when that is so is a theorem now (zeroSmall_eq_self_iff: every component zero or above tiny times '
                       'the largest; hclean_iff, hc2_iff, clean_lammps_iff state the two remaining hypotheses on the numbers). '
                       'Discharged: fully periodic wrap (hist_wrap_full); a wrap of ANY periodicity whose cell has no component '
                       'within tiny*kmax of zero and that lengthens no direction by more than kmax (wrap_clean_of_margin, '
                       'hist_wrap_inside_margin); in a fully periodic normalize the reversal of '
                       'a left-handed cell (zeroSmall_flipC) and the final wrap (hist_normalize_full). Still a '
                       'hypothesis because it can really fail: the rebuilt LAMMPS cell of normalize (hc2: a tilt factor '
                       'below 1e-9 of the largest component is zeroed by the real code) and wraps outside the margin. '
                       'Where it is active the real code does change a cell vector by up to 1e-9 '
                       'of the largest component; the oracle grants exactly that much and only where a component '
                       'became exactly 0',
    'storage_dtype': 'the model computes in one field; that positions handed over as integers are stored as floats '
                     '(fix in /repo) and that float32 positions are written back with one float32 rounding of the new '
                     'value only is checked by the oracle (input forms), not proved',
}
RULE = ('wrap: cells = products of dyadic shears/permutations/diagonal powers of two whose numpy inverse is '
        'exact (grid regime: relative coordinates multiples of 1/8 incl. exactly on faces, up to 2^10 cells '
        'outside; flags, positions and unpadded boxes compared exactly) and rotated/left-handed/strongly tilted '
        'float cells (tolerance regime: atoms up to 1e6 cells outside, atoms within 1e-13 of faces; a flag is '
        'exempt only where the model puts the scaled coordinate within 1e-9(1+|s|) of an integer); all 8 pbc '
        'settings, non-zero origins, extra per-atom properties. normalize: the same cell families, fully '
        'periodic plus some partially periodic systems. histories: 2-9 operations on ONE System object drawn from '
        '{read scaled positions, wrap, normalize, box_set(vects=/avect=/lx=.., scale=True/False), Box.set, '
        'box.vects=, box.origin=, pbc=, rebuild from a,b,c,angles} with the new cell = old cell times (1+E), |E| '
        'log-uniform in [1e-13, 3e-2] (isotropic, diagonal, single shear, full, lower-triangular), identical, a fresh '
        'random cell, or (grid) a row permutation/negation/power-of-two scaling/dyadic shear 2^-4..2^-40; atoms tens '
        'to thousands of cells outside (up to 1e6 in the float regime); every step compared with the model restarted '
        'from the implementation state before it, at the bound 32 u kappa (1+|s|) (u=2^-53, kappa=|| |V||V^-1| ||); '
        'histories that stay on the grid are also run as one chain on the object-level model and compared exactly. '
        'cross-cutting families: histories also read 1-6 getters in random order (reads must not write), assign positions '
        'through six entry points (model op setPos), ask for flags / transform in every spelling or not at all, give '
        'the box as hi/lo bounds or the origin alone, pass a non-bool scale (documented TypeError); every array handed '
        'in is compared and overwritten after the call, every array returned is copied, tested with shares_memory '
        'against the object and all earlier results and overwritten; whole cases rescaled by 2^k, k in +-{40,130,250,320}; '
        'atoms exactly on lattice planes, a rounding error below them (computed coordinate in (-1.1e-16, 0)) and '
        '1e-13..1e-4 off them; positions as float64 / lists / tuples / python ints / int64 / int32 / float32 / Fortran / '
        'strided view / read-only, pbc and box in several spellings; exactly singular cells (refusal); non-default '
        'working units (bitwise the same result); two systems with the default box. '
        'round 4: every float cell generator also draws (1 in 10, plus dedicated sweeps) cells ONE of whose lattice angles - '
        'alpha, beta, gamma in turn, near 0 and near 180 - is 0.004..2 degrees from 0 / 180 (log-uniform; realisable by '
        'construction: two vectors at that angle in a plane, the third at 15..75 degrees from its normal), in any orientation and '
        'of either handedness, and cells turned by exactly / nearly 180 degrees (a vector along -x); single layers (all atoms '
        'with the same coordinate along one direction); histories edit the periodicity setting IN PLACE (system.pbc[k] = v with '
        'python / numpy bool, slice, negative index, whole array; the caller\'s own bool array handed to the constructor or the '
        'setter) between wraps / normalizes, with atoms moved out of the cell again in between, setpbc in tuple / list / int / '
        'bool-array / int-array form; getters read in histories are compared with exact values (lengths, angles by atan2 of '
        'the exact cross and dot products, volume, is_lammps_norm decided on the numbers). '
        'round 5 (counts / thresholds / names): every system carries, besides charge / spin / tag / stress, four extra per-atom '
        'properties whose NAMES come from a pool of 64 (substrings and superstrings of the reserved keys atype / pos and of '
        'their concatenation, case variants, names of attributes / methods / arguments on the call path, non-identifiers, '
        'the empty name) and whose values are float / int / bool / string scalars, vectors and the degenerate per-atom shapes '
        '(1,), (1,1), (1,3), (3,1) (a function of the case, recorded in the replay); large systems of 2^k-1, 2^k, 2^k+1 atoms '
        '(k = 10..16 all three, 17 one of them), one of about 70 000 and one of about 270 000 atoms per quick run (thorough: '
        'also 2^18-1 .. 2^18+1, 2^19+1, about 530 000, 786 433, 4.5 x 65536) - positions a function of a short specification: '
        'lattice sites of a (super)cell on the grid or in a float cell, a rigid shift, per-atom whole-cell offsets from a hash '
        'of the row (0 .. 70 000 cells; along one periodic direction EVERY row needs a non-zero flag), six atoms that stick out '
        'beyond all others - through wrap (any periodicity) and normalize (both entry points) with the per-atom clauses screened '
        'on ALL rows in extended precision (half the derived bound; exact on the grid) and decided exactly on the flagged rows '
        'and on ~100 sampled rows (ends, rows around every power of two and every multiple of 65536); the flags '
        'return_imageflags / return_transform also as 1 / numpy.True_ / 0 / numpy.False_. '
        'distinct = distinct canonical driver line; '
        'non-trivial = at least one atom outside the cell or a left-handed/non-normal cell')
ASSUMPTIONS = [
    'numpy.floor followed by the cast to int is the mathematical floor (parameter `fl` with '
    '(fl s : K) <= s < fl s + 1)',
    'x**0.5 is a positive square root of its argument (parameter `sqrt`, hypothesis SqrtAt: s*s = x and 0 < s '
    'at the five arguments a.a, b.b, c.c, b^2-xy^2, c^2-xz^2-yz^2)',
    'cos(arccos(x)) = x for the cell-angle cosines (the model keeps cosines, never forms angles); the clamp of '
    'vect_angle to [-1,1] is inactive in exact arithmetic (Cauchy-Schwarz)',
    'numpy.linalg.inv is the exact inverse; numpy.linalg.lstsq on a square non-singular system is the exact solve',
    'IEEE double rounding of the implementation: single calls are compared at 1e-9(1+|s|) relative to the cell size; '
    'histories and every oracle clause at the derived bounds |ds| <= 32 u kappa (1+|s|), |dp| <= (32 kappa + 8) u '
    '(1+|s|)|V| + 8u|o| (u = 2^-53, kappa = || |V||V^-1| ||; normalize: 256 u kappa^2, transform: normwise kappa); '
    'the largest fraction of each bound actually used is recorded in the evidence file (bound_used)',
    'the 1e-9-relative "zero out near zero terms" clean-up of the Box.vects setter is modelled in the object-level '
    'model (histories) and ignored by the single-call model (absorbed by its 1e-9 tolerance)',
    'every write of the cell vectors goes through the Box.vects setter (CSys.setVects), which drops the cached '
    'reciprocal vectors: this is the discipline runC_erase needs; the correspondence on histories checks that the '
    'implementation follows it',
    'the cell is non-singular (det vects != 0)',
    'arccos maps [-1, 1] strictly decreasingly onto [180, 0] degrees, so the refusal of Box.set_abc (an angle <= 0 or >= 180) '
    'is the test -1 < cos < 1 on the cosines vect_angle forms (angleGuard); normalize_never_refuses shows it never fires for '
    'a non-singular cell. Since the growth round this is the explicit hypothesis ArccosDeg of theorem '
    'gen_abcGuard_eq_angleGuard (for EVERY function acos that is strictly decreasing on [-1, 1] with acos 1 = 0, acos(-1) = 180, '
    'the regenerated guard of set_abc applied to acos(clamp(cos)) equals not angleGuard, clamp = the clamp of vect_angle)',
    'source tie: two pieces of option handling are pinned by a normalised-AST hash instead of being regenerated as Lean '
    'definitions - System.atoms_prop (the model uses only its key=\'pos\', scale=True, no-index paths: read = '
    'position_cartesian_to_relative of the stored array, write = position_relative_to_cartesian stored under the key) and the '
    'tail of vect_angle (clamp of the cosine to [-1, 1], 180 arccos / pi); an edit of either breaks gen_protocol_eq_model',
    'normalize: the rounding bound uses max(kappa, kabc), kabc = max(b/ly, c/lz) (heights of b over a and of c over the a-b '
    'plane): ly^2 = b^2 - xy^2 and lz^2 = c^2 - xz^2 - yz^2 are differences with relative error u b^2/ly^2, u c^2/lz^2 whatever '
    'the orientation of the cell (kappa of a LAMMPS-oriented cell with a tiny lz is of order 1)',
]
TRUSTED = ['numpy (inner, dot, floor, min/max, inv, lstsq) inside the implementation run',
           'rational square root of the driver (Nat.sqrt, error < 2^-160)',
           'the source reader translate() of this module (python ast): which numpy call it renders as which Lean term '
           '(np.dot / np.cross / np.inner / x.dot(M) / np.linalg.inv / lstsq(A, B)[0] = inv(A) B / norm = sqrt of the '
           'squared norm / einsum(...i,...i) = dot / x**0.5 = sqrt / deepcopy = value), and the meaning given to each '
           'statement token by `exec` in lean/Atomman/C05_Src.lean']

TOL = 1e-9

# Derived rounding bounds for IEEE double evaluation (u = 2^-53), used wherever a history is compared.
#   scaled coordinate   s = inner(p - o, inv(V).T):  |ds| <= CS u kappa (1 + |s|)     kappa = || |V| |V^-1| ||
#   rebuilt position    p' = (s - f) V + o:          |dp| <= (CS kappa + 8) u (1 + |s|) |V| + 8 u |o|
# CS = 32 is ten times the largest ratio observed over 10^5 random cells/atoms up to 10^6 cells outside
# (2.9, reached for orthogonal cells where only the roundings of p - o and of s itself contribute).
U = 2.0 ** -53
CS = 32.0
# normalize adds sqrt / arccos / cos / division of the cell parameters and a least-squares solve
CN = 256.0


# ----------------------------------------------------------------------------------------
# exact 3x3 helpers
# ----------------------------------------------------------------------------------------
def _fm(V):
    return [[F(float(x)) for x in r] for r in V]


def _fv(v):
    return [F(float(x)) for x in v]


def _det(m):
    return (m[0][0] * (m[1][1] * m[2][2] - m[1][2] * m[2][1])
            - m[0][1] * (m[1][0] * m[2][2] - m[1][2] * m[2][0])
            + m[0][2] * (m[1][0] * m[2][1] - m[1][1] * m[2][0]))


def _inv(m):
    d = _det(m)
    cof = [[None] * 3 for _ in range(3)]
    for i in range(3):
        for j in range(3):
            mm = [[m[a][b] for b in range(3) if b != j] for a in range(3) if a != i]
            cof[i][j] = (-1) ** (i + j) * (mm[0][0] * mm[1][1] - mm[0][1] * mm[1][0])
    return [[cof[j][i] / d for j in range(3)] for i in range(3)]


def _vm(s, M):
    """row vector times matrix."""
    return [s[0] * M[0][j] + s[1] * M[1][j] + s[2] * M[2][j] for j in range(3)]


def _mm(A, B):
    return [_vm(r, B) for r in A]


def _tr(A):
    return [[A[j][i] for j in range(3)] for i in range(3)]


def _gram(V):
    return _mm(V, _tr(V))


def _rel(p, V, Vinv, o):
    return _vm([p[k] - o[k] for k in range(3)], Vinv)


def _nearint(x: F):
    return math.floor(x + F(1, 2))


def _kappa(Vf):
    """|| |V| |V^-1| || (max column sum): the condition number that governs s = (p - o) V^-1."""
    Vi = _inv(Vf)
    P = _mm([[abs(x) for x in r] for r in Vf], [[abs(x) for x in r] for r in Vi])
    return float(max(sum(P[j][i] for j in range(3)) for i in range(3)))


def _kappa2(Vf):
    """normwise condition number ||V|| ||V^-1|| (row-sum norms): governs the least-squares solve of normalize."""
    Vi = _inv(Vf)
    return float(max(sum(abs(x) for x in r) for r in Vf) * max(sum(abs(x) for x in r) for r in Vi))


def _kabc(Vf):
    """condition of the rebuild from a, b, c and the lattice angles (set_abc): ly^2 = b^2 - xy^2 and lz^2 = c^2 - xz^2 -
    yz^2 are differences whose relative rounding error is u b^2/ly^2 resp. u c^2/lz^2 (ly = |a x b|/|a| is the height of b
    over a, lz = |det|/|a x b| the height of c over the a-b plane).  Unlike kappa it does not depend on the orientation
    of the cell: a LAMMPS-normal cell with a lattice angle a fraction of a degree from 0 / 180 has kappa of order 1."""
    a, b, c = Vf
    cx = [a[1] * b[2] - a[2] * b[1], a[2] * b[0] - a[0] * b[2], a[0] * b[1] - a[1] * b[0]]
    n2 = sum(x * x for x in cx)
    d = _det(Vf)
    if n2 == 0 or d == 0:
        return float('inf')
    ly2 = n2 / sum(x * x for x in a)
    lz2 = d * d / n2
    return math.sqrt(max(float(sum(x * x for x in b) / ly2), float(sum(x * x for x in c) / lz2), 1.0))


CLEAN = 1e-9 * (1 + 1e-6)      # the "zero out near zero terms" threshold of the Box.vects setter (relative to max|vects|)


def _es(kap, smax, c=CS):
    return c * U * kap * (1.0 + smax)


def _ep(kap, smax, nV, omax, c=CS):
    return (c * kap + 8.0) * U * (1.0 + smax) * nV + 8.0 * U * omax


def _er(kap, smax, omax, rinv, c=CS):
    """bound, in cell units, on a rebuilt position: the error of s plus the roundings of s V + o seen through V^-1."""
    return (c + 8.0) * U * kap * (1.0 + smax) + 8.0 * U * omax * rinv


def _colsum(Vi):
    return float(max(sum(abs(Vi[j][k]) for j in range(3)) for k in range(3)))


MARGIN = {}        # clause -> largest observed (error / bound) on this run; reported in the evidence file


def _over(name, err, bound):
    """is `err` beyond `bound`?  Also records how much of the bound was used."""
    err = float(err)
    if bound > 0:
        r = err / bound
        if r > MARGIN.get(name, 0.0):
            MARGIN[name] = r
    return err > bound


# ----------------------------------------------------------------------------------------
# building systems
# ----------------------------------------------------------------------------------------
# names of the extra per-atom properties a system carries besides charge / spin / tag / stress: short names that are
# substrings of the reserved keys 'atype' / 'pos' (and of their concatenation), superstrings and case variants of them,
# names that are attributes / methods of Atoms, System or Box, argument names of the calls on the path, non-identifiers,
# underscore names, the empty name.  (Not in the pool: natoms, prop, model, safecopy, self - the constructor's own
# arguments, which Atoms(**kwargs) cannot take as property names.)
NAMEPOOL = ('e', 'p', 'a', 't', 's', 'o', 'y', 'ty', 'typ', 'type', 'ype', 'yp', 'ep', 'pe', 'po', 'os', 'tp', 'atyp',
            'typepos', 'atypepos', 'epos', 'atypes', 'apos', 'pos0', 'spos', 'position', 'atype_', '_atype', 'Pos', 'ATYPE',
            'POS', 'x', 'id', 'a_id', '_g', '__d__', 'a-b', '2x', 'x.y', 'pbc', 'box', 'atoms', 'vects', 'origin', 'symbols',
            'masses', 'view', 'key', 'd', 'index', 'value', 'scale', 'dtype', 'style', 'return_transform', 'natypes', 'df',
            'keys', 'items', 'prop_atype', '', 'kwargs', 'atype pos', "atype', 'pos")
NEXTRA = 4            # names per system
# value kinds of the extra properties (by position of the name in the pool + number of atoms): float / int / bool /
# string scalars, vectors, and the degenerate per-atom shapes (1,), (1, 1), (1, 3), (3, 1)
XKINDS = ('f', 'i', 'v3', 'b', 'U', 't1', 't11', 'f', 't13', 't31', 'i')


def _case_names(case):
    """the extra property names of a case: a function of the case itself (so a replay builds the same system), every
    name of the pool is used a few times per hundred cases."""
    if case.get('names') is not None:
        return tuple(case['names'])
    import zlib
    p0 = case['pos'][0]
    h = zlib.crc32(repr(([bool(x) for x in case['pbc']], len(case['pos']), [float(x) for x in p0],
                         [float(x) for x in case['origin']])).encode())
    m = len(NAMEPOOL)
    start, step = h % m, 1 + (h // m) % (m - 1)
    # (m is not required to be prime: repeated names are dropped)
    out = []
    for j in range(NEXTRA):
        nm = NAMEPOOL[(start + j * step) % m]
        if nm not in out:
            out.append(nm)
    return tuple(out)


def _extra_value(name, n):
    import numpy as np
    k = XKINDS[(NAMEPOOL.index(name) + n) % len(XKINDS)] if name in NAMEPOOL else 'f'
    i = np.arange(n)
    if k == 'f':
        return 0.125 * i - 3.5 - len(name)
    if k == 'i':
        return (7 * i - 11 + len(name)).astype(int)
    if k == 'b':
        return (i + len(name)) % 3 == 0
    if k == 'U':
        return np.array(['Al', 'q', '', 'xyz'])[(i + len(name)) % 4]
    shape = {'v3': (3,), 't1': (1,), 't11': (1, 1), 't13': (1, 3), 't31': (3, 1)}[k]
    m = int(np.prod(shape))
    return (i[:, None] * 0.5 + np.arange(m)[None, :] - 0.25 * len(name)).reshape((n,) + shape)


def _props(n, names=()):
    import numpy as np
    i = np.arange(n)
    jk = np.arange(3)[:, None] - 0.5 * np.arange(3)[None, :]
    d = {'atype': 1 + 2 * ((i * 7) % 2),                                          # types 1 and 3: a gap
         'charge': 0.25 * i - 1.0,
         'spin': np.stack([i + 0.5, -1.0 * i, 2.0 * i], axis=1) if n else np.zeros((0, 3)),
         'tag': (100 + 3 * i).astype(int),
         # a per-atom tensor: carried bit for bit (normalize rotates neither vectors nor tensors)
         'stress': i[:, None, None] + jk[None, :, :]}
    for nm in names:
        d[nm] = _extra_value(nm, n)
    return d


POSFORMS = ('f64', 'list', 'tuple', 'pyint', 'int64', 'int32', 'f32', 'fortran', 'strided', 'readonly')


def _pos_arg(pos, form):
    """the positions of a case in one of the forms a caller may hand them over in (same numbers in every form)."""
    import numpy as np
    if form in ('f64', None):
        return pos.copy()
    if form == 'list':
        return pos.tolist()
    if form == 'tuple':
        return tuple(tuple(float(x) for x in r) for r in pos)
    if form == 'pyint':                          # nested python ints, e.g. pos=[[0, 0, 0], [5, 5, 5]]
        assert np.array_equal(pos, np.round(pos))
        return [[int(x) for x in r] for r in pos]
    if form in ('int64', 'int32'):
        assert np.array_equal(pos, np.round(pos))
        return pos.astype(form)
    if form == 'f32':
        assert np.array_equal(pos.astype(np.float32).astype(float), pos)
        return pos.astype(np.float32)
    if form == 'fortran':
        return np.asfortranarray(pos.copy())
    if form == 'strided':                         # a non-contiguous view into a larger buffer
        big = np.full((2 * len(pos) + 1, 7), np.nan)
        big[1::2, 1:6:2] = pos
        return big[1::2, 1:6:2]
    if form == 'readonly':
        a = pos.copy()
        a.setflags(write=False)
        return a
    if form == 'single':                          # one atom handed over as a bare (3,) vector
        assert len(pos) == 1
        return pos[0].copy()
    raise cm.InfraError('unknown position form ' + str(form))


def _pbc_arg(pbc, form):
    import numpy as np
    pbc = [bool(p) for p in pbc]
    if form in ('tuple', None):
        return tuple(pbc)
    if form == 'list':
        return list(pbc)
    if form == 'int':
        return tuple(int(p) for p in pbc)
    if form == 'npbool':
        return np.array(pbc, dtype=bool)
    if form == 'npint':
        return np.array(pbc, dtype=np.int64)
    raise cm.InfraError('unknown pbc form ' + str(form))


_HANDED_PBC = {}      # id(system) -> the bool ndarray last handed to System(pbc=...) / system.pbc = ... (the caller's array)


def _build(case):
    import numpy as np
    import atomman as am
    pos = np.array(case['pos'], dtype=float).reshape(-1, 3)
    names = _case_names(case)
    case['names'] = list(names)                  # (recorded in the case: a replay file shows which names were carried)
    pr = _props(len(pos), names)
    atoms = am.Atoms(atype=pr.pop('atype'), pos=_pos_arg(pos, case.get('posform')), **{k: v.copy() for k, v in pr.items()})
    V, o = np.array(case['vects'], dtype=float), np.array(case['origin'], dtype=float)
    bf = case.get('boxform')
    if bf == 'list':
        box = am.Box(vects=V.tolist(), origin=o.tolist())
    elif bf == 'avect':
        box = am.Box(avect=tuple(V[0]), bvect=list(V[1]), cvect=V[2], origin=tuple(o))
    else:
        box = am.Box(vects=V, origin=o)
    pbc = _pbc_arg(case['pbc'], case.get('pbcform'))
    system = am.System(atoms=atoms, box=box, pbc=pbc, symbols=('Al', None, 'Cu'), masses=(26.98, None, 63.5))
    if len(_HANDED_PBC) > 64:
        _HANDED_PBC.clear()
    _HANDED_PBC[id(system)] = pbc if isinstance(pbc, np.ndarray) and pbc.dtype == bool else None
    return system


def _raw_vects(box):
    return getattr(box, '_Box__vects', None)


def _snap(system):
    d = {k: system.atoms.view[k].copy() for k in system.atoms.view.keys()}
    return {'vects': system.box.vects.copy(), 'origin': system.box.origin.copy(), 'pbc': tuple(system.pbc),
            'symbols': tuple(system.symbols), 'masses': tuple(system.masses), 'natoms': system.natoms, 'props': d}


def _same_snap(a, b, skip=()):
    import numpy as np
    bad = []
    for k in ('vects', 'origin'):
        if k not in skip and not np.array_equal(a[k], b[k]):
            bad.append(k)
    if a['pbc'] != b['pbc']:
        bad.append('pbc')
    if a['symbols'] != b['symbols']:
        bad.append('symbols')
    if a.get('masses') != b.get('masses'):
        bad.append('masses')
    if a['natoms'] != b['natoms']:
        bad.append('natoms')
    if set(a['props']) != set(b['props']):
        bad.append('property keys (missing %s, new %s)' % (sorted(set(a['props']) - set(b['props'])),
                                                           sorted(set(b['props']) - set(a['props']))))
    for k in a['props']:
        if k in skip or k not in b['props']:
            continue
        if a['props'][k].dtype != b['props'][k].dtype or not np.array_equal(a['props'][k], b['props'][k]):
            bad.append('property ' + k)
    return bad


def _canon_case(case):
    """pass the cell through Box (the setter's clean-up is part of construction, not of wrap)."""
    import numpy as np
    import atomman as am
    box = am.Box(vects=np.array(case['vects'], dtype=float), origin=np.array(case['origin'], dtype=float))
    case['vects'] = box.vects.tolist()
    case['origin'] = box.origin.tolist()
    case['pos'] = [[float(x) for x in p] for p in case['pos']]
    case['pbc'] = [bool(p) for p in case['pbc']]
    return case


def _line(op, case):
    flat = [x for p in case['pos'] for x in p]
    return (f"{op} {' '.join('1' if p else '0' for p in case['pbc'])} {len(case['pos'])} "
            + cm.frs([x for r in case['vects'] for x in r]) + ' ' + cm.frs(case['origin']) + ' ' + cm.frs(flat))


# ----------------------------------------------------------------------------------------
# generators
# ----------------------------------------------------------------------------------------
def _grid_cell(rng):
    """dyadic cell with power-of-two determinant whose numpy inverse is exact (checked)."""
    import numpy as np
    import atomman as am
    for _ in range(200):
        V = np.diag([rng.choice([1, 2, 4, 0.5, 8]) * rng.choice([1, 1, 1, -1]) for _ in range(3)]).astype(float)
        for _ in range(rng.randint(0, 4)):
            i, j = rng.sample(range(3), 2)
            S = np.eye(3)
            S[i, j] = rng.choice([1, -1, 2, -2, 0.5, -0.5, 3, -3, 0.25, 1.5])
            V = S @ V if rng.random() < 0.5 else V @ S
        if rng.random() < 0.3:
            V = V[rng.sample(range(3), 3)]
        if np.abs(V).max() > 64:
            continue
        Vf = _fm(V)
        R = am.Box(vects=V).reciprocal_vects
        want = _tr(_inv(Vf))
        if all(F(float(R[i][j])) == want[i][j] for i in range(3) for j in range(3)):
            return V
    raise cm.InfraError('no exactly invertible grid cell found')


def _grid_case(rng, pbc, n=None):
    V = _grid_cell(rng)
    o = [0.0, 0.0, 0.0] if rng.random() < 0.3 else [cm.dyadic(rng, -8, 8, 2) for _ in range(3)]
    n = n or rng.randint(1, 8)
    Vf, of = _fm(V), _fv(o)
    pos = []
    layer = (rng.randint(0, 2), None) if n > 1 and rng.random() < 0.1 else None      # single layer: min == max
    for _ in range(n):
        s = []
        for _k in range(3):
            r = rng.random()
            if r < 0.35:
                s.append(F(rng.randint(-24, 32), 8))                       # multiples of 1/8 in [-3, 4]
            elif r < 0.65:
                s.append(F(rng.choice([0, 1, 0, 1, -1, 2, -2, 3])))         # exactly on a face / lattice plane
            elif r < 0.85:
                s.append(F(rng.randint(1, 7), 8))                          # inside
            else:
                s.append(rng.choice([-1, 1]) * F(2 ** rng.randint(3, 10)) + F(rng.randint(0, 8), 8))  # far out
        if layer is not None:
            if layer[1] is None:
                layer = (layer[0], s[layer[0]])
            s[layer[0]] = layer[1]
        p = [a + b for a, b in zip(_vm(s, Vf), of)]
        pf = [float(x) for x in p]
        assert all(F(a) == b for a, b in zip(pf, p))
        pos.append(pf)
    return _canon_case({'vects': V.tolist(), 'origin': o, 'pbc': list(pbc), 'pos': pos, 'regime': 'grid'})


def _rotation(rng):
    import numpy as np
    q = np.array([rng.gauss(0, 1) for _ in range(4)])
    q /= np.linalg.norm(q)
    w, x, y, z = q
    return np.array([[1 - 2 * (y * y + z * z), 2 * (x * y - z * w), 2 * (x * z + y * w)],
                     [2 * (x * y + z * w), 1 - 2 * (x * x + z * z), 2 * (y * z - x * w)],
                     [2 * (x * z - y * w), 2 * (y * z + x * w), 1 - 2 * (x * x + y * y)]])


def _axis_rotation(rng, angle, axis=None):
    """rotation by `angle` about a random axis (or about coordinate axis `axis`)."""
    import numpy as np
    if axis is None:
        u = np.array([rng.gauss(0, 1) for _ in range(3)])
        u /= np.linalg.norm(u)
    else:
        u = np.eye(3)[axis]
    Kx = np.array([[0, -u[2], u[1]], [u[2], 0, -u[0]], [-u[1], u[0], 0]])
    return np.eye(3) + math.sin(angle) * Kx + (1 - math.cos(angle)) * (Kx @ Kx)


EXTREME_DEV = (0.004, 2.0)      # degrees off 0 / 180: from below the 1e-8 absolute to above the 1e-4 relative cosine band


def _extreme_cell(rng, which=None, near180=None):
    """a valid, non-singular cell ONE of whose lattice angles (alpha, beta or gamma, each in turn) is a fraction of a
    degree away from 0 or from 180 degrees (log-uniform 0.004 .. 2 degrees: cosines 2e-9 .. 6e-4 from +-1); the two
    other angles are whatever makes the triple realisable.  Any orientation, either handedness."""
    import numpy as np
    which = rng.randint(0, 2) if which is None else which
    near180 = (rng.random() < 0.5) if near180 is None else near180
    dev = math.exp(rng.uniform(math.log(EXTREME_DEV[0]), math.log(EXTREME_DEV[1])))
    t = math.radians(180.0 - dev if near180 else dev)
    lu, lv, lw = (math.exp(rng.uniform(0.0, 2.5)) for _ in range(3))
    u = np.array([lu, 0.0, 0.0])
    v = lv * np.array([math.cos(t), math.sin(t), 0.0])
    ph, ps = math.radians(rng.uniform(15, 75)), rng.uniform(0, 2 * math.pi)
    w = lw * np.array([math.sin(ph) * math.cos(ps), math.sin(ph) * math.sin(ps), math.cos(ph)])
    V = np.array({2: [u, v, w], 1: [u, w, v], 0: [w, u, v]}[which])       # gamma: (a,b)  beta: (a,c)  alpha: (b,c)
    r = rng.random()
    if r < 0.6:
        V = V @ _rotation(rng).T
    elif r < 0.7:
        V = V @ np.diag(rng.choice([[-1.0, -1.0, 1.0], [-1.0, 1.0, -1.0], [1.0, -1.0, -1.0]]))
    r = rng.random()
    if r < 0.2:
        V[rng.randint(0, 2)] *= -1            # (reverses two of the angles: near 0 <-> near 180)
    elif r < 0.3:
        V = -V
    return V


def _float_cell(rng):
    """triclinic cell from a,b,c and a realisable angle triple; rotated / left-handed / strongly tilted."""
    import numpy as np
    kind = rng.choice(['normal', 'rotated', 'rotated', 'left', 'left', 'tilted', 'tilted-left', 'ortho', 'halfturn',
                       'extreme'])
    if kind == 'extreme':
        return _extreme_cell(rng), kind
    while True:
        a, b, c = (math.exp(rng.uniform(0.0, 2.5)) for _ in range(3))
        if kind == 'ortho':
            al = be = ga = 90.0
        else:
            al, be, ga = (rng.uniform(50, 130) for _ in range(3))
        ca, cb, cg = (math.cos(math.radians(t)) for t in (al, be, ga))
        if 1 - ca * ca - cb * cb - cg * cg + 2 * ca * cb * cg > 0.1:
            break
    lx = a
    xy = b * cg
    xz = c * cb
    ly = math.sqrt(b * b - xy * xy)
    yz = (b * c * ca - xy * xz) / ly
    lz = math.sqrt(c * c - xz * xz - yz * yz)
    V = np.array([[lx, 0, 0], [xy, ly, 0], [xz, yz, lz]])
    if kind.startswith('tilted'):
        V[1] += rng.choice([-2, -1, 1, 2]) * V[0]
        V[2] += rng.choice([-2, -1, 1, 2]) * V[0] + rng.choice([-1, 0, 1]) * V[1]
    if kind == 'halfturn':
        # the a vector along -x: half turns about an axis (exact sign changes), or a turn a hair short of 180 degrees
        t = rng.random()
        if t < 0.5:
            V = V @ np.diag(rng.choice([[-1.0, -1.0, 1.0], [-1.0, 1.0, -1.0], [1.0, -1.0, -1.0]]))
        else:
            V = V @ _axis_rotation(rng, math.pi - rng.choice([0.0, 1e-12, 1e-9, 1e-6, 1e-3]), None if t < 0.8 else 2).T
    elif kind != 'normal' and kind != 'ortho':
        V = V @ _rotation(rng).T
    if kind in ('left', 'tilted-left') or (kind == 'halfturn' and rng.random() < 0.3):
        w = rng.randint(0, 2)
        if w == 0:
            V[rng.randint(0, 2)] *= -1
        elif w == 1:
            i, j = rng.sample(range(3), 2)
            V[[i, j]] = V[[j, i]]
        else:
            V = -V
    return V, kind


def _float_case(rng, pbc, n=None, far=True, faces=True, cell=None):
    import numpy as np
    V, kind = _float_cell(rng) if cell is None else cell
    o = np.zeros(3) if rng.random() < 0.25 else np.array([rng.uniform(-10, 10) for _ in range(3)])
    n = n or rng.randint(1, 10)
    S = []
    for _ in range(n):
        s = []
        for k in range(3):
            r = rng.random()
            if r < 0.5:
                s.append(rng.uniform(-2, 3))
            elif r < 0.7:
                s.append(rng.uniform(0.05, 0.95))
            elif r < 0.85 and faces:
                # exactly on a face / lattice plane (the computed coordinate then carries rounding noise of either sign:
                # k - 1e-17 is where s - floor(s) rounds to 1.0), or a hair off it: from the rounding level up to 1e-4
                t = rng.random()
                off = 0 if t < 0.4 else rng.choice([1e-13, -1e-13, 3e-16, -1e-16]) if t < 0.6 else \
                    rng.choice([1e-10, -1e-10, 1e-8, -1e-8, 1e-7, -1e-7, 1.5e-6, -1.5e-6, 1e-5, -1e-5, 1e-4, -1e-4])
                s.append(rng.choice([0, 0, 1, -1, 2]) + off)
            elif far:
                # far outside: unrestricted along periodic directions, moderate along padded ones
                s.append(rng.choice([-1, 1]) * 10 ** rng.uniform(1, 6 if pbc[k] else 3))
            else:
                s.append(rng.uniform(-1, 2))
        S.append(s)
    if n > 1 and rng.random() < 0.08:
        # a single layer: every atom has the same coordinate along one direction (min == max of that direction)
        k = rng.randint(0, 2)
        for s in S:
            s[k] = S[0][k]
    pos = np.array(S) @ V + o
    return _canon_case({'vects': V.tolist(), 'origin': o.tolist(), 'pbc': list(pbc), 'pos': pos.tolist(),
                        'regime': 'float', 'kind': kind})


PBCS = [(bool(i & 4), bool(i & 2), bool(i & 1)) for i in range(8)]

# exact powers of two by which whole cases are rescaled: every float operation of wrap / normalize is homogeneous, so
# the results scale exactly; beyond 2^+-335 or so the triple product of normalize's handedness test (a cube) leaves the
# double range (underflow to 0: a small left-handed cell is not reversed; overflow: inf - inf = nan, likewise)
SCALES = (-320, -250, -130, -40, 40, 130, 250, 320)


def _rescale(case, k):
    """the same case in units 2^k times smaller (cell, origin and positions multiplied by 2^k: exact)."""
    f = 2.0 ** k
    c = dict(case)
    c['vects'] = [[x * f for x in r] for r in case['vects']]
    c['origin'] = [x * f for x in case['origin']]
    c['pos'] = [[x * f for x in p] for p in case['pos']]
    c['scale2'] = k
    return c


def _form_case(rng, pbc, form):
    """a case whose positions can be handed over in the given form: integer coordinates for the integer forms (in a
    cell that is not integer: e.g. atoms at [0,0,0] and [5,5,5] in a cubic 3.5 cell), float32-exact for float32."""
    import numpy as np
    if rng.random() < 0.5:
        V = np.diag([rng.choice([3.5, 2.25, 1.75, 4.5, 0.75]) for _ in range(3)])
        if rng.random() < 0.5:
            i, j = rng.sample(range(3), 2)
            V[i, j] = rng.choice([0.5, -1.25, 1.5])
        if rng.random() < 0.3:
            V[rng.randint(0, 2)] *= -1
        kind = 'normal'
    else:
        V, kind = _float_cell(rng)
    n = 1 if form == 'single' else rng.randint(1, 6)
    o = np.zeros(3) if rng.random() < 0.4 else np.array([cm.dyadic(rng, -8, 8, 2) for _ in range(3)])
    if form in ('pyint', 'int64', 'int32'):
        lim = [40 if p else 6 for p in pbc]
        pos = np.array([[float(rng.randint(-lim[k], lim[k])) for k in range(3)] for _ in range(n)])
    else:
        S = np.array([[rng.choice([rng.uniform(-2, 3), rng.uniform(-30, 30) if pbc[k] else rng.uniform(-3, 4),
                                   rng.choice([-1, 1]) * 10 ** rng.uniform(2, 6) if pbc[k] else rng.uniform(0.1, 0.9)])
                       for k in range(3)] for _ in range(n)])
        pos = S @ V + o
        if form == 'f32':
            pos = pos.astype(np.float32).astype(float)
    c = _canon_case({'vects': V.tolist(), 'origin': o.tolist(), 'pbc': list(pbc), 'pos': pos.tolist(), 'regime': 'float',
                     'kind': kind})
    c['posform'] = form
    c['pbcform'] = rng.choice(['tuple', 'list', 'int', 'npbool', 'npint'])
    c['boxform'] = rng.choice(['array', 'list', 'avect'])
    return c


def _hairline_case(rng, pbc):
    """atoms whose COMPUTED relative coordinate along a periodic axis is a rounding error below a lattice plane through
    the origin: s in (-1.1e-16, 0), where floor(s) = -1 and s - floor(s) rounds to exactly 1.0 (the atom lands on the
    upper face; anything that then treats 1.0 as 'outside' moves it again without telling the image flag).  Found by
    nudging the position ulp by ulp; the expression is the one any implementation evaluates, the oracle stays exact."""
    import numpy as np
    V, kind = _float_cell(rng)
    o = np.zeros(3) if rng.random() < 0.3 else np.array([rng.uniform(-10, 10) for _ in range(3)])
    R = np.linalg.inv(V).T
    pos = []
    for _ in range(rng.randint(2, 6)):
        k = rng.randint(0, 2)
        S = np.array([rng.uniform(-2, 3) for _ in range(3)])
        S[k] = 0.0
        p = S @ V + o
        for _t in range(200):
            sk = float(np.inner(p - o, R)[k])
            if -1.1e-16 < sk < 0:
                break
            j = rng.randint(0, 2)
            # move one coordinate by one ulp in the direction that lowers (raises) the coordinate towards the window
            down = (sk >= 0) == (R[k][j] > 0)
            p[j] = np.nextafter(p[j], -np.inf if down else np.inf)
        pos.append(p.tolist())
    return _canon_case({'vects': V.tolist(), 'origin': o.tolist(), 'pbc': list(pbc), 'pos': pos, 'regime': 'float',
                        'kind': kind, 'hairline': True})


# ---- large systems: counts and thresholds ------------------------------------------------------------------------
# Anything that handles the rows of a system in blocks, or switches to another code path above a size, shows only when the
# number of atoms crosses that size and is not a multiple of it: systems of 2^k - 1 / 2^k / 2^k + 1 atoms and of
# "ordinary" sizes in between, up to a few hundred thousand atoms (quick: one of about 70 000 and one of about 270 000;
# thorough: also about 530 000 and 800 000).  The positions of such a system are a FUNCTION of a short specification
# (`_big_case`), which is what a replay file stores.
BIG_CELLS = (0, 1, 3, 3, 40, 70000)


def _big_sizes(rng, thorough):
    sizes = [2 ** k + d for k in range(10, 17) for d in (-1, 0, 1)] + [2 ** 17 + rng.choice([-1, 0, 1])]
    sizes += [rng.randint(68000, 72000), rng.choice([2 ** 18 + 1, 2 ** 18 + rng.randint(2, 9000), 264600])]
    if thorough:
        sizes += [2 ** 17 + d for d in (-1, 0, 1)]
        sizes += [2 ** 18 - 1, 2 ** 18, 2 ** 18 + 1, 2 ** 19 + 1, 2 * 2 ** 18 + rng.randint(2, 9000), 3 * 2 ** 18 + 1,
                  4 * 65536 + 65536 // 2]
    return sizes


def _big_spec(rng, n, regime, pbc, c=None):
    import numpy as np
    if regime == 'grid':
        V = _grid_cell(rng)
        o = [0.0, 0.0, 0.0] if rng.random() < 0.3 else [cm.dyadic(rng, -8, 8, 2) for _ in range(3)]
        dims = [rng.choice([32, 64, 128]) for _ in range(3)]
        shift = [rng.choice([0, 0, 1, -3, 5, 512]) / 1024 for _ in range(3)]
        kind = 'grid'
    else:
        # a supercell of a small (slightly to strongly) triclinic cell, any orientation / handedness
        Vu, kind = _float_cell(rng)
        m = max(2, round((n / 2) ** (1 / 3)))
        dims = [max(2, m + rng.randint(-3, 3)) for _ in range(3)]
        V = np.diag([float(x) for x in dims]) @ Vu
        o = np.zeros(3) if rng.random() < 0.25 else np.array([rng.uniform(-10, 10) for _ in range(3)])
        shift = [rng.choice([0.0, 0.013, -0.021, 0.5, rng.uniform(-1, 1)]) for _ in range(3)]
    box_clean = _canon_case({'vects': np.asarray(V).tolist(), 'origin': np.asarray(o).tolist(), 'pbc': list(pbc), 'pos': []})
    # per-atom whole-cell offsets -c .. c plus a rigid whole-cell shift; along one periodic direction (if there is one) the
    # rigid shift is +-(c + 1), so that EVERY row of the system needs a non-zero image flag there (a block of rows that is
    # skipped, handled twice or given another block's flags cannot hide behind atoms that happen to be inside already)
    c = rng.choice(BIG_CELLS) if c is None else c
    rigid = [rng.choice([0, 0, 1, -1, 2]) for _ in range(3)]
    per = [k for k in range(3) if pbc[k]]
    if per:
        rigid[rng.choice(per)] = rng.choice([-1, 1]) * (c + 1)
    # a handful of atoms that stick out: along every direction one atom below and one above all the others (adatoms of a
    # slab, a stray atom): along a non-periodic direction these single rows decide how far the cell is enlarged
    outliers = [[rng.randrange(n), k, sgn] for k in range(3) for sgn in (-1, 1)]
    return {'n': int(n), 'regime': regime, 'kind': kind, 'vects': box_clean['vects'], 'origin': box_clean['origin'],
            'pbc': [bool(x) for x in pbc], 'dims': [int(x) for x in dims], 'shift': [float(x) for x in shift],
            'salt': rng.randint(1, 2 ** 30), 'cells': c, 'rigid': rigid, 'outliers': outliers}


def _big_case(spec):
    """the case of a specification: atom i sits at lattice site (i mod nx, (i div nx) mod ny, (i div nx ny) mod nz) / dims
    of basis (i div nx ny nz) / 2, shifted rigidly by `shift` and, atom by atom, by a whole number of cells in
    rigid - cells .. rigid + cells along every direction (a hash of i: neighbouring rows get different image flags)."""
    import numpy as np
    n = spec['n']
    nx, ny, nz = spec['dims']
    i = np.arange(n, dtype=np.int64)
    idx = np.stack([i % nx, (i // nx) % ny, (i // (nx * ny)) % nz], axis=1)
    basis = (i // (nx * ny * nz))
    c = spec['cells']
    salt = spec['salt']
    cax = [c if spec['pbc'][k] else min(c, 3) for k in range(3)]       # (moderate along directions that get padded)
    cells = np.stack([((i * m + salt) >> 7) % (2 * cax[k] + 1) - cax[k]
                      for k, m in enumerate((2654435761, 40503, 2246822519))], axis=1) \
        + np.array(spec.get('rigid', [0, 0, 0]), dtype=np.int64)
    for row, k, sgn in spec.get('outliers', []):
        cells[row, k] = spec.get('rigid', [0, 0, 0])[k] + sgn * (cax[k] + 2)
    V, o = np.array(spec['vects'], dtype=float), np.array(spec['origin'], dtype=float)
    if spec['regime'] == 'grid':
        # exact integer arithmetic in units of 2^-11 (relative coordinates) and 2^-q (cell entries)
        rel = idx * (2048 // np.array([nx, ny, nz])) + (basis[:, None] % 4) * 256 // np.array([nx, ny, nz]) \
            + cells * 2048 + np.array([int(round(x * 2048)) for x in spec['shift']])
        q = 0
        while not np.array_equal(V * 2 ** q, np.round(V * 2 ** q)) or not np.array_equal(o * 2 ** q, np.round(o * 2 ** q)):
            q += 1
            if q > 40:
                raise cm.InfraError('grid cell is not dyadic')
        posI = rel @ np.round(V * 2 ** q).astype(np.int64) + np.round(o * 2 ** q).astype(np.int64) * 2048
        pos = posI.astype(float) / (2048.0 * 2 ** q)
        if not np.array_equal((pos * (2048.0 * 2 ** q)).astype(np.int64), posI):
            raise cm.InfraError('large grid case is not exactly representable')
    else:
        rel = (idx + 0.5 * (basis[:, None] % 2) + 0.25 * (basis[:, None] // 2)) / np.array([nx, ny, nz], dtype=float) \
            + cells + np.array(spec['shift'])
        pos = rel @ V + o
    case = {'vects': V.tolist(), 'origin': o.tolist(), 'pbc': list(spec['pbc']), 'pos': pos, 'regime': spec['regime'],
            'kind': spec.get('kind'), 'big': spec}
    for k in ('ret', 'names'):
        if k in spec:
            case[k] = spec[k]
    return case


def _big_label(op, spec):
    return (f"{op} big n={spec['n']} {spec['regime']}/{spec.get('kind')} pbc {''.join('1' if p else '0' for p in spec['pbc'])} "
            f"dims {spec['dims']} cells {spec.get('rigid')}+-{spec['cells']} salt {spec['salt']}")


def _replay_of(op, case):
    """what a replay file stores for a case: large systems by their specification."""
    if case.get('big') is not None:
        spec = dict(case['big'])
        for k in ('ret', 'names'):
            if case.get(k) is not None:
                spec[k] = case[k]
        return {'op': op, 'big': spec}
    return {'op': op, 'case': case}


def _singular_case(rng, pbc):
    """an exactly singular cell with small integer entries (numpy's LU meets an exact zero pivot)."""
    # entries 0, +-1/2, +-1, +-2, +-4: every multiplier of the elimination is a power of two, so it is exact
    a = [rng.choice([0.0, 1.0, -1.0, 2.0, -2.0, 4.0, 0.5, -0.5]) for _ in range(3)]
    b = [rng.choice([0.0, 1.0, -1.0, 2.0, -2.0, 4.0, 0.5, -0.5]) for _ in range(3)]
    if not any(a):
        a[0] = 1.0
    if not any(b):
        b[1] = 2.0
    # (two proportional / equal rows or a zero row stay exactly so through the elimination; a general coplanar triple
    # need not be detected by numpy: rounding of a multiplier such as 1/2.5 hides the zero pivot)
    kind = rng.choice(['parallel', 'zero', 'equal'])
    if kind == 'parallel':
        c = [2 * x for x in a]
    elif kind == 'zero':
        c = [0.0, 0.0, 0.0]
    else:
        c, b = list(a), b
    V = [a, b, c]
    rng.shuffle(V)
    return {'vects': V, 'origin': [0.0, 0.5, -1.0], 'pbc': list(pbc), 'regime': 'grid', 'kind': 'singular',
            'pos': [[float(rng.randint(-5, 5)) / 2 for _ in range(3)] for _ in range(rng.randint(1, 3))]}


# ----------------------------------------------------------------------------------------
# correspondence
# ----------------------------------------------------------------------------------------
def _sections(out):
    return [sec.split() for sec in out.split(' | ')]


def _chunks3(xs):
    return [xs[i:i + 3] for i in range(0, len(xs), 3)]


def _normV(V):
    return max(sum(abs(float(x)) for x in r) for r in V) * 3


def _impl_err(e):
    if isinstance(e, AssertionError):
        return 'err:assert'
    if isinstance(e, (ValueError,)) or type(e).__name__ == 'LinAlgError':
        return 'err:value'
    return 'err:' + type(e).__name__


def _nontrivial(case, spos):
    return any(not (0 <= x < 1) for s in spos for x in s) or case.get('kind') not in (None, 'normal', 'ortho')


def _compare_positions(case, key, ctx, impl_pos, model_pos, spos, exempt, latt, grid, tolf=TOL):
    """atoms with an exempt axis may differ by one lattice vector along that axis; others must agree."""
    nV = _normV(case['vects'])
    for i, (ip, mp) in enumerate(zip(impl_pos, model_pos)):
        tol = tolf * (1 + max(abs(float(x)) for x in spos[i])) * nV + TOL * max(abs(x) for x in case['origin'])
        if not exempt[i]:
            ok = all(F(float(a)) == b for a, b in zip(ip, mp)) if grid else \
                all(abs(float(a) - float(b)) <= tol for a, b in zip(ip, mp))
        else:
            d = [F(float(a)) - b for a, b in zip(ip, mp)]
            c = _vm(d, latt)            # difference in units of the (new) cell vectors
            ok = all((abs(float(c[k] - _nearint(c[k]))) <= 1e-6 and abs(_nearint(c[k])) <= (1 if k in exempt[i] else 0))
                     for k in range(3))
            if not ok and tolf > TOL:
                # ill-conditioned cell (derived bound above 1e-9): whole cell vectors along the exempt axes, and what is
                # left within the same Cartesian bound as for the other atoms
                sh = [(_nearint(c[k]) if k in exempt[i] else 0) for k in range(3)]
                rest = [x - y for x, y in zip(d, _vm([F(t) for t in sh], _fm(case['vects'])))]
                ok = all(abs(t) <= 1 for t in sh) and all(abs(float(x)) <= tol for x in rest)
        if not ok:
            ctx.disagree(key + ':positions', f'{key}: atom {i} at {list(map(float, ip))}, model {list(map(float, mp))}',
                         {'op': key, 'case': case, 'atom': i})
            return False
    return True


def _corr_wrap(ctx, cases):
    import numpy as np
    outs = ctx.driver.ask_many([_line('wrap', c) for c in cases])
    for case, out in zip(cases, outs):
        grid = case['regime'] == 'grid'
        system = _build(case)
        before = _snap(system)
        try:
            flags = system.wrap(return_imageflags=True)
            impl_err = None
        except Exception as e:  # noqa
            impl_err = _impl_err(e)
        if out.startswith('err:') or impl_err:
            ctx.stats.case('wrap:error', _line('wrap', case), nontrivial=False)
            if out != impl_err:
                ctx.disagree('wrap:error', f'wrap: implementation {impl_err or "succeeds"}, model {out if out.startswith("err:") else "succeeds"}',
                             {'op': 'wrap', 'case': case})
            continue
        sec = _sections(out)
        mbox = [F(t) for t in sec[0]]
        mpos = _chunks3([F(t) for t in sec[1]])
        mflags = _chunks3([int(t) for t in sec[2]])
        spos = _chunks3([F(t) for t in sec[3]])
        ctx.stats.case('wrap:' + case['regime'] + ':' + ''.join('p' if p else 'f' for p in case['pbc']),
                       _line('wrap', case), nontrivial=_nontrivial(case, spos),
                       sample={'op': 'wrap', 'case': case, 'model_flags': mflags})
        pbc = case['pbc']
        # exemptions (tolerance regime only): scaled coordinate within the bound of an integer.  The bound is 1e-9 (1 + |s_k|),
        # or the derived one where that is larger (ill-conditioned cell and another coordinate of the atom far out: the
        # error of s_k is 32 u kappa (1 + max_j |s_j|))
        kapw = 0.0 if grid else _kappa(_fm(case['vects']))
        smaxs = [max(abs(float(x)) for x in s) for s in spos]
        exempt = []
        for i, s in enumerate(spos):
            ex = set()
            if not grid:
                for k in range(3):
                    if pbc[k] and abs(float(s[k] - _nearint(s[k]))) <= max(TOL * (1 + abs(float(s[k]))), _es(kapw, smaxs[i])):
                        ex.add(k)
            exempt.append(ex)
        box_exempt = False
        esall = 0.0 if grid else _es(kapw, max(smaxs))
        if not grid:
            for k in range(3):
                if not pbc[k]:
                    mn = min(s[k] for s in spos)
                    mx = max(s[k] for s in spos)
                    if abs(float(mn)) <= max(TOL * (1 + abs(float(mn))), esall) \
                            or abs(float(mx) - 1) <= max(TOL * (1 + abs(float(mx))), esall):
                        box_exempt = True
        ctx.extra['exempt_flags'] = ctx.extra.get('exempt_flags', 0) + sum(len(e) for e in exempt)
        ctx.extra['exempt_boxes'] = ctx.extra.get('exempt_boxes', 0) + int(box_exempt)
        key = 'wrap'
        replay = {'op': 'wrap', 'case': case}
        # flags: exact
        fl = np.asarray(flags)
        if fl.shape != (len(spos), 3) or not np.issubdtype(fl.dtype, np.integer):
            ctx.disagree('wrap:flags-shape', f'image flags have shape {fl.shape} dtype {fl.dtype}', replay)
            continue
        bad = [(i, k) for i in range(len(spos)) for k in range(3)
               if int(fl[i, k]) != mflags[i][k] and not (k in exempt[i] and abs(int(fl[i, k]) - mflags[i][k]) == 1)]
        if bad:
            i, k = bad[0]
            ctx.disagree('wrap:flags', f'wrap: image flag of atom {i} axis {k} (pbc {pbc}) is {int(fl[i, k])}, model '
                         f'{mflags[i][k]} (scaled coordinate {float(spos[i][k])!r})', replay)
            continue
        # positions (rebuilt with the OLD box): exempt atoms may differ by one old cell vector
        oldinv = _inv(_fm(case['vects']))
        tolfw = TOL if grid else max(TOL, CS * U * kapw)
        if not _compare_positions(case, 'wrap', ctx, system.atoms.view['pos'].tolist(), mpos, spos, exempt, oldinv, grid,
                                  tolf=tolfw):
            continue
        # box
        if not box_exempt:
            ibox = list(system.box.vects.ravel()) + list(system.box.origin)
            padded = any((not pbc[k]) and (min(s[k] for s in spos) <= 0 or max(s[k] for s in spos) >= 1) for k in range(3))
            if grid and not padded:
                okb = all(F(float(a)) == b for a, b in zip(ibox, mbox))
            else:
                sc = max(abs(float(b)) for b in mbox)
                # (a lengthened vector is old vector x (max - min) of the scaled coordinates: their error times the vector)
                tolb = max(TOL * sc, (4 * esall + 8 * U * (1 + max(smaxs))) * _normV(case['vects'])
                           + 8 * U * max(abs(x) for x in case['origin']))
                okb = all(abs(float(a) - float(b)) <= tolb for a, b in zip(ibox, mbox))
            if not okb:
                ctx.disagree('wrap:box', f'wrap (pbc {pbc}): new box {[float(x) for x in ibox]}, model '
                             f'{[float(x) for x in mbox]}', replay)
                continue
        after = _snap(system)
        bad = _same_snap(before, after, skip=('vects', 'origin', 'pos'))
        if bad:
            ctx.disagree('wrap:carried', f'wrap changed {bad}', replay)


def _corr_norm(ctx, cases):
    import numpy as np
    import atomman as am
    outs = ctx.driver.ask_many([_line('norm', c) for c in cases])
    for case, out in zip(cases, outs):
        system = _build(case)
        before = _snap(system)
        replay = {'op': 'norm', 'case': case}
        try:
            new, T = system.normalize(return_transform=True)
            impl_err = None
        except Exception as e:  # noqa
            impl_err = _impl_err(e)
        # "the input system is left as it was": heap fact, checked on the implementation
        bad = _same_snap(before, _snap(system))
        if bad:
            ctx.violate('normalize:input-modified', f'normalize changed its input: {bad}', replay)
            continue
        if out.startswith('err:') or impl_err:
            ctx.stats.case('norm:error', _line('norm', case), nontrivial=False)
            # partially periodic systems whose padding decision is within the bound of a face are exempt; a singular
            # cell must be refused by both sides (by which exception is not part of the property)
            if case.get('kind') == 'singular' and impl_err and out.startswith('err:'):
                continue
            if out != impl_err and not _norm_raise_exempt(case):
                ctx.disagree('norm:error', f'normalize (pbc {case["pbc"]}): implementation {impl_err or "succeeds"}, '
                             f'model {out if out.startswith("err:") else "succeeds"}', replay)
            continue
        shared = [k for k in new.atoms.view.keys() if np.shares_memory(new.atoms.view[k], system.atoms.view[k])]
        if shared or (_raw_vects(new.box) is not None and np.shares_memory(_raw_vects(new.box), _raw_vects(system.box))):
            ctx.violate('normalize:shares-memory', f'normalized system shares memory with its input: {shared or "box"}',
                        replay)
            continue
        sec = _sections(out)
        mbox = [F(t) for t in sec[0]]
        mpos = _chunks3([F(t) for t in sec[1]])
        mT = [F(t) for t in sec[3]]
        spos = _chunks3([F(t) for t in sec[4]])
        flipped = sec[5] == ['1']
        full = all(case['pbc'])
        ctx.stats.case('norm:' + case.get('kind', case['regime']) + (':full' if full else ':partial'),
                       _line('norm', case), nontrivial=True,
                       sample={'op': 'normalize', 'case': case, 'flipped': flipped})
        # the public function and the method are the same thing
        new2, T2 = am.lammps.normalize(system, return_transform=True)
        if not (np.array_equal(new2.atoms.pos, new.atoms.pos) and np.array_equal(new2.box.vects, new.box.vects)
                and np.array_equal(T2, T)):
            ctx.disagree('norm:entry-points', 'System.normalize and atomman.lammps.normalize differ', replay)
            continue
        pbc = case['pbc']
        # after the rebuild every coordinate is recomputed in floating point: a coordinate the model puts
        # within the bound of an integer is exempt on periodic axes; a partially periodic system whose
        # outermost atom is within the bound of a face has an undecided padding
        exempt, box_exempt = [], False
        # 1e-9, or the derived bound where that is larger (cells with a lattice angle a fraction of a degree from 0 / 180)
        kn = max(_kappa(_fm(case['vects'])), _kabc(_fm(case['vects'])))
        tolf = max(TOL, CN * U * kn * kn)
        for s in spos:
            ex = {k for k in range(3) if pbc[k] and abs(float(s[k] - _nearint(s[k]))) <= tolf * (1 + abs(float(s[k])))}
            exempt.append(ex)
        if not full and _norm_raise_exempt(case, spos):
            box_exempt = True
        ctx.extra['exempt_flags'] = ctx.extra.get('exempt_flags', 0) + sum(len(e) for e in exempt)
        if box_exempt:
            continue
        ibox = list(new.box.vects.ravel()) + list(new.box.origin)
        sc = max(abs(float(b)) for b in mbox)
        if not all(abs(float(a) - float(b)) <= tolf * sc for a, b in zip(ibox, mbox)):
            ctx.disagree('norm:box', f'normalize: new box {[float(x) for x in ibox]}, model {[float(x) for x in mbox]}',
                         replay)
            continue
        k2c = _kappa2(_fm(case['vects']))
        if not all(abs(float(a) - float(b)) <= max(1e-8, CN * U * k2c * k2c) for a, b in zip(T.ravel(), mT)):
            ctx.disagree('norm:transform', f'normalize: transform {T.tolist()}, model {[float(x) for x in mT]}', replay)
            continue
        newinv = _inv([mbox[0:3], mbox[3:6], mbox[6:9]])
        ncase = dict(case, vects=[[float(x) for x in mbox[0:3]], [float(x) for x in mbox[3:6]],
                                  [float(x) for x in mbox[6:9]]], origin=[float(x) for x in mbox[9:12]])
        if not _compare_positions(ncase, 'norm', ctx, new.atoms.view['pos'].tolist(), mpos, spos, exempt, newinv, False,
                                  tolf=tolf):
            continue
        bad = _same_snap(before, _snap(new), skip=('vects', 'origin', 'pos'))
        if bad:
            ctx.disagree('norm:carried', f'normalize did not carry over {bad}', replay)


def _norm_raise_exempt(case, spos=None):
    """partially periodic normalize: is some non-periodic extreme within the bound of a face (of the flipped cell)?"""
    if all(case['pbc']):
        return False
    if spos is None:
        V, o = _fm(case['vects']), _fv(case['origin'])
        if _det(V) < 0:
            o = [a + b for a, b in zip(o, V[2])]
            V = [V[0], V[1], [-x for x in V[2]]]
        Vi = _inv(V)
        spos = [_rel(_fv(p), V, Vi, o) for p in case['pos']]
    for k in range(3):
        if not case['pbc'][k]:
            mn = float(min(s[k] for s in spos))
            mx = float(max(s[k] for s in spos))
            if abs(mn) <= TOL * (1 + abs(mn)) or abs(mx - 1) <= TOL * (1 + abs(mx)):
                return True
    return False


# ----------------------------------------------------------------------------------------
# histories on ONE System object (hidden state: the Box's cached reciprocal vectors)
# ----------------------------------------------------------------------------------------
def _state(system):
    """the visible state of a live system in the form of a case (exact floats)."""
    return {'vects': system.box.vects.tolist(), 'origin': system.box.origin.tolist(),
            'pbc': [bool(p) for p in system.pbc], 'pos': system.atoms.view['pos'].tolist()}


def _finite_state(st):
    return all(math.isfinite(x) for r in st['vects'] for x in r) and all(math.isfinite(x) for x in st['origin']) \
        and all(math.isfinite(x) for p in st['pos'] for x in p)


def _inv_exact(V):
    """is numpy's inverse of this cell exact (so that scaled coordinates on the grid are computed exactly)?"""
    import numpy as np
    try:
        R = np.linalg.inv(np.array(V, dtype=float)).T
    except Exception:  # noqa
        return False
    want = _tr(_inv(_fm(V)))
    return all(F(float(R[i][j])) == want[i][j] for i in range(3) for j in range(3))


GETTERS = ('vects', 'origin', 'avect', 'bvect', 'cvect', 'a', 'b', 'c', 'alpha', 'beta', 'gamma', 'volume',
           'reciprocal_vects', 'is_lammps_norm', 'lx', 'xy', 'xlo', 'zhi', 'pos', 'spos', 'atoms_df', 'inside', 'planes',
           'symbols', 'masses', 'natypes', 'str')


def _concretize(system, op):
    """turn the recipe of an operation into the concrete numbers handed to the implementation."""
    import numpy as np
    if op['op'] in ('peek', 'badscale'):
        return dict(op, pbc=[bool(p) for p in system.pbc])
    if op['op'] == 'pbcedit':
        return dict(op)
    if op['op'] == 'move':
        # new Cartesian positions: some atoms displaced by a combination of the current cell vectors
        V, P = system.box.vects, system.atoms.view['pos'].astype(float)
        if op.get('gridkeep'):
            Vf = _fm(V)
            new = []
            for i, p in enumerate(P.tolist()):
                sh = op['shift'][i % len(op['shift'])]
                q = [F(float(a)) + b for a, b in zip(p, _vm([F(x) for x in sh], Vf))]
                qf = [float(x) for x in q]
                if not all(F(a) == b for a, b in zip(qf, q)):
                    qf = [float(x) for x in p]           # would leave the grid: this atom stays
                new.append(qf)
        else:
            new = [(np.array(p) + np.array(op['shift'][i % len(op['shift'])], dtype=float) @ V).tolist()
                   for i, p in enumerate(P.tolist())]
        return dict(op, P=new)
    if op['op'] not in ('boxset', 'setvects'):
        return op
    V, o = system.box.vects, system.box.origin
    how = op.get('how', 'vects')
    if op.get('same') or how == 'origin-only':
        Vn = V
    elif 'left' in op:
        Vn = np.array(op['left'], dtype=float) @ V
    elif 'right' in op:
        Vn = V @ np.array(op['right'], dtype=float)
    else:
        Vn = np.array(op['vects'], dtype=float)
    og = op.get('origin', 'keep')
    if isinstance(og, str) and og == 'default':            # origin not passed: Box.set resets it to (0, 0, 0)
        on = np.zeros(3)
    elif isinstance(og, str) and og == 'follow' and 'right' in op:
        on = o @ np.array(op['right'], dtype=float)
    elif isinstance(og, str):
        on = o
    else:
        on = np.array(og, dtype=float)
    lower = Vn[0, 1] == 0 and Vn[0, 2] == 0 and Vn[1, 2] == 0 and Vn[0, 0] > 0 and Vn[1, 1] > 0 and Vn[2, 2] > 0
    if how in ('lengths', 'hilo') and not lower:
        how = 'avect'
    if how == 'hilo':
        # set_hi_los forms lx = xhi - xlo in floating point: hand the model the cell the implementation will see
        Vn = Vn.copy()
        hi = [on[k] + Vn[k, k] for k in range(3)]
        for k in range(3):
            Vn[k, k] = hi[k] - on[k]
        if not (Vn[0, 0] > 0 and Vn[1, 1] > 0 and Vn[2, 2] > 0):
            how = 'avect'
        return dict(op, how=how, V=Vn.tolist(), o=on.tolist(), hi=[float(x) for x in hi])
    if how == 'origin-only' and og == 'default':
        on = o
    return dict(op, how=how, V=Vn.tolist(), o=on.tolist())


def _op_line(c):
    k = c['op']
    if k == 'boxset':
        return f"boxset {int(bool(c['scale']))} " + cm.frs([x for r in c['V'] for x in r]) + ' ' + cm.frs(c['o'])
    if k == 'setvects':
        return 'setvects ' + cm.frs([x for r in c['V'] for x in r])
    if k == 'setorigin':
        return 'setorigin ' + cm.frs(c['origin'])
    if k in ('setpbc', 'peek', 'badscale'):            # reads and refused calls: the model state must not change
        return 'setpbc ' + ' '.join('1' if p else '0' for p in c['pbc'])
    if k == 'pbcedit':
        # an in-place edit of the pbc array: item assignment in the model where that is what happened; whatever the
        # object reads afterwards is what the next operation must follow (the model is told exactly that)
        want = list(c.get('pbc_before', c['pbc_after']))
        if c.get('how') != 'all':
            want[c['axis']] = bool(c['value'])
        if want == c['pbc_after'] and c.get('how') != 'all':
            return f"editpbc {c['axis']} {int(bool(c['value']))}"
        return 'setpbc ' + ' '.join('1' if p else '0' for p in c['pbc_after'])
    if k == 'move':
        return 'setpos ' + cm.frs([x for p in c['P'] for x in p])
    return k


class _Handed:
    """arrays handed to the implementation: it must neither write to them nor keep them (they are overwritten with
    NaN right after the call, so a kept reference shows up in the state of the object)."""

    def __init__(self):
        self.items = []

    def arr(self, x):
        import numpy as np
        a = np.array(x, dtype=float)
        self.items.append((a, a.copy()))
        return a

    def done(self):
        import numpy as np
        bad = [i for i, (a, c) in enumerate(self.items) if not np.array_equal(a, c)]
        for a, _ in self.items:
            a[...] = np.nan
        return bad


def _scribble(x):
    """overwrite what a call returned: nothing of the object's state may be reachable through it."""
    import numpy as np
    if isinstance(x, np.ndarray) and x.flags.writeable and x.dtype.kind in 'fiub':
        x[...] = (np.nan if x.dtype.kind == 'f' else -7 if x.dtype.kind in 'iu' else False)
    elif isinstance(x, (tuple, list)):
        for y in x:
            _scribble(y)


def _peek(system, names, scribble=True):
    """read getters in the given order; everything they return is then overwritten."""
    import numpy as np
    b = system.box
    out = []
    for nm in names:
        try:
            if nm in ('vects', 'origin', 'avect', 'bvect', 'cvect', 'a', 'b', 'c', 'alpha', 'beta', 'gamma', 'volume',
                      'reciprocal_vects', 'lx', 'xy', 'xlo', 'zhi', 'planes'):
                v = getattr(b, nm)
            elif nm == 'is_lammps_norm':
                v = b.is_lammps_norm()
            elif nm == 'pos':
                v = system.atoms_prop('pos')
            elif nm == 'spos':
                v = system.atoms_prop('pos', scale=True)
            elif nm == 'atoms_df':
                v = system.atoms_df(scale=True).to_numpy()
            elif nm == 'inside':
                v = b.inside(system.atoms.pos)
            elif nm == 'str':
                v = str(system)
            else:
                v = getattr(system, nm)
        except AssertionError:          # lx, xy, xlo, zhi of a cell that is not LAMMPS-normal: documented refusal
            v = None
        out.append((nm, v.copy() if isinstance(v, np.ndarray) else v))
        if scribble:
            _scribble(v)
    return out


def _angle_deg(u, v):
    """angle between two exact vectors, in degrees, well conditioned at every angle (atan2 of |u x v| and u.v)."""
    cx = [u[1] * v[2] - u[2] * v[1], u[2] * v[0] - u[0] * v[2], u[0] * v[1] - u[1] * v[0]]
    n2 = sum(x * x for x in cx)
    d = sum(a * b for a, b in zip(u, v))
    sc = sum(a * a for a in u) * sum(b * b for b in v)
    # (scaled by |u|^2 |v|^2 so that nothing leaves the double range at 2^+-320)
    return math.degrees(math.atan2(math.sqrt(float(n2 / sc)), float(d * d / sc) ** 0.5 * (1 if d >= 0 else -1)))


def _sqrt_fr(x):
    """square root of a Fraction as a float, at any magnitude."""
    if x == 0:
        return 0.0
    e = (x.numerator.bit_length() - x.denominator.bit_length()) // 2
    return math.ldexp(math.sqrt(float(x / F(4) ** e)), e)


def _getters_bad(values, state):
    """what the Box getters report against the exact cell `state` (the lengths a, b, c, the lattice angles and the
    volume are the quantities normalize rebuilds the cell from).  Returns a description of the first wrong value."""
    import numpy as np
    V = _fm(state['vects'])
    o = _fv(state['origin'])
    rows = {'avect': 0, 'bvect': 1, 'cvect': 2}
    pairs = {'alpha': (1, 2), 'beta': (0, 2), 'gamma': (0, 1)}
    for nm, v in values:
        if v is None:
            continue
        if nm == 'vects' and np.asarray(v).tolist() != state['vects']:
            return f'box.vects reads {np.asarray(v).tolist()}, the cell is {state["vects"]}'
        if nm == 'origin' and np.asarray(v).tolist() != state['origin']:
            return f'box.origin reads {np.asarray(v).tolist()}, the origin is {state["origin"]}'
        if nm in rows and np.asarray(v).tolist() != state['vects'][rows[nm]]:
            return f'box.{nm} reads {np.asarray(v).tolist()}, the vector is {state["vects"][rows[nm]]}'
        if nm in ('a', 'b', 'c'):
            want = _sqrt_fr(sum(x * x for x in V['abc'.index(nm)]))
            if not abs(float(v) - want) <= 8 * U * want:
                return f'box.{nm} reads {float(v)!r}, the length of that cell vector is {want!r}'
        if nm in pairs:
            i, j = pairs[nm]
            want = _angle_deg(V[i], V[j])
            # the code forms the cosine (absolute error a few u) and takes arccos: error a few u / sin(angle)
            sn = max(math.sin(math.radians(want)), 1e-300)
            tol = math.degrees(16 * U / sn) + 8 * U * 180.0
            if not abs(float(v) - want) <= tol:
                return (f'box.{nm} reads {float(v)!r} degrees, the angle between those cell vectors is {want!r} '
                        f'(off by {abs(float(v) - want):.3g}, rounding bound {tol:.3g})')
        if nm == 'volume':
            det = abs(_det(V))
            scale = _sqrt_fr(sum(x * x for x in V[0])) * _sqrt_fr(sum(x * x for x in V[1])) * _sqrt_fr(sum(x * x for x in V[2]))
            if not (abs(float(v) - float(det)) <= 32 * U * scale if math.isfinite(scale) and scale > 0 else True):
                return f'box.volume reads {float(v)!r}, the volume of the cell is {float(det)!r}'
        if nm == 'is_lammps_norm':
            W = state['vects']
            want = W[0][1] == 0 and W[0][2] == 0 and W[1][2] == 0 and W[0][0] > 0 and W[1][1] > 0 and W[2][2] > 0
            if bool(v) != want:
                return f'box.is_lammps_norm() is {bool(v)} for the cell {W}'
        if nm in ('lx', 'xy') and float(v) != state['vects'][{'lx': 0, 'xy': 1}[nm]][0]:
            return f'box.{nm} reads {float(v)!r}, the cell is {state["vects"]}'
    return None


def _apply(system, c):
    """one operation on the live object; returns what the call hands back."""
    import numpy as np
    import atomman as am
    k = c['op']
    if k == 'spos':
        return system.atoms_prop('pos', scale=True)
    if k == 'peek':
        return _peek(system, c['what'])
    if k == 'wrap':
        return _call_wrap(system, c.get('ret', 'kw'))
    if k == 'norm':
        return _call_norm(system, c.get('ret', 'kw'))
    if k == 'rebuild':
        b = system.box
        return system.box_set(a=b.a, b=b.b, c=b.c, alpha=b.alpha, beta=b.beta, gamma=b.gamma, scale=True)
    H = _Handed()
    try:
        if k == 'setorigin':
            system.box.origin = H.arr(c['origin'])
            return None
        if k == 'setpbc':
            form = c.get('form', 'tuple')
            arg = _pbc_arg(c['pbc'], form)
            system.pbc = arg
            _HANDED_PBC[id(system)] = arg if form == 'npbool' else None
            return None
        if k == 'pbcedit':
            # the periodicity setting edited IN PLACE: through the array the getter hands out, or through the caller's
            # own array that was handed to the constructor / the setter
            c['pbc_before'] = [bool(p) for p in system.pbc]
            ax, val, how = c.get('axis', 0), bool(c.get('value')), c.get('how', 'item')
            arr = _HANDED_PBC.get(id(system)) if how == 'handed' else None
            if arr is not None:
                arr[ax] = val
            elif how == 'itemnp':
                system.pbc[ax] = np.bool_(val)
            elif how == 'slice':
                system.pbc[ax:ax + 1] = [val]
            elif how == 'negindex':
                system.pbc[ax - 3] = val
            elif how == 'all':
                system.pbc[...] = np.array(c['pbc'], dtype=bool)
            else:
                system.pbc[ax] = val
            c['pbc_after'] = [bool(p) for p in system.pbc]
            return None
        if k == 'move':
            how = c.get('how', 'attr')
            if how == 'attr':
                system.atoms.pos = H.arr(c['P'])
            elif how == 'prop':
                system.atoms_prop('pos', value=H.arr(c['P']))
            elif how == 'aprop':
                system.atoms.prop('pos', value=H.arr(c['P']))
            elif how == 'view':
                system.atoms.view['pos'] = H.arr(c['P'])
            elif how == 'inplace':                  # in-place edit of the array the object holds
                system.atoms.view['pos'][...] = np.array(c['P'], dtype=float)
            else:                                   # atom by atom
                for i, p in enumerate(c['P']):
                    system.atoms_prop('pos', index=i, value=H.arr(p))
            return None
        if k == 'badscale':
            # documented refusal: scale must be a bool
            try:
                system.box_set(vects=H.arr(system.box.vects * 1.5), scale=c['scale'])
            except TypeError:
                return 'TypeError'
            return 'accepted'
        V, o = H.arr(c['V']), H.arr(c['o'])
        if k == 'setvects':
            system.box.vects = V
            return None
        how, sc = c['how'], bool(c['scale'])
        kw = {} if c.get('origin') == 'default' else {'origin': o}
        if how == 'vects':
            system.box_set(vects=V, scale=sc, **kw)
        elif how == 'avect':
            system.box_set(avect=V[0], bvect=V[1], cvect=V[2], scale=sc, **kw)
        elif how == 'lengths':
            system.box_set(lx=V[0, 0], ly=V[1, 1], lz=V[2, 2], xy=V[1, 0], xz=V[2, 0], yz=V[2, 1], scale=sc, **kw)
        elif how == 'hilo':
            hi = c['hi']
            system.box_set(xlo=o[0], xhi=hi[0], ylo=o[1], yhi=hi[1], zlo=o[2], zhi=hi[2], xy=V[1, 0], xz=V[2, 0],
                           yz=V[2, 1], scale=sc)
        elif how == 'origin-only':
            system.box_set(origin=o, scale=sc)
        elif how == 'box.set':                      # only generated with scale False
            system.box.set(vects=V, **kw)
        else:
            raise cm.InfraError('unknown box_set form ' + how)
        return None
    finally:
        bad = H.done()
        if bad:
            c['_handed_modified'] = bad


class _NormResult:
    """bitwise copy of what normalize returned (the live result is overwritten right after the call)."""

    def __init__(self, new, T):
        import numpy as np
        self.vects = new.box.vects.copy()
        self.origin = new.box.origin.copy()
        self.pos = new.atoms.view['pos'].copy()
        self.snap = _snap(new)
        self.lammps_norm = bool(new.box.is_lammps_norm())
        self.T = None if T is None else np.array(T, copy=True)
        self.is_system = type(new).__name__ == 'System'


def _norm_arrays(new, T):
    import numpy as np
    arrs = [new.atoms.view[k] for k in new.atoms.view.keys()]
    rv = _raw_vects(new.box)
    if rv is not None:
        arrs.append(rv)
    ro = getattr(new.box, '_Box__origin', None)
    if ro is not None:
        arrs.append(ro)
    if isinstance(getattr(new, 'pbc', None), np.ndarray):
        arrs.append(new.pbc)
    if isinstance(T, np.ndarray):
        arrs.append(T)
    return arrs


def _run_hist(hist):
    """run the history on ONE System object; one record per operation (the run ends at the first exception).
    Everything a call returns is copied and then overwritten, everything handed in is overwritten after the call."""
    import numpy as np
    system = _build(hist['case'])
    recs = []
    live = []                  # arrays returned by earlier calls (kept alive): later results must not share memory
    for op in hist['ops']:
        c = _concretize(system, op)
        rec = {'c': c, 'before': _state(system), 'snap0': _snap(system)}
        try:
            obs = _apply(system, c)
            if c['op'] == 'norm':
                new, T = obs
                mine = _norm_arrays(new, T)
                own = [system.atoms.view[kk] for kk in system.atoms.view.keys()] + [_raw_vects(system.box), system.pbc]
                rec['shared'] = sorted({'input' for x in mine for y in own if y is not None and np.shares_memory(x, y)}
                                       | {'an earlier result' for x in mine for y in live if np.shares_memory(x, y)})
                if isinstance(T, np.ndarray) and any(np.shares_memory(T, x) for x in mine[:-1]):
                    rec['shared'].append('transform/system')
                rec['obs'] = _NormResult(new, T)
                live.extend(mine)
                for x in mine:
                    _scribble(x)
            elif isinstance(obs, np.ndarray):
                own = [system.atoms.view[kk] for kk in system.atoms.view.keys()] + [_raw_vects(system.box)]
                if any(y is not None and np.shares_memory(obs, y) for y in own) or any(np.shares_memory(obs, y) for y in live):
                    rec['shared'] = ['returned array']
                rec['obs'] = obs.copy()
                live.append(obs)
                _scribble(obs)
            else:
                rec['obs'] = obs
        except cm.InfraError:
            raise
        except Exception as e:  # noqa
            rec['err'] = _impl_err(e)
            rec['exc'] = f'{type(e).__name__}: {e}'
        rec['after'] = _state(system)
        rec['snap1'] = _snap(system)
        recs.append(rec)
        if 'err' in rec or not _finite_state(rec['after']):
            break
    return system, recs


def _keeps_exact(c, before, after_vects):
    """does this operation keep a grid state on the grid (every float operation of later steps exact)?"""
    k = c['op']
    if k in ('spos', 'norm', 'setpbc', 'peek', 'badscale', 'pbcedit'):
        return True
    if k in ('setorigin', 'move'):
        return bool(c.get('gridkeep'))
    if k == 'wrap':
        return all(before['pbc'])
    if k in ('boxset', 'setvects'):
        if c.get('same'):
            return True
        if c.get('gridkeep') and _inv_exact(after_vects):
            return True
    return False


def _hist_name(hist):
    return '>'.join(o['op'] + ('*' if o.get('scale') is True else '') for o in hist['ops'])


def _corr_hist(ctx, hists):
    import numpy as np
    runs = []
    lines = []
    for h in hists:
        try:
            system, recs = _run_hist(h)
        except cm.InfraError:
            raise
        # an object whose state is no longer finite (it kept a reference to an array that was overwritten after the
        # call, ...) cannot be put on the wire: the history is cut there and reported
        for i, rec in enumerate(recs):
            if not _finite_state(rec['after']):
                ctx.violate('aliasing:array-kept', f'history {_hist_name(h)} step {i} ({rec["c"]["op"]}'
                            f'{" " + str(rec["c"].get("what")) if rec["c"]["op"] == "peek" else ""}): the object and the '
                            'caller share an array (handed in and kept, or handed out without a copy): overwriting the '
                            f'caller\'s array after the call changed the state of the system (box {rec["after"]["vects"]}, '
                            f'origin {rec["after"]["origin"]})', {'op': 'hist', 'hist': _pub(h), 'step': i})
                del recs[i:]
                break
        runs.append(recs)
        exact = h['case']['regime'] == 'grid'
        chain = exact
        for rec in recs:
            rec['exact'] = exact
            exact = exact and 'err' not in rec and _keeps_exact(rec['c'], rec['before'], rec['after']['vects'])
            lines.append(_line('hist', rec['before']) + ' ; ' + _op_line(rec['c']))
        # a history that stays on the grid is also run as ONE chain on the object-level model
        h['_chain'] = chain and exact and len(recs) == len(h['ops'])
        if h['_chain']:
            lines.append(_line('hist', recs[0]['before']) + ' ; ' + ' ; '.join(_op_line(r['c']) for r in recs))
    outs = iter(ctx.driver.ask_many(lines))
    for h, recs in zip(hists, runs):
        secs = [next(outs) for _ in recs]
        ctx.stats.case('hist:' + h['case']['regime'] + ':' + str(len(h['ops'])), (_hist_name(h), _line('hist', h['case'])),
                       nontrivial=True, sample={'op': 'hist', 'ops': _hist_name(h), 'pbc': h['case']['pbc'],
                                                'natoms': len(h['case']['pos'])})
        ctx.extra['hist_steps'] = ctx.extra.get('hist_steps', 0) + len(recs)
        ok = True
        for k, (rec, sec) in enumerate(zip(recs, secs)):
            try:
                good = _check_step(ctx, h, k, rec, sec)
            except cm.InfraError:
                raise
            except Exception as e:  # noqa  an implementation state the comparison cannot digest is a disagreement
                ctx.disagree('hist:uncomparable', f'history {_hist_name(h)} step {k}: {type(e).__name__}: {e}',
                             {'op': 'hist', 'hist': _pub(h), 'step': k})
                good = False
            if not good:
                ok = False
                break
        if h['_chain']:
            chain = next(outs).split(' ; ')
            ctx.extra['hist_chained'] = ctx.extra.get('hist_chained', 0) + 1
            if ok and chain != [s_ for s_ in secs]:
                # every step agreed exactly with the model started from the implementation's own state, so the
                # chained run of the object-level model (cache carried along) must print the same sections
                bad = next((i for i, (a, b) in enumerate(zip(chain, secs)) if a != b), min(len(chain), len(secs)))
                ctx.disagree('hist:chain', f'history {_hist_name(h)}: the chained model run differs from the step-wise '
                             f'one at step {bad}', {'op': 'hist', 'hist': _pub(h), 'step': bad})


def _pub(h):
    return {'case': h['case'], 'ops': h['ops']}


def _split(sec):
    tag, _, body = sec.partition(' ')
    return tag, [p.split() for p in body.split(' | ')]


def _check_step(ctx, h, k, rec, sec):
    """compare one operation of a history: model started from the implementation's state before the operation."""
    import numpy as np
    c = rec['c']
    name = c['op']
    replay = {'op': 'hist', 'hist': _pub(h), 'step': k}
    label = f'history {_hist_name(h)} step {k} ({name})'
    b, a = rec['before'], rec['after']
    pbc = b['pbc']
    # --- heap facts first: what an operation must not touch -----------------------------------------
    skip = ('vects', 'origin', 'pos') if name in ('wrap', 'boxset', 'rebuild', 'setvects', 'setorigin', 'move') else ()
    s0, s1 = rec['snap0'], rec['snap1']
    if c.get('_handed_modified'):
        ctx.violate('aliasing:handed-in-array-modified', f'{label}: the call wrote to the array(s) it was handed '
                    f'(argument {c["_handed_modified"]})', replay)
        return False
    if rec.get('shared') and name != 'norm':
        ctx.violate('aliasing:returned-array-shared', f'{label}: the returned array shares memory with the object or '
                    'with an array returned earlier', replay)
        return False
    if name == 'setpbc':
        s0 = dict(s0, pbc=tuple(c['pbc']))
    if name == 'pbcedit' and 'pbc_after' in c:
        s0 = dict(s0, pbc=tuple(c['pbc_after']))
    bad = _same_snap(s0, s1, skip=skip)
    if bad and 'err' not in rec:
        if name == 'norm':
            ctx.violate('normalize:input-modified', f'{label}: normalize changed its input: {bad}', replay)
        else:
            ctx.disagree('hist:carried', f'{label} changed {bad}', replay)
        return False
    # --- failures ------------------------------------------------------------------------------------
    if sec.startswith('E') or sec.startswith('err:') or 'err' in rec:
        merr = {'E assert': 'err:assert', 'E value': 'err:value'}.get(sec.strip(), sec.strip() if sec.startswith('err:') else None)
        ctx.stats.case('hist:error', (label, sec[:40]), nontrivial=False)
        if merr != rec.get('err'):
            if name == 'norm' and _norm_raise_exempt(b):
                return False
            ctx.disagree('hist:error', f'{label}: implementation {rec.get("exc") or "succeeds"}, model '
                         f'{merr or "succeeds"}', replay)
        return False
    tag, parts = _split(sec)
    exact = rec['exact']
    Vf, of = _fm(b['vects']), _fv(b['origin'])
    if _det(Vf) == 0:
        ctx.disagree('hist:singular', f'{label}: the object holds the singular cell {b["vects"]}', replay)
        return False
    kap = _kappa(Vf)
    if name in ('rebuild', 'norm'):
        kap = max(kap, _kabc(Vf))        # the rebuild from lengths and angles has its own conditioning
    nV = _normV(b['vects'])
    omax = max(abs(x) for x in b['origin'])
    n = len(b['pos'])

    def dis(key, what):
        ctx.disagree('hist:' + key, f'{label}: {what}', replay)
        return False

    if tag == 'S':
        ms = _chunks3([F(t) for t in parts[0]])
        obs = np.asarray(rec['obs'], dtype=float)
        if obs.shape != (n, 3):
            return dis('spos', f'scaled positions have shape {obs.shape}')
        for i in range(n):
            smax = max(abs(float(x)) for x in ms[i])
            for j in range(3):
                d = abs(F(float(obs[i, j])) - ms[i][j])
                if (exact and d != 0) or _over('corr:spos', d, _es(kap, smax)):
                    return dis('spos', f'scaled coordinate {j} of atom {i} is {float(obs[i, j])!r}, model {float(ms[i][j])!r}')
        return True
    if tag == 'W':
        mbox = [F(t) for t in parts[0]]
        mpos = _chunks3([F(t) for t in parts[1]])
        mflags = _chunks3([int(t) for t in parts[2]])
        spos = _chunks3([F(t) for t in parts[3]])
        wantflags = c.get('ret', 'kw') in WANTS_FLAGS
        if not wantflags:
            if rec['obs'] is not None:
                return dis('flags-returned', f'wrap() without return_imageflags returned {type(rec["obs"]).__name__}')
            fl = np.array(mflags, dtype=int).reshape(n, 3)        # (not observable: positions are compared below)
        else:
            fl = np.asarray(rec['obs'])
        if fl.shape != (n, 3) or not np.issubdtype(fl.dtype, np.integer):
            return dis('flags-shape', f'image flags have shape {fl.shape} dtype {fl.dtype}')
        smaxs = [max(abs(float(x)) for x in s) for s in spos]
        exempt = []
        for i, s in enumerate(spos):
            ex = set()
            if not exact:
                for j in range(3):
                    if pbc[j] and abs(float(s[j] - _nearint(s[j]))) <= _es(kap, smaxs[i]):
                        ex.add(j)
            exempt.append(ex)
        ctx.extra['exempt_flags'] = ctx.extra.get('exempt_flags', 0) + sum(len(e) for e in exempt)
        for i in range(n):
            for j in range(3):
                if int(fl[i, j]) != mflags[i][j] and not (j in exempt[i] and abs(int(fl[i, j]) - mflags[i][j]) == 1):
                    return dis('flags', f'image flag of atom {i} axis {j} (pbc {pbc}) is {int(fl[i, j])}, model '
                               f'{mflags[i][j]} (scaled coordinate {float(spos[i][j])!r})')
        oldinv = _inv(Vf)
        for i in range(n):
            ip = [F(float(x)) for x in a['pos'][i]]
            d = [x - y for x, y in zip(ip, mpos[i])]
            if exempt[i]:
                cc = _vm(d, oldinv)
                shift = [(_nearint(cc[j]) if j in exempt[i] else 0) for j in range(3)]
                if any(abs(t) > 1 for t in shift):
                    return dis('positions', f'atom {i} moved by {shift} cells relative to the model')
                d = [x - y for x, y in zip(d, _vm([F(t) for t in shift], Vf))]
            err = max(abs(float(x)) for x in d)
            if (exact and err != 0) or _over('corr:wrap-pos', err, _ep(kap, smaxs[i], nV, omax)):
                return dis('positions', f'atom {i} at {a["pos"][i]}, model {[float(x) for x in mpos[i]]} '
                           f'(flags {fl[i].tolist()})')
        ibox = [F(float(x)) for r in a['vects'] for x in r] + [F(float(x)) for x in a['origin']]
        if all(pbc):
            if ibox != mbox:
                return dis('box', f'fully periodic wrap changed the box to {a["vects"]} origin {a["origin"]}')
        else:
            sall = max(smaxs)
            es = _es(kap, sall)
            undecided = (not exact) and any((not pbc[j]) and (abs(float(min(s[j] for s in spos))) <= es
                                              or abs(float(max(s[j] for s in spos)) - 1) <= es) for j in range(3))
            tolb = (4 * es + 8 * U * (1 + sall)) * nV + 8 * U * omax
            if not undecided and any(_over('corr:wrap-box', abs(x - y), tolb) for x, y in zip(ibox, mbox)):
                return dis('box', f'wrap (pbc {pbc}): new box {[float(x) for x in ibox]}, model {[float(x) for x in mbox]}')
        return True
    if tag == 'B':
        mbox = [F(t) for t in parts[0]]
        mpos = _chunks3([F(t) for t in parts[1]])
        ibox = [F(float(x)) for r in a['vects'] for x in r] + [F(float(x)) for x in a['origin']]
        if name == 'rebuild':
            sc = max(abs(float(x)) for x in mbox[:9])
            if any(_over('corr:rebuild-box', abs(x - y), CN * U * kap * kap * sc) for x, y in zip(ibox, mbox)):
                return dis('box', f'rebuilt box {[float(x) for x in ibox]}, model {[float(x) for x in mbox]}')
        elif ibox != mbox:
            # the clean-up of the setter is decided in exact arithmetic by the model: a term within rounding of the
            # 1e-9 threshold may go either way
            m = max(abs(x) for x in mbox[:9])
            soft = all(x == y or (abs(abs(float((x if x != 0 else y) / m)) - 1e-9) <= 1e-15) for x, y in zip(ibox, mbox))
            if not soft:
                return dis('box', f'box after the operation is {[float(x) for x in ibox]}, model {[float(x) for x in mbox]}')
        if name == 'badscale' and rec['obs'] != 'TypeError':
            ctx.violate('refusal:box_set-scale-type', f'{label}: box_set(scale={c["scale"]!r}) was {rec["obs"]} (the '
                        'documented TypeError for a scale that is not a bool is gone)', replay)
            return False
        if name == 'move':
            if a['pos'] != c['P']:
                return dis('positions', f'positions after the assignment are {a["pos"]}, assigned {c["P"]}')
            return True
        if name == 'peek' and isinstance(rec.get('obs'), list):
            badg = _getters_bad(rec['obs'], b)
            if badg:
                ctx.violate('box:getter-value', f'{label}: {badg}', replay)
                return False
        scaled = name == 'rebuild' or (name == 'boxset' and c['scale'])
        if not scaled:
            if a['pos'] != b['pos']:
                return dis('positions', 'absolute positions changed although scale is False' if name == 'boxset'
                           else f'absolute positions changed by {name}')
            return True
        nVn = _normV(a['vects'])
        onew = max(abs(x) for x in a['origin'])
        oi = _inv(Vf)
        cn = CN * kap if name == 'rebuild' else CS
        for i in range(n):
            smax = max(abs(float(x)) for x in _rel(_fv(b['pos'][i]), Vf, oi, of))
            err = max(abs(F(float(x)) - y) for x, y in zip(a['pos'][i], mpos[i]))
            if (exact and name != 'rebuild' and (c.get('same') or c.get('gridkeep')) and err != 0) or _over('corr:' + name + '-pos', err, _ep(kap, smax, nVn, onew, cn)):
                return dis('positions', f'atom {i} (relative coordinates held) is at {a["pos"][i]}, model '
                           f'{[float(x) for x in mpos[i]]}')
        return True
    if tag == 'N':
        return _check_norm_step(ctx, h, k, rec, parts, label, replay, kap)
    return dis('protocol', f'unexpected driver reply {sec[:60]!r}')


def _check_norm_step(ctx, h, k, rec, parts, label, replay, kap):
    import numpy as np
    import atomman as am
    b = rec['before']
    pbc = b['pbc']
    n = len(b['pos'])

    def dis(key, what):
        ctx.disagree('hist:norm-' + key, f'{label}: {what}', replay)
        return False

    res = rec['obs']
    T = res.T
    mbox = [F(t) for t in parts[0]]
    mpos = _chunks3([F(t) for t in parts[1]])
    mT = [F(t) for t in parts[3]]
    spos = _chunks3([F(t) for t in parts[4]])
    full = all(pbc)
    if not res.is_system or (T is None) != (rec['c'].get('ret', 'kw') in NO_TRANSFORM):
        return dis('return', f'normalize ({rec["c"].get("ret", "kw")}) returned the wrong kind of result')
    es = [_es(kap, max(abs(float(x)) for x in s), CN * kap) for s in spos]
    exempt = [{j for j in range(3) if pbc[j] and abs(float(s[j] - _nearint(s[j]))) <= es[i]} for i, s in enumerate(spos)]
    ctx.extra['exempt_flags'] = ctx.extra.get('exempt_flags', 0) + sum(len(e) for e in exempt)
    if not full and _norm_raise_exempt(b, spos):
        return True
    ibox = [F(float(x)) for x in res.vects.ravel()] + [F(float(x)) for x in res.origin]
    sc = max(abs(float(x)) for x in mbox[:9])
    if not full:
        sc *= 1 + max(max(abs(float(x)) for x in s) for s in spos)
    if any(_over('corr:norm-box', abs(x - y), CN * U * kap * kap * sc) for x, y in zip(ibox, mbox)):
        return dis('box', f'normalized box {[float(x) for x in ibox]}, model {[float(x) for x in mbox]}')
    k2 = _kappa2(_fm(b['vects']))
    if T is not None and any(_over('corr:norm-transform', abs(F(float(x)) - y), CN * U * k2 * k2) for x, y in zip(T.ravel(), mT)):
        return dis('transform', f'transform {T.tolist()}, model {[float(x) for x in mT]}')
    N = [mbox[0:3], mbox[3:6], mbox[6:9]]
    Ni = _inv(N)
    nVn = _normV([[float(x) for x in r] for r in N])
    newpos = res.pos.tolist()
    for i in range(n):
        d = [F(float(x)) - y for x, y in zip(newpos[i], mpos[i])]
        if exempt[i]:
            cc = _vm(d, Ni)
            shift = [(_nearint(cc[j]) if j in exempt[i] else 0) for j in range(3)]
            if any(abs(t) > 1 for t in shift):
                return dis('positions', f'atom {i} moved by {shift} cells relative to the model')
            d = [x - y for x, y in zip(d, _vm([F(t) for t in shift], N))]
        smax = max(abs(float(x)) for x in spos[i])
        if _over('corr:norm-pos', max(abs(float(x)) for x in d), _ep(kap, smax, nVn, 0.0, CN * kap)):
            return dis('positions', f'atom {i} at {newpos[i]}, model {[float(x) for x in mpos[i]]}')
    bad = _same_snap(rec['snap0'], res.snap, skip=('vects', 'origin', 'pos'))
    if bad:
        return dis('carried', f'normalize did not carry over {bad}')
    if rec.get('shared'):
        ctx.violate('normalize:shares-memory', f'{label}: what normalize returned shares memory with {rec["shared"]}',
                    replay)
        return False
    return True


# ---- generators of histories ---------------------------------------------------------------------
def _far_atoms(rng, case, lo=1.0, hi=3.7):
    """add atoms tens to thousands of cells outside along periodic directions (moderately along the others)."""
    import numpy as np
    V = np.array(case['vects'])
    o = np.array(case['origin'])
    grid = case['regime'] == 'grid'
    extra = []
    for _ in range(rng.randint(1, 3)):
        s = []
        for k in range(3):
            if rng.random() < 0.3:
                s.append(rng.randint(1, 7) / 8 if grid else rng.uniform(0.05, 0.95))
            else:
                m = 10 ** rng.uniform(lo, hi if case['pbc'][k] else min(hi, 2.0))
                if not grid and all(case['pbc']) and rng.random() < 0.08:
                    m = 10 ** rng.uniform(6, 14)           # "arbitrarily far": beyond the int32 range of image flags
                s.append(rng.choice([-1, 1]) * (float(int(m)) + rng.randint(0, 7) / 8 if grid else m))
        extra.append((np.array(s) @ V + o).tolist())
    case['pos'] = case['pos'] + extra
    return _canon_case(case)


def _strain(rng, lower=False):
    """I + E with |E| log-uniform from far below the rounding level to a few percent."""
    import numpy as np
    eps = rng.choice([-1, 1]) * 10 ** rng.uniform(-13, -1.5)
    kind = rng.choice(['iso', 'diag', 'shear', 'full', 'lower'])
    E = np.zeros((3, 3))
    if kind == 'iso':
        E = eps * np.eye(3)
    elif kind == 'diag':
        E = np.diag([eps * rng.uniform(-1, 1) for _ in range(3)])
    elif kind == 'shear':
        i, j = rng.sample(range(3), 2)
        if lower and j > i:
            i, j = j, i
        E[i, j] = eps
    else:
        E = eps * np.array([[rng.uniform(-1, 1) for _ in range(3)] for _ in range(3)])
        if kind == 'lower' or lower:
            E = np.tril(E)
    return (np.eye(3) + E).tolist()


def _box_op(rng, regime, kind, far=False):
    import numpy as np
    scale = rng.random() < 0.55
    how = rng.choice(['vects', 'vects', 'avect', 'lengths', 'hilo'] + ([] if scale else ['box.set']))
    if rng.random() < 0.1:
        # only the origin is given: box_set(origin=o, scale=...) (with scale=True the atoms follow the origin)
        o = [cm.dyadic(rng, -8, 8, 2) for _ in range(3)] if regime == 'grid' else [rng.uniform(-10, 10) for _ in range(3)]
        return {'op': 'boxset', 'same': True, 'scale': scale, 'how': 'origin-only', 'origin': o}
    if regime == 'grid':
        r = rng.random()
        og = rng.choice(['keep', 'keep', 'keep', 'default'])
        if r < 0.2:
            return {'op': 'boxset', 'same': True, 'scale': scale, 'how': how, 'origin': og}
        if r < 0.55:
            # row permutation / negation / power-of-two scaling: the state stays on the grid (handedness may flip)
            M = np.eye(3)
            t = rng.random()
            if t < 0.35:
                M = M[rng.sample(range(3), 3)]
            elif t < 0.6:
                M[rng.randint(0, 2)] *= -1
            else:
                M = np.diag([rng.choice([1, 2, 0.5, 1, 4]) for _ in range(3)]).astype(float)
            return {'op': 'boxset', 'left': M.tolist(), 'scale': scale, 'how': how, 'gridkeep': True, 'origin': og}
        # small dyadic shear / stretch: exactly representable input, tiny change of the cell
        M = np.eye(3)
        e = rng.choice([-1, 1]) * 2.0 ** -rng.choice([4, 12, 17, 20, 24, 27, 30, 34, 40])
        if rng.random() < 0.5:
            i, j = rng.sample(range(3), 2)
            M[i, j] = e
        else:
            M[rng.randint(0, 2), ] *= (1 + e)
        return {'op': 'boxset', 'left': M.tolist(), 'scale': scale, 'how': how}
    r = rng.random()
    if r < 0.08:
        return {'op': 'boxset', 'same': True, 'scale': scale, 'how': how}
    if r < 0.16:
        V, _ = _float_cell(rng)
        if far and not scale:        # a fresh cell under fixed Cartesian positions would turn "far along a periodic
            scale, how = True, 'vects'   # axis" into "far along any axis" (see the note at setpbc below)
        return {'op': 'boxset', 'vects': V.tolist(), 'scale': scale, 'how': how,
                'origin': [rng.uniform(-10, 10) for _ in range(3)]}
    lower = kind in ('normal', 'ortho') and rng.random() < 0.7
    og = rng.choice(['keep', 'keep', 'follow', 'default'])
    if rng.random() < 0.15:
        return {'op': 'setvects', 'right': _strain(rng, lower)}
    return {'op': 'boxset', 'right': _strain(rng, lower), 'scale': scale, 'how': how if lower else
            ('avect' if how == 'lengths' else how), 'origin': og}


# how the flags of the two calls are given: keyword / positional / left out / False, and - round 5 - as an integer or a
# numpy boolean (a flag is a truth value: 1 and numpy.True_ ask for the image flags / the transformation, 0 and
# numpy.False_ do not)
RETS_W = ('kw', 'pos', 'none', 'false')
RETS_N = ('kw', 'style', 'fn', 'none', 'fnnone')
RETS_W_ALL = RETS_W + ('int1', 'nptrue', 'int0', 'npfalse')
RETS_N_ALL = RETS_N + ('int1', 'nptrue', 'fnint1', 'int0', 'fnnpfalse')
WANTS_FLAGS = ('kw', 'pos', 'int1', 'nptrue')
NO_TRANSFORM = ('none', 'fnnone', 'int0', 'fnnpfalse')


def _flag_forms(h, it):
    """every other history: the flags of its wrap / normalize steps as integers / numpy booleans (same meaning)."""
    if it % 2:
        for j, c in enumerate(h['ops']):
            r = c.get('ret', 'kw')
            if c['op'] == 'wrap':
                c['ret'] = {'kw': ('int1', 'nptrue')[(it // 2 + j) % 2], 'false': ('int0', 'npfalse')[(it // 2 + j) % 2]}.get(r, r)
            elif c['op'] == 'norm':
                c['ret'] = {'kw': ('int1', 'nptrue')[(it // 2 + j) % 2], 'fn': 'fnint1',
                            'none': ('int0', 'none')[(it // 2 + j) % 2], 'fnnone': ('fnnpfalse', 'fnnone')[(it // 2 + j) % 2]}.get(r, r)
    return h


def _gen_hist(rng, regime):
    pbc = (True, True, True) if rng.random() < 0.75 else rng.choice(PBCS)
    case = _grid_case(rng, pbc, n=rng.randint(1, 5)) if regime == 'grid' else \
        _float_case(rng, pbc, n=rng.randint(1, 6), far=rng.random() < 0.3)
    if rng.random() < 0.8:
        case = _far_atoms(rng, case, hi=3.0 if regime == 'grid' else 3.7)
    kind = case.get('kind')
    ops = []
    import numpy as np
    srel = np.abs(np.linalg.solve(np.array(case['vects']).T, (np.array(case['pos']) - np.array(case['origin'])).T).T)
    far = bool(srel.max() > 100.0)
    free = [not far] * 3       # (a strain under fixed Cartesian positions mixes the axes along which an atom is far)
    def wrap_op():
        return {'op': 'wrap', 'ret': rng.choice(['kw', 'kw', 'pos', 'none', 'false'])}

    def norm_op():
        return {'op': 'norm', 'ret': rng.choice(['kw', 'kw', 'style', 'fn', 'none', 'fnnone'])}

    def named(k):
        return wrap_op() if k == 'wrap' else norm_op() if k == 'norm' else {'op': k}

    def peek_op():
        return {'op': 'peek', 'what': rng.sample(GETTERS, rng.randint(1, 6))}

    def move_op():
        n = rng.randint(1, 3)
        if regime == 'grid':
            sh = [[rng.choice([0, 0, 1, -1, 5, -40, 0.125, -0.5, 2.75]) for _ in range(3)] for _ in range(n)]
        else:
            sh = [[rng.choice([0.0, rng.uniform(-1, 1), rng.uniform(-30, 30), float(rng.randint(-3, 3))]) if all(pbc) or not far
                   else rng.uniform(-0.4, 0.4) for _ in range(3)] for _ in range(n)]
        return {'op': 'move', 'shift': sh, 'gridkeep': regime == 'grid',
                'how': rng.choice(['attr', 'prop', 'aprop', 'view', 'inplace', 'index'])}

    # opening: the cache is warmed (or not) before the cell is touched; getters read in some order
    first = rng.choice(['spos', 'wrap', 'norm', None, 'spos', 'wrap', 'peek'])
    if first:
        ops.append(peek_op() if first == 'peek' else named(first))
    for _ in range(rng.randint(1, 4)):
        r = rng.random()
        if r < 0.40:
            ops.append(_box_op(rng, regime, kind, far))
        elif r < 0.47:
            ops.append({'op': 'spos'})
        elif r < 0.53:
            ops.append(peek_op())
        elif r < 0.60:
            ops.append(move_op())
        elif r < 0.62:
            ops.append({'op': 'badscale', 'scale': rng.choice([1, 0, 'True', None, 1.0])})
        elif r < 0.77:
            ops.append(wrap_op())
        elif r < 0.87:
            ops.append(norm_op())
        elif r < 0.91 and regime != 'grid':
            ops.append({'op': 'rebuild'})
        elif r < 0.95:
            ops.append({'op': 'setorigin', 'gridkeep': regime == 'grid',
                        'origin': [cm.dyadic(rng, -8, 8, 2) for _ in range(3)] if regime == 'grid'
                        else [rng.uniform(-10, 10) for _ in range(3)]})
        elif rng.random() < 0.5:
            # an axis is only freed when no atom is far out along it: lengthening a cell vector by more than 1e9
            # makes the clean-up of the Box.vects setter zero the other vectors (singular cell, see docs/C05.md)
            ops.append({'op': 'setpbc', 'pbc': [bool(p or not free[k]) for k, p in enumerate(rng.choice(PBCS))],
                        'form': rng.choice(PBCFORMS)})
        else:
            ax = rng.randint(0, 2)
            ops.append({'op': 'pbcedit', 'axis': ax, 'value': bool(rng.random() < 0.5 or not free[ax]),
                        'how': rng.choice(PBCEDITS)})
    if not any(o['op'] in ('boxset', 'setvects') for o in ops):
        ops.insert(rng.randint(1 if first else 0, len(ops)), _box_op(rng, regime, kind, far))
    # closing: look at the object again
    ops.append(named(rng.choice(['wrap', 'wrap', 'norm', 'spos'])))
    if rng.random() < 0.5:
        ops.append(named(rng.choice(['wrap', 'norm'])))
    return {'case': case, 'ops': ops}


PBCFORMS = ('tuple', 'list', 'int', 'npbool', 'npbool', 'npint')
PBCEDITS = ('item', 'item', 'itemnp', 'slice', 'negindex', 'handed', 'handed')


def _gen_pbc_hist(rng, regime, cell=None):
    """hidden state around the periodicity setting: a system created (or last assigned) with one setting, the setting
    then edited IN PLACE - item assignment on the array `system.pbc` hands out, or an edit of the caller's own array that
    was handed to the constructor / the setter - with atoms outside along the edited direction, and a wrap / normalize
    after every edit.  Whatever `system.pbc` reads at the time of the call is what the call must follow."""
    start = (True, True, True) if rng.random() < 0.6 else rng.choice(PBCS)
    n = rng.randint(1, 5)
    if regime == 'grid':
        case = _grid_case(rng, start, n=n)
        # (the default grid generator puts 15 % of the coordinates 2^3..2^10 cells out: fine for a freed direction)
    else:
        case = _float_case(rng, start, n=n, far=False, cell=cell)
    case['pbcform'] = rng.choice(PBCFORMS)
    cur = list(start)
    ops = []
    r = rng.random()
    if r < 0.25:
        ops.append({'op': 'wrap', 'ret': rng.choice(RETS_W)})
    elif r < 0.4:
        ops.append({'op': 'peek', 'what': rng.sample(GETTERS, rng.randint(1, 4))})
    elif r < 0.5:
        ops.append({'op': 'spos'})
    if rng.random() < 0.3:
        cur = list((True, True, True) if rng.random() < 0.6 else rng.choice(PBCS))
        ops.append({'op': 'setpbc', 'pbc': list(cur), 'form': rng.choice(PBCFORMS)})

    def shifts():
        if regime == 'grid':
            return [[rng.choice([0, 1, -1, 2, -3, 0.125, -0.5, 2.75, -1.25]) for _ in range(3)] for _ in range(rng.randint(1, 3))]
        return [[rng.choice([0.0, rng.uniform(-3, 3), float(rng.randint(-3, 3)), rng.uniform(-0.4, 0.4)]) for _ in range(3)]
                for _ in range(rng.randint(1, 3))]

    for it in range(rng.randint(1, 3)):
        if it > 0 or (ops and ops[0]['op'] == 'wrap'):
            # the earlier wrap put every atom inside: move some out again (by whole and fractional cell vectors)
            ops.append({'op': 'move', 'shift': shifts(), 'gridkeep': regime == 'grid',
                        'how': rng.choice(['attr', 'prop', 'aprop', 'view', 'inplace', 'index'])})
        if rng.random() < 0.12:
            new = list(rng.choice(PBCS))
            ops.append({'op': 'pbcedit', 'how': 'all', 'pbc': new, 'axis': 0, 'value': new[0]})
            cur = new
        else:
            for _ in range(rng.choice([1, 1, 1, 2])):
                ax = rng.randint(0, 2)
                val = (not cur[ax]) if rng.random() < 0.85 else cur[ax]
                ops.append({'op': 'pbcedit', 'axis': ax, 'value': val, 'how': rng.choice(PBCEDITS)})
                cur[ax] = val
        t = rng.random()
        if t < 0.7 or not all(cur):
            ops.append({'op': 'wrap', 'ret': rng.choice(RETS_W)})
        else:
            ops.append({'op': 'norm', 'ret': rng.choice(RETS_N)})
        if rng.random() < 0.3:
            ops.append({'op': 'wrap'})
    return {'case': case, 'ops': ops}


def _extreme_case(rng, pbc, **kw):
    return _float_case(rng, pbc, cell=(_extreme_cell(rng), 'extreme'), **kw)


def correspond(ctx):
    rng = ctx.rng
    N = ctx.n(25, 400)
    wrap_cases = []
    for it in range(N):
        for pbc in PBCS:
            wrap_cases.append(_grid_case(rng, pbc))
            if it % 2 == 0:
                wrap_cases.append(_float_case(rng, pbc))
    # magnitudes (exact powers of two), input forms with the same numbers (not float32: its storage rounding is the
    # oracle's business), exactly singular cells (both sides must refuse)
    extra = []
    for it in range(ctx.n(3, 40)):
        for k in SCALES:
            pbc = rng.choice(PBCS)
            extra.append(_rescale(_grid_case(rng, pbc) if (it + k) % 2 == 0 else _float_case(rng, pbc), k))
        for form in POSFORMS:
            if form not in ('f32', 'readonly'):
                extra.append(_form_case(rng, rng.choice(PBCS), form))
        extra.append(_singular_case(rng, rng.choice(PBCS)))
        extra.append(_hairline_case(rng, rng.choice(PBCS)))
    # one lattice angle a fraction of a degree from 0 / 180 (alpha, beta, gamma in turn)
    for it in range(ctx.n(12, 120)):
        extra.append(_float_case(rng, rng.choice(PBCS), cell=(_extreme_cell(rng, it % 3, it % 2 == 0), 'extreme')))
    wrap_cases += extra
    _corr_wrap(ctx, wrap_cases)
    norm_cases = []
    for it in range(ctx.n(120, 2000)):
        norm_cases.append(_float_case(rng, (True, True, True)))
        if it % 3 == 0:
            norm_cases.append(_grid_case(rng, (True, True, True)))
        if it % 6 == 0:
            # partially periodic: atoms strictly inside along the non-periodic directions (normalize is
            # defined there too), or outside (both sides must fail the orthonormality assertion)
            pbc = rng.choice(PBCS[:7])
            c = _float_case(rng, pbc, far=False, faces=False)
            norm_cases.append(_inside_nonperiodic(rng, c) if rng.random() < 0.7 else c)
    extra_n = []
    for it in range(ctx.n(3, 40)):
        for k in SCALES:
            extra_n.append(_rescale(_grid_case(rng, (True, True, True)) if (it + k) % 3 == 0
                                    else _float_case(rng, (True, True, True)), k))
        for form in POSFORMS:
            if form != 'f32':
                extra_n.append(_form_case(rng, (True, True, True), form))
        extra_n.append(_singular_case(rng, (True, True, True)))
    for it in range(ctx.n(24, 300)):
        extra_n.append(_float_case(rng, (True, True, True), cell=(_extreme_cell(rng, it % 3, it % 2 == 0), 'extreme')))
    norm_cases += extra_n
    _corr_norm(ctx, norm_cases)
    # histories on one object: the hidden state (cached reciprocal vectors) must never show
    hists = [_flag_forms(_gen_hist(rng, 'grid' if it % 3 == 0 else 'float'), it) for it in range(ctx.n(150, 2500))]
    # the periodicity setting edited in place between wraps
    hists += [_flag_forms(_gen_pbc_hist(rng, 'grid' if it % 2 == 0 else 'float'), it // 2) for it in range(ctx.n(60, 800))]
    # the single calls above once more as one- and two-step histories: compared with the object-level model (which
    # includes the clean-up of the setter) at the derived rounding bound instead of the 1e-9 of the single-call path
    hists += [{'case': dict(c), 'ops': [{'op': 'wrap', 'ret': RETS_W_ALL[i % 8]}, {'op': 'wrap'}]}
              for i, c in enumerate(wrap_cases) if c.get('kind') != 'singular']
    hists += [{'case': dict(c), 'ops': [{'op': 'norm', 'ret': RETS_N_ALL[i % 10]}]}
              for i, c in enumerate(norm_cases) if c.get('kind') != 'singular']
    _corr_hist(ctx, hists)
    # counts and thresholds: the model on systems of 2^k + 1 atoms too (the Lean functions map over the list of atoms: any
    # number); on the grid, so flags, positions and boxes are compared exactly.  Larger systems: search only.
    big_w, big_n = [], []
    for it, n in enumerate(ctx.n([1025, 4097], [1023, 1025, 2049, 4097, 8193, 16385])):
        for pbc, dest in ((rng.choice(PBCS), big_w), ((True, True, True), big_n)):
            case = _big_case(_big_spec(rng, n, 'grid', pbc, BIG_CELLS[(it + 1) % 5]))
            case['pos'] = case['pos'].tolist()          # (a replay file of this size is still readable: < 1 MB)
            del case['big']
            dest.append(case)
    _corr_wrap(ctx, big_w)
    _corr_norm(ctx, big_n)
    # the entry points with every kind of value for their options (own random stream: the cases above are unchanged)
    _corr_api(ctx, _api_cases(random.Random(ctx.seed + 31), ctx.n(288, 2304)))
    _corr_copykeys(ctx, random.Random(ctx.seed + 37), ctx.n(64, 512))
    _corr_copyvals(ctx, random.Random(ctx.seed + 41), ctx.n(64, 512))
    _corr_hilo(ctx, random.Random(ctx.seed + 43), ctx.n(96, 768))


def _inside_nonperiodic(rng, case):
    """move every atom strictly inside along the non-periodic directions (in the flipped cell's terms)."""
    import numpy as np
    V = np.array(case['vects'])
    o = np.array(case['origin'])
    S = np.linalg.solve(V.T, (np.array(case['pos']) - o).T).T
    for k in range(3):
        if not case['pbc'][k]:
            S[:, k] = [rng.uniform(0.05, 0.95) for _ in range(len(S))]
    case['pos'] = (S @ V + o).tolist()
    return _canon_case(case)


# ----------------------------------------------------------------------------------------
# search: the clauses of the property on the real code, exact rational oracle
# ----------------------------------------------------------------------------------------
SEPS32 = 2.0 ** -23            # one float32 rounding of a stored coordinate (relative)


BIG_N = 512           # systems with more atoms: per-atom clauses screened on all rows at once, exact on flagged + sampled rows


def _ld(x):
    import numpy as np
    return np.asarray(x, dtype=np.longdouble)


def _ld_fr(M):
    """a matrix of Fractions as extended-precision floats (head + tail: no detour through a rounded double)."""
    import numpy as np
    hi = [[float(x) for x in r] for r in M]
    lo = [[float(x - F(h)) for x, h in zip(r, rh)] for r, rh in zip(M, hi)]
    return _ld(hi) + _ld(lo)


def _sample_rows(n):
    """rows of a large system on which the per-atom clauses are evaluated exactly whatever the screening says: both ends,
    32 evenly spread rows, and the rows around every power of two / multiple of 65536 (where a block would end)."""
    rows = {0, 1, 2, n - 1, n - 2, n - 3}
    rows |= {(j * n) // 32 for j in range(32)}
    k = 1024
    while k <= n:
        rows |= {k - 1, k, k + 1}
        k *= 2
    for m in range(65536, n + 1, 65536):
        rows |= {m - 1, m, m + 1}
    return sorted(i for i in rows if 0 <= i < n)


def _flagged(mask, keep=4):
    import numpy as np
    idx = np.nonzero(np.asarray(mask))[0]
    return [int(i) for i in idx[:keep]] + [int(i) for i in idx[-1:]]


def _screen_wrap(P0, P1, flags, before, system, Vi, NVi, pbc, grid, seps, b):
    """the per-atom wrap clauses of _wrap_clauses_sys on every row (numpy, extended precision).  Returns the rows that
    come within HALF a bound of violating one of them (on the grid: that violate it at all - every operation is exact
    there), the largest |relative coordinate| and the largest fraction of each bound used."""
    import numpy as np
    half = 0.5
    V, o = _ld(before['vects']), _ld(before['origin'])
    NV, no = _ld(system.box.vects), _ld(system.box.origin)
    A0, A1 = _ld(P0), _ld(P1)
    Fl = np.asarray(flags, dtype=np.int64)
    Vil, NVil = _ld_fr(Vi), _ld_fr(NVi)
    s0 = (A0 - o) @ Vil
    smax = np.asarray(np.abs(s0).max(axis=1), dtype=float)
    stor = seps * np.asarray(np.abs(A1).max(axis=1), dtype=float)
    tol = (CS * b['kap'] + 8.0) * U * (1.0 + smax) * b['nV'] + 8.0 * U * b['omax'] + stor                # _ep
    er0 = (CS + 8.0) * U * b['kap'] * (1.0 + smax) + 8.0 * U * b['omax'] * b['rinv']                      # _er
    rtol = er0 + stor * b['rinv']
    out = []
    nonper = [k for k in range(3) if not pbc[k]]
    if nonper:
        out += _flagged((Fl[:, nonper] != 0).any(axis=1))
    err = np.asarray(np.abs(A1 + _ld(Fl) @ V - A0).max(axis=1), dtype=float)
    out += _flagged((err != 0) if grid else (err > half * tol))
    d = (A0 - A1) @ Vil
    want = np.rint(d)
    want[:, nonper] = 0
    off = np.asarray(np.abs(d - want).max(axis=1), dtype=float)
    out += _flagged((off != 0) if grid else (off > half * rtol))
    sn = (A1 - no) @ NVil
    if grid and all(pbc):
        stol = np.zeros(len(smax))
    else:
        stol = er0 + ((CS + 8.0) * U * b['kapN'] * 2.0 + 8.0 * U * b['omaxN'] * b['rinvN']) + b['clean'] + stor * b['rinvN']
    outside = np.asarray(np.maximum(-sn, sn - 1).max(axis=1), dtype=float)
    out += _flagged(outside > half * stol)
    for name, val, bound in (('wrap:reconstruct', err, tol), ('wrap:non-lattice-move', off, rtol), ('wrap:outside', outside, stol)):
        ok = bound > 0
        if ok.any():
            r = float((val[ok] / bound[ok]).max())
            if r > MARGIN.get('big:' + name, 0.0):
                MARGIN['big:' + name] = r
    return {'rows': sorted(set(out)), 'sall': float(smax.max())}


def _screen_norm(P0, P1, o, Vi, no, Ni, seps, b):
    """the per-atom normalize clauses (inside the new cell; relative coordinates kept modulo 1) on every row; returns the
    rows within half a bound of a violation."""
    import numpy as np
    A0, A1 = _ld(P0), _ld(P1)
    s0 = (A0 - _ld(o)) @ _ld_fr(Vi)
    s1 = (A1 - _ld(no)) @ _ld_fr(Ni)
    smax = np.asarray(np.abs(s0).max(axis=1), dtype=float)
    er0 = (CS + 8.0) * U * b['kap'] * (1.0 + smax) + 8.0 * U * b['omax'] * b['rinv']
    stol = 4 * er0 + seps * 3 * b['sc'] * b['cNi'] + seps * np.asarray(np.abs(A0).max(axis=1), dtype=float) * b['rinv']
    outside = np.asarray(np.maximum(np.maximum(-s1, s1 - 1), 0).max(axis=1), dtype=float)
    dk = s0 - s1
    moved = np.asarray(np.abs(dk - np.rint(dk)).max(axis=1), dtype=float)
    for name, val in (('normalize:outside', outside), ('normalize:moved', moved)):
        r = float((val / stol).max())
        if r > MARGIN.get('big:' + name, 0.0):
            MARGIN['big:' + name] = r
    return sorted(set(_flagged(outside > 0.5 * stol) + _flagged(moved > 0.5 * stol)))


def _wrap_clauses(ctx, case, report=True):
    """returns the first violated clause (key, text) or None."""
    def fail(key, what):
        if report:
            ctx.violate(key, what, _replay_of('wrap', case))
        return key, what

    f32 = case.get('posform') == 'f32'
    try:
        system = _build(case)
    except cm.InfraError:
        raise
    except Exception as e:  # noqa
        return fail('wrap:construction-raises', f'building the system ({case.get("posform")}, {case.get("pbcform")}, '
                    f'{case.get("boxform")}) raised {type(e).__name__}: {e}')
    bad = _box_as_asked(system, case)
    if bad:
        return fail('box:construction', bad)
    return _wrap_clauses_sys(system, case['regime'] == 'grid' and not f32, fail, ret=case.get('ret', 'kw'),
                             seps=SEPS32 if f32 else 0.0)


def _box_as_asked(system, case):
    """Box(vects=V, origin=o) holds V and o (the setter may zero components below 1e-9 of the largest one)."""
    import numpy as np
    want, got = np.array(case['vects'], dtype=float), system.box.vects
    m = float(np.abs(want).max())
    if not all(a == b or (a == 0 and abs(b) <= CLEAN * m) for a, b in zip(got.ravel().tolist(), want.ravel().tolist())) \
            or not np.array_equal(system.box.origin, np.array(case['origin'], dtype=float)):
        return (f'Box built from vects {want.tolist()} origin {case["origin"]} ({case.get("boxform", "array")}) holds '
                f'{got.tolist()} / {system.box.origin.tolist()}')
    return None


def _call_wrap(system, ret):
    import numpy as np
    if ret == 'kw':
        return system.wrap(return_imageflags=True)
    if ret == 'pos':
        return system.wrap(True)
    if ret == 'false':
        return system.wrap(return_imageflags=False)
    # the flag as an integer / numpy boolean (truthy and falsy non-bool values are flags like True and False)
    if ret == 'int1':
        return system.wrap(return_imageflags=1)
    if ret == 'nptrue':
        return system.wrap(np.True_)
    if ret == 'int0':
        return system.wrap(return_imageflags=0)
    if ret == 'npfalse':
        return system.wrap(return_imageflags=np.False_)
    return system.wrap()


def _wrap_clauses_sys(system, grid, fail, ret='kw', seps=0.0):
    """the wrap clauses of the property on a live System (wraps it twice); exact rational oracle.
    `grid`: every float operation is exact on this state, so the clauses are decided with zero tolerance.
    `ret`: how the image flags are asked for (not at all: they are then derived from the displacement).
    `seps`: relative rounding of the array the positions are stored in (float32 positions)."""
    import numpy as np
    before = _snap(system)
    V, o = _fm(before['vects']), _fv(before['origin'])
    if _det(V) == 0:
        # a singular cell has no relative coordinates: the only correct outcome is a refusal that changes nothing
        try:
            _call_wrap(system, ret)
        except Exception:  # noqa
            bad = _same_snap(before, _snap(system))
            if bad:
                return fail('refusal:singular-cell-state', f'wrap refused the singular cell {before["vects"].tolist()} '
                            f'but changed {bad} first')
            return None
        return fail('refusal:singular-cell-accepted', f'wrap accepted the singular cell {before["vects"].tolist()} and '
                    f'left the atoms at {system.atoms.view["pos"].tolist()}')
    Vi = _inv(V)
    pbc = [bool(p) for p in before['pbc']]
    P0 = before['props']['pos']
    natoms = len(P0)
    big = natoms > BIG_N             # large system: every row screened in extended precision, exact on flagged + sampled rows
    rows = _sample_rows(natoms) if big else list(range(natoms))
    old = {i: _fv(P0[i]) for i in rows}
    sold = {i: _rel(old[i], V, Vi, o) for i in rows}
    nV = _normV(before['vects'])
    omax = max(abs(float(x)) for x in before['origin'])
    kap = _kappa(V)

    try:
        got = _call_wrap(system, ret)
    except Exception as e:  # noqa
        return fail('wrap:raises', f'wrap raised {type(e).__name__}: {e}')
    P1 = system.atoms.view['pos']
    if not isinstance(P1, np.ndarray) or P1.shape != (natoms, 3):
        return fail('wrap:carried', f'wrap left positions of shape {getattr(P1, "shape", None)} for {natoms} atoms')
    new = {i: _fv(P1[i]) for i in rows}
    if ret in WANTS_FLAGS:
        if not isinstance(got, np.ndarray) or got.shape != (natoms, 3) or got.dtype.kind not in 'iu':
            return fail('wrap:flags-shape', f'image flags are {type(got).__name__} of shape {getattr(got, "shape", None)} '
                        f'dtype {getattr(got, "dtype", None)}')
        own = [system.atoms.view[k] for k in system.atoms.view.keys()] + [_raw_vects(system.box)]
        if any(y is not None and np.shares_memory(got, y) for y in own):
            return fail('aliasing:returned-array-shared', 'the returned image flags share memory with the system')
        flags = got.copy()
    else:
        if got is not None:
            return fail('wrap:flags-returned', f'wrap() without return_imageflags returned {type(got).__name__}')
        # flags not asked for: the whole number of old cell vectors nearest to the displacement
        if big:
            flags = np.rint(np.asarray((_ld(P0) - _ld(P1)) @ _ld_fr(Vi), dtype=float)).astype(np.int64)
            flags[:, [k for k in range(3) if not pbc[k]]] = 0
        else:
            flags = np.array([[_nearint(x) if pbc[k] else 0
                               for k, x in enumerate(_vm([a - b for a, b in zip(old[i], new[i])], Vi))]
                              for i in rows], dtype=object).reshape(natoms, 3)
    NV, no = _fm(system.box.vects), _fv(system.box.origin)
    if _det(NV) == 0:
        return fail('wrap:box-singular', 'wrap produced a singular cell')
    NVi = _inv(NV)
    rinv = _colsum(Vi)
    rinvN = _colsum(NVi)
    kapN = _kappa(NV)
    nVN = _normV(system.box.vects)
    omaxN = max(abs(float(x)) for x in no)
    sall = max(max(abs(float(x)) for x in s) for s in sold.values())
    # the Box.vects setter zeroes components below 1e-9 of the largest one: when a non-periodic vector is lengthened
    # a small component of any vector may disappear (documented behaviour of the setter, see ASSUMPTIONS); the
    # positions were rebuilt with the old vectors, so they may then be off the new cell by that much
    maxN = max(abs(float(x)) for r in NV for x in r)
    cleaned = any(NV[k][j] == 0 and V[k][j] != 0 for k in range(3) for j in range(3))
    clean = CLEAN * maxN * rinvN * 3 if cleaned else 0.0
    if big:
        # the per-atom clauses below on ALL rows at once, in extended precision (evaluation error ~1e-19 relative, far
        # below the bounds, exact on the grid); rows that come within half a bound of violating a clause are added to
        # the rows on which the clauses are then decided exactly
        scr = _screen_wrap(P0, P1, flags, before, system, Vi, NVi, pbc, grid, seps,
                           dict(kap=kap, nV=nV, omax=omax, rinv=rinv, kapN=kapN, omaxN=omaxN, rinvN=rinvN, clean=clean))
        sall = max(sall, scr['sall'])
        extra = [i for i in scr['rows'] if i not in old]
        for i in extra:
            old[i] = _fv(P0[i])
            sold[i] = _rel(old[i], V, Vi, o)
            new[i] = _fv(P1[i])
        rows = sorted(set(rows) | set(extra))
    for i in rows:
        smax = max(abs(float(x)) for x in sold[i])
        stor = seps * max(abs(float(x)) for x in new[i])          # one rounding of the stored (float32) coordinate
        tol = _ep(kap, smax, nV, omax) + stor
        rtol_ = _er(kap, smax, omax, rinv) + stor * rinv
        # (1) whole cell vectors along periodic directions only; flags reconstruct the original positions
        for k in range(3):
            if not pbc[k] and int(flags[i, k]) != 0:
                return fail('wrap:flag-nonperiodic', f'atom {i} has image flag {int(flags[i, k])} along non-periodic axis {k}')
        back = [a + b for a, b in zip(new[i], _vm([F(int(f)) for f in flags[i]], V))]
        err = max(abs(float(a - b)) for a, b in zip(back, old[i]))
        if (grid and err != 0) or err > tol:
            return fail('wrap:reconstruct', f'atom {i} (pbc {pbc}): new position + flags·old vectors = '
                        f'{[float(x) for x in back]} but it was at {[float(x) for x in old[i]]} (flags {flags[i].tolist()}, '
                        f'off by {err:.3g}, rounding bound {tol:.3g})')
        # (1') the same clause in lattice terms: the displacement is a whole number of OLD cell vectors, zero along
        #      non-periodic directions
        d = _vm([a - b for a, b in zip(old[i], new[i])], Vi)
        for k in range(3):
            want = _nearint(d[k]) if pbc[k] else 0
            off = abs(float(d[k] - want))
            if (grid and off != 0) or off > rtol_:
                return fail('wrap:non-lattice-move', f'atom {i} (pbc {pbc}) was moved by {[float(x) for x in d]} old cell '
                            f'vectors: not a whole number along axis {k} (off by {off:.3g}, rounding bound {rtol_:.3g})')
        # (2) every atom inside the new cell (faces included)
        sn = _rel(new[i], NV, NVi, no)
        stol = 0 if grid and all(pbc) else _er(kap, smax, omax, rinv) + _er(kapN, 1.0, omaxN, rinvN) + clean + stor * rinvN
        for k in range(3):
            if float(sn[k]) < -stol or float(sn[k]) > 1 + stol:
                return fail('wrap:outside', f'atom {i} is outside the cell after wrap (pbc {pbc}): relative coordinate '
                            f'{float(sn[k])!r} along axis {k}')
    # (3) periodic cell vectors untouched; non-periodic ones only lengthened; old cell inside the new
    lo = _vm([a - b for a, b in zip(no, o)], Vi)          # new origin in old relative coordinates
    tol3 = 8 * U * (omax + (1 + sall) * nV) * rinv + _es(kap, sall)
    clean = CLEAN * maxN * rinv * 3 if cleaned else 0.0
    for k in range(3):
        w = _vm(NV[k], Vi)                                 # new vector k in units of the old vectors
        if pbc[k]:
            if not all(a == b or (a == 0 and abs(b) <= CLEAN * maxN and not all(pbc))
                       for a, b in zip(system.box.vects[k].tolist(), before['vects'][k].tolist())):
                return fail('wrap:periodic-vector-changed', f'periodic cell vector {k} changed from '
                            f'{before["vects"][k].tolist()} to {system.box.vects[k].tolist()}')
            if (all(pbc) and lo[k] != 0) or abs(float(lo[k])) > tol3:
                return fail('wrap:origin-moved-periodic', f'origin moved by {float(lo[k])!r} cell vectors along periodic axis {k}')
        else:
            off = [abs(float(w[j])) for j in range(3) if j != k]
            if max(off) > 8 * U * kap * max(1.0, abs(float(w[k]))) + clean:
                return fail('wrap:vector-turned', f'non-periodic cell vector {k} changed direction: {[float(x) for x in w]}')
            if float(lo[k]) > tol3 or float(lo[k] + w[k]) < 1 - 2 * tol3 - clean:
                return fail('wrap:cell-shrunk', f'old cell not contained in the new one along axis {k}: new cell spans '
                            f'[{float(lo[k])!r}, {float(lo[k] + w[k])!r}] in old relative units')
    bad = _same_snap(before, _snap(system), skip=('vects', 'origin', 'pos'))
    if bad:
        return fail('wrap:carried', f'wrap changed {bad}')
    # (4) wrapping again changes nothing; the flags handed out by the first call are the caller's
    snap1 = _snap(system)
    if isinstance(got, np.ndarray):
        _scribble(got)
    try:
        flags2 = np.asarray(system.wrap(return_imageflags=True))
    except Exception as e:  # noqa
        return fail('wrap:raises', f'second wrap raised {type(e).__name__}: {e}')
    if isinstance(got, np.ndarray) and (np.shares_memory(got, flags2) or not np.all(got == -7)):
        return fail('aliasing:returned-array-shared', 'the image flags returned by the first wrap were overwritten by the '
                    'second wrap of the same system (both calls hand out the same buffer)')
    snap2 = _snap(system)
    storN = seps * (nVN + omaxN)
    band = (_er(kap, sall, omax, rinv) + _er(kapN, 1.0, omaxN, rinvN) + (CLEAN * maxN * rinvN * 3 if cleaned else 0.0)
            + storN * rinvN)
    if big:
        sn_all = np.asarray((_ld(P1) - _ld([float(x) for x in no])) @ _ld_fr(NVi), dtype=float)
        near = bool((np.abs(sn_all - np.rint(sn_all)) <= band * (1 + 1e-9)).any())
    else:
        near = any(abs(float(x) - round(float(x))) <= band for p in new.values() for x in _rel(p, NV, NVi, no))
    if not near or (grid and all(pbc)):
        if flags2.any():
            return fail('wrap:not-idempotent', f'second wrap returns non-zero image flags {flags2.tolist()}')
        if not (np.array_equal(snap1['vects'], snap2['vects']) and np.array_equal(snap1['origin'], snap2['origin'])):
            return fail('wrap:not-idempotent', f'second wrap changes the box from {snap1["vects"].tolist()} / '
                        f'{snap1["origin"].tolist()} to {snap2["vects"].tolist()} / {snap2["origin"].tolist()}')
        if not np.allclose(snap1['props']['pos'], snap2['props']['pos'], rtol=0, atol=_ep(kapN, 1.0, nVN, omaxN) + storN):
            return fail('wrap:not-idempotent', 'second wrap moves atoms that were already inside the cell')
    return None


_NEIGH = None


def _min_image_d2(d, V, Vi_np, V_np):
    """exact squared length of the nearest image of separation d (Fractions) under lattice V (fully periodic).
    A first candidate (rounding of the relative separation) gives a distance dc; every closer image has relative
    coordinates |s_k + n_k| <= dc |column k of V^-1|, so the finite box of integers searched is provably sufficient.
    Candidates are ranked in floating point, the best few are evaluated exactly. None if the box is too large."""
    import numpy as np
    global _NEIGH
    if _NEIGH is None:
        _NEIGH = np.array([[i, j, k] for i in (-1, 0, 1) for j in (-1, 0, 1) for k in (-1, 0, 1) if (i, j, k) != (0, 0, 0)],
                          dtype=float)
    dn = np.array([float(x) for x in d])
    s = dn @ Vi_np
    n0 = -np.round(s)
    # greedy descent over the 26 neighbouring images: a good first candidate keeps the box below small
    for _ in range(400):
        c = dn + (n0 + _NEIGH) @ V_np
        q = (c * c).sum(axis=1)
        t = int(np.argmin(q))
        if q[t] >= ((dn + n0 @ V_np) ** 2).sum() * (1 - 1e-12):
            break
        n0 = n0 + _NEIGH[t]
    vs = float(np.abs(V_np).max())             # every slack below is relative to the cell size (scale sweeps)
    dc = float(np.linalg.norm(dn + n0 @ V_np)) * (1 + 1e-9) + 1e-12 * vs
    lo, hi = [], []
    for k in range(3):
        rad = dc * float(np.linalg.norm(Vi_np[:, k])) * (1 + 1e-9) + 1e-9
        lo.append(int(math.ceil(-s[k] - rad)))
        hi.append(int(math.floor(-s[k] + rad)))
    size = 1
    for k in range(3):
        size *= max(hi[k] - lo[k] + 1, 1)
    if size > 300_000:
        return None
    rng0 = [np.arange(lo[k], hi[k] + 1, dtype=float) if hi[k] >= lo[k] else np.array([n0[k]]) for k in range(3)]
    n = np.stack(np.meshgrid(*rng0, indexing='ij'), axis=-1).reshape(-1, 3)
    n = np.vstack([n, n0[None, :]])
    cand = dn + n @ V_np
    d2 = (cand * cand).sum(axis=1)
    m = float(d2.min())
    # ranking error of the float evaluation: relative 1e-9 of the larger of |d| and the cell size
    slack = 1e-9 * (m + float(np.abs(dn).max()) * vs * 1e-3) + 1e-12 * vs * vs
    best = np.argsort(d2)[:16]
    out = None
    for t in best:
        if d2[t] > m + slack and out is not None:
            break
        x = [a + b for a, b in zip(d, _vm([F(int(q)) for q in n[t]], V))]
        v = sum(c * c for c in x)
        out = v if out is None or v < out else out
    return out


def _norm_clauses(ctx, case, report=True):
    def fail(key, what):
        if report:
            ctx.violate(key, what, _replay_of('norm', case))
        return key, what

    f32 = case.get('posform') == 'f32'
    try:
        system = _build(case)
    except cm.InfraError:
        raise
    except Exception as e:  # noqa
        return fail('normalize:construction-raises', f'building the system ({case.get("posform")}, {case.get("pbcform")}, '
                    f'{case.get("boxform")}) raised {type(e).__name__}: {e}')
    bad = _box_as_asked(system, case)
    if bad:
        return fail('box:construction', bad)
    return _norm_clauses_sys(system, fail, ret=case.get('ret', 'kw'), seps=SEPS32 if f32 else 0.0)


class _WrongReturn(Exception):
    """normalize was asked for (system, transformation) and returned something else."""


def _call_norm(system, ret):
    import numpy as np
    import atomman as am
    if ret == 'kw':
        res = system.normalize(return_transform=True)
    elif ret == 'style':
        res = system.normalize('lammps', True)
    elif ret == 'fn':
        res = am.lammps.normalize(system, True)
    elif ret == 'fnnone':
        res = am.lammps.normalize(system)
    elif ret == 'int1':
        res = system.normalize(return_transform=1)
    elif ret == 'nptrue':
        res = system.normalize('lammps', np.True_)
    elif ret == 'fnint1':
        res = am.lammps.normalize(system, return_transform=1)
    elif ret == 'int0':
        res = system.normalize(return_transform=0)
    elif ret == 'fnnpfalse':
        res = am.lammps.normalize(system, np.False_)
    else:
        res = system.normalize()
    if ret in NO_TRANSFORM:
        return res, None
    if not (isinstance(res, tuple) and len(res) == 2):
        raise _WrongReturn(f'normalize, asked for the transformation ({ret}: the flag is truthy), returned '
                           f'{type(res).__name__} instead of (system, transformation)')
    return res


def _norm_clauses_sys(system, fail, ret='kw', seps=0.0):
    """the normalize clauses of the property on a live, fully periodic System; exact rational oracle."""
    import numpy as np
    import atomman as am
    before = _snap(system)
    V, o = _fm(before['vects']), _fv(before['origin'])
    try:
        new, T = _call_norm(system, ret)
    except Exception as e:  # noqa
        if _det(V) == 0:                         # a singular cell must be refused, and the input left alone
            bad = _same_snap(before, _snap(system))
            return fail('normalize:input-modified', f'normalize refused a singular cell but changed {bad}') if bad else None
        if isinstance(e, _WrongReturn):
            return fail('normalize:return', str(e))
        return fail('normalize:raises', f'normalize raised {type(e).__name__}: {e} on a fully periodic system')
    bad = _same_snap(before, _snap(system))
    if bad:
        return fail('normalize:input-modified', f'normalize changed its input: {bad}')
    if type(new).__name__ != 'System' or (T is not None and not (isinstance(T, np.ndarray) and T.shape == (3, 3))):
        return fail('normalize:return', f'normalize ({ret}) returned {type(new).__name__} / {type(T).__name__}')
    mine = _norm_arrays(new, T)
    own = [system.atoms.view[k] for k in system.atoms.view.keys()] + [_raw_vects(system.box), system.pbc,
                                                                      getattr(system.box, '_Box__origin', None)]
    if any(y is not None and np.shares_memory(x, y) for x in mine for y in own):
        return fail('normalize:shares-memory', 'what normalize returned shares memory with its input')
    if isinstance(T, np.ndarray) and any(np.shares_memory(T, x) for x in mine[:-1]):
        return fail('normalize:shares-memory', 'the returned transformation shares memory with the returned system')
    if _det(V) == 0:
        return fail('refusal:singular-cell-accepted', f'normalize accepted the singular cell {before["vects"].tolist()}')
    # freshness: overwrite a first result, ask again: same answer, not the same memory, whatever was asked for
    res1 = _NormResult(new, T)
    for x in mine:
        _scribble(x)
    try:
        new, T2 = system.normalize(return_transform=True)
    except Exception as e:  # noqa
        return fail('normalize:raises', f'a second normalize of the same system raised {type(e).__name__}: {e}')
    if any(np.shares_memory(x, y) for x in _norm_arrays(new, T2) for y in mine):
        return fail('normalize:shares-memory', 'two results of normalize share memory')
    res2 = _NormResult(new, T2)
    if not (np.array_equal(res1.vects, res2.vects) and np.array_equal(res1.origin, res2.origin)
            and np.array_equal(res1.pos, res2.pos) and not _same_snap(res1.snap, res2.snap)
            and (res1.T is None or np.array_equal(res1.T, res2.T))):
        return fail('normalize:not-reproducible', f'normalize ({ret}) followed by normalize(return_transform=True) of the '
                    f'same unchanged system give different results (box {res1.vects.tolist()} / {res2.vects.tolist()}, '
                    f'first positions {res1.pos[:2].tolist()} / {res2.pos[:2].tolist()})')
    T = T2
    left = _det(V) < 0
    if left:                                   # "a left-handed cell first having its third vector reversed"
        o = [a + b for a, b in zip(o, V[2])]
        V = [V[0], V[1], [-x for x in V[2]]]
    Vi = _inv(V)
    N, no = _fm(new.box.vects), _fv(new.box.origin)
    sc = max(abs(float(x)) for r in V for x in r)
    # right-handed LAMMPS-compatible cell
    # (decided on the numbers, not by asking the box: avect = [lx, 0, 0], bvect = [xy, ly, 0], cvect = [xz, yz, lz] with
    #  lx, ly, lz > 0; what Box.is_lammps_norm() says about it is a getter value like any other)
    normal = N[0][1] == 0 and N[0][2] == 0 and N[1][2] == 0 and N[0][0] > 0 and N[1][1] > 0 and N[2][2] > 0
    if not normal:
        return fail('normalize:not-lammps-normal', f'new cell {new.box.vects.tolist()} is not a right-handed LAMMPS cell '
                    '(upper triangle zero, lx, ly, lz > 0)')
    if not new.box.is_lammps_norm():
        return fail('box:getter-value', f'Box.is_lammps_norm() is False for the LAMMPS-compatible cell {new.box.vects.tolist()}')
    kap = max(_kappa(V), _kappa(N), _kabc(V))
    ub = CN * U * kap * kap            # sqrt/arccos/cos/division of the cell parameters: conditioning enters twice
    k2 = max(_kappa2(V), _kappa2(N))
    ubT = CN * U * k2 * k2             # the transformation comes from a least-squares solve (normwise conditioning)
    # the Box.vects setter zeroes a tilt factor below 1e-9 of the largest component (documented behaviour, see
    # ASSUMPTIONS): where the new cell has an exactly vanishing tilt factor, that much of a change is the setter's
    cl = CLEAN * max(abs(float(x)) for r in N for x in r) if (N[1][0] == 0 or N[2][0] == 0 or N[2][1] == 0) else 0.0
    # same lengths, angles and volume
    G0, G1 = _gram(V), _gram(N)
    for i in range(3):
        for j in range(3):
            if _over('normalize:gram', abs(G0[i][j] - G1[i][j]), ub * sc * sc + 6 * cl * sc):
                return fail('normalize:gram', f'cell vectors {i},{j}: dot product {float(G0[i][j])!r} became {float(G1[i][j])!r} '
                            '(lengths/angles not preserved)')
    if _over('normalize:volume', abs(_det(N) - abs(_det(V))), ub * abs(float(_det(V)))):
        return fail('normalize:volume', f'volume {float(abs(_det(V)))!r} became {float(_det(N))!r}')
    # the same in the code's own terms: what Box.a/b/c/alpha/beta/gamma/volume report for the old and for the new cell
    # is what those cells have (with the Gram matrix kept, lengths and angles as the code reads them are kept)
    for bx, st in ((system.box, {'vects': before['vects'].tolist(), 'origin': before['origin'].tolist()}),
                   (new.box, {'vects': new.box.vects.tolist(), 'origin': new.box.origin.tolist()})):
        try:
            vals = [(nm, getattr(bx, nm)) for nm in ('a', 'b', 'c', 'alpha', 'beta', 'gamma', 'volume')]
        except Exception as e:  # noqa
            return fail('box:getter-value', f'reading the lattice parameters of the cell {st["vects"]} raised '
                        f'{type(e).__name__}: {e}')
        badg = _getters_bad(vals, st)
        if badg:
            return fail('box:getter-value', badg)
    # returned transformation: proper rotation taking the old (reversed) vectors to the new ones
    Tf = _fm(T)
    TT = _mm(Tf, _tr(Tf))
    if any(_over('normalize:transform-not-rotation', abs(TT[i][j] - (1 if i == j else 0)), ubT + 4 * cl * k2 / sc) for i in range(3)
           for j in range(3)) or _over('normalize:transform-not-rotation', abs(_det(Tf) - 1), ubT + 4 * cl * k2 / sc):
        return fail('normalize:transform-not-rotation', f'returned transformation {T.tolist()} is not a proper rotation')
    for i in range(3):
        img = [sum(Tf[r][c] * V[i][c] for c in range(3)) for r in range(3)]
        if any(_over('normalize:transform-wrong', abs(a - b), ubT * sc + 2 * cl * k2) for a, b in zip(img, N[i])):
            return fail('normalize:transform-wrong', f'T·(old vector {i}) = {[float(x) for x in img]} but the new vector is '
                        f'{[float(x) for x in N[i]]}')
    # every atom inside; relative coordinates kept modulo 1 (so all image distances are kept)
    Ni = _inv(N)
    rinv = _colsum(Vi)
    omax = max(abs(float(x)) for x in o)
    P0, P1 = before['props']['pos'], new.atoms.view['pos']
    natoms = len(P0)
    if not isinstance(P1, np.ndarray) or P1.shape != (natoms, 3):
        return fail('normalize:carried', f'normalize returned positions of shape {getattr(P1, "shape", None)} for '
                    f'{natoms} atoms')
    big = natoms > BIG_N
    rows = _sample_rows(natoms) if big else list(range(natoms))
    if big:
        # every row screened in extended precision; rows within half a bound of a violation are decided exactly below
        rows = sorted(set(rows) | set(_screen_norm(P0, P1, [float(x) for x in o], Vi, [float(x) for x in no], Ni, seps,
                                                   dict(kap=kap, omax=omax, rinv=rinv, sc=sc, cNi=_colsum(Ni)))))
    old = {i: _fv(P0[i]) for i in rows}
    newp = {i: _fv(P1[i]) for i in rows}
    rel0 = {i: _rel(old[i], V, Vi, o) for i in rows}
    for i in rows:
        s0 = rel0[i]
        s1 = _rel(newp[i], N, Ni, no)
        stol = 4 * _er(kap, max(abs(float(x)) for x in s0), omax, rinv) + seps * 3 * sc * _colsum(Ni) \
            + seps * max(abs(float(x)) for x in old[i]) * rinv
        for k in range(3):
            if _over('normalize:outside', max(-s1[k], s1[k] - 1, 0), stol):
                return fail('normalize:outside', f'atom {i} is outside the normalized cell: relative coordinate {float(s1[k])!r} '
                            f'along axis {k}')
            dk = s0[k] - s1[k]
            if _over('normalize:moved', abs(dk - _nearint(dk)), stol):
                return fail('normalize:moved', f'atom {i}: relative coordinate along axis {k} went from {float(s0[k])!r} to '
                            f'{float(s1[k])!r} (not a whole number of cells; rounding bound {stol:.3g})')
    # true nearest-image distances between atoms unchanged (independent of the above: brute force over images)
    n = natoms
    if big:      # pairs among the rows evaluated exactly: neighbours in the row order, from the tail of the system first
        pairs = [(rows[-1 - t], rows[-2 - t]) for t in range(0, min(len(rows) - 1, 30), 3)][:10]
    else:
        pairs = [(i, j) for i in range(n) for j in range(i + 1, n)][:10]
    if pairs:
        V0 = _fm(before['vects'])
        V0n, Nn = np.array(before['vects'], dtype=float), np.array(new.box.vects, dtype=float)
        V0i, Nni = np.linalg.inv(V0n), np.linalg.inv(Nn)
        for i, j in pairs:
            d0 = _min_image_d2([a - b for a, b in zip(old[j], old[i])], V0, V0i, V0n)
            d1 = _min_image_d2([a - b for a, b in zip(newp[j], newp[i])], N, Nni, Nn)
            if d0 is None or d1 is None:          # image box too large to enumerate (extremely skewed cell)
                continue
            s0 = max(abs(float(x)) for x in rel0[i] + rel0[j])
            # |d0^2 - d1^2| <= 2 |d| |delta| with |d| <= the cell diameter and |delta| the position bound above
            # float32 storage: one rounding of the rebuilt (not yet wrapped) coordinates, i.e. at the old magnitude
            far32 = seps * max(abs(float(x)) for x in old[i] + old[j])
            dtol = 8 * (ub * sc + _ep(kap, s0, 3 * sc, omax) + 3 * cl + seps * 3 * sc + 2 * far32) * 3 * sc
            if _over('normalize:distance', abs(d0 - d1), dtol):
                return fail('normalize:distance', f'nearest-image distance between atoms {i} and {j} changed from '
                            f'{math.sqrt(float(d0))!r} to {math.sqrt(float(d1))!r}')
    bad = _same_snap(before, _snap(new), skip=('vects', 'origin', 'pos'))
    if bad:
        return fail('normalize:carried', f'normalize did not carry over {bad}')
    return None


def _hist_clauses(ctx, hist, report=True):
    """the wrap / normalize clauses of the property at every wrap / normalize of a history on ONE System object."""
    system = _build(hist['case'])
    exact = hist['case']['regime'] == 'grid'
    for k, op in enumerate(hist['ops']):
        c = _concretize(system, op)
        before = _state(system)

        def fail(key, what, k=k, name=c['op']):
            what = f'history {_hist_name(hist)} step {k} ({name}): {what}'
            if report:
                ctx.violate(key, what, {'op': 'hist', 'hist': _pub(hist), 'step': k})
            return key, what

        if c['op'] == 'wrap':
            res = _wrap_clauses_sys(system, exact, fail, ret=c.get('ret', 'kw'))
        elif c['op'] == 'norm' and all(system.pbc):
            res = _norm_clauses_sys(system, fail, ret=c.get('ret', 'kw'))
        else:
            res = _other_clauses(system, c, exact, fail)
            if res == 'stop':
                return None
        if res:
            return res
        exact = exact and _keeps_exact(c, before, system.box.vects.tolist())
    return None


def _other_clauses(system, c, exact, fail):
    """operations that are not wrap / normalize: what they must leave alone, what they must refuse, and for
    box_set(scale=...) the relative (True) or absolute (False) positions held fixed."""
    import numpy as np
    name = c['op']
    snap0 = _snap(system)
    try:
        obs = _apply(system, c)
    except cm.InfraError:
        raise
    except Exception:  # noqa  (partially periodic normalize may refuse; a failed box operation ends the history)
        return 'stop'
    if isinstance(obs, np.ndarray):
        _scribble(obs)
    snap1 = _snap(system)
    if c.get('_handed_modified'):
        return fail('aliasing:handed-in-array-modified', f'the call wrote to the array(s) it was handed (argument '
                    f'{c["_handed_modified"]})')
    if not (np.isfinite(snap1['vects']).all() and np.isfinite(snap1['origin']).all()
            and np.isfinite(snap1['props']['pos']).all()):
        return fail('aliasing:array-kept', 'the object and the caller share an array (handed in and kept, or handed out '
                    'without a copy): overwriting the caller\'s array after the call changed the state of the system (box '
                    f'{snap1["vects"].tolist()}, origin {snap1["origin"].tolist()})')
    if name in ('setpbc', 'pbcedit'):
        want = tuple(bool(p) for p in (c['pbc'] if name == 'setpbc' else c['pbc_after']))
        bad = _same_snap(dict(snap0, pbc=want), snap1)
        if bad:
            return fail('state:pbc-assignment', f'{name} ({c.get("form") or c.get("how")}) changed {bad} of the system')
        return None
    if name in ('peek', 'spos', 'norm', 'badscale'):
        bad = _same_snap(snap0, snap1)
        if bad:
            return fail('state:read-writes', f'{name} {c.get("what", "")} changed {bad} of the system')
        if name == 'peek' and isinstance(obs, list):
            badg = _getters_bad(obs, {'vects': snap0['vects'].tolist(), 'origin': snap0['origin'].tolist()})
            if badg:
                return fail('box:getter-value', badg)
        if name == 'badscale' and obs != 'TypeError':
            return fail('refusal:box_set-scale-type', f'box_set(scale={c["scale"]!r}) was {obs} (the documented TypeError '
                        'for a scale that is not a bool is gone)')
        return None
    if name == 'move':
        if snap1['props']['pos'].tolist() != c['P']:
            return fail('state:positions-assignment', f'positions after the assignment ({c.get("how")}) are '
                        f'{snap1["props"]["pos"].tolist()}, assigned {c["P"]}')
        return None
    if name not in ('boxset', 'setvects', 'setorigin'):
        return None
    bad = _same_snap(snap0, snap1, skip=('vects', 'origin', 'pos'))
    if bad:
        return fail('boxset:carried', f'{name} changed {bad}')
    # the box is what was asked for (the setter zeroes components below 1e-9 of the largest one)
    if name == 'setorigin':
        wantV, wanto = snap0['vects'], np.array(c['origin'], dtype=float)
    elif name == 'setvects':
        wantV, wanto = np.array(c['V'], dtype=float), snap0['origin']
    else:
        wantV, wanto = np.array(c['V'], dtype=float), np.array(c['o'], dtype=float)
    gotV, goto = snap1['vects'], snap1['origin']
    m = float(np.abs(wantV).max())
    okV = all(a == b or (a == 0 and abs(b) <= CLEAN * m) for a, b in zip(gotV.ravel().tolist(), wantV.ravel().tolist()))
    if not okV or not np.array_equal(goto, wanto):
        return fail('boxset:box', f'{name} ({c.get("how", "")}, scale={c.get("scale")}) asked for vects {wantV.tolist()} '
                    f'origin {wanto.tolist()}, the box now has {gotV.tolist()} / {goto.tolist()}')
    scaled = name == 'boxset' and bool(c['scale'])
    if not scaled:
        if not np.array_equal(snap0['props']['pos'], snap1['props']['pos']):
            return fail('boxset:absolute-positions', f'{name} (scale False) changed the Cartesian positions')
        return None
    V0, o0 = _fm(snap0['vects']), _fv(snap0['origin'])
    V1, o1 = _fm(gotV), _fv(goto)
    if _det(V0) == 0 or _det(V1) == 0:
        return None
    V0i, V1i = _inv(V0), _inv(V1)
    k0, k1 = _kappa(V0), _kappa(V1)
    r0, r1 = _colsum(V0i), _colsum(V1i)
    om0, om1 = max(abs(float(x)) for x in o0), max(abs(float(x)) for x in o1)
    for i, (p, q) in enumerate(zip(snap0['props']['pos'], snap1['props']['pos'])):
        s0 = _rel(_fv(p), V0, V0i, o0)
        s1 = _rel(_fv(q), V1, V1i, o1)
        smax = max(abs(float(x)) for x in s0)
        tol = _er(k0, smax, om0, r0) + _er(k1, smax, om1, r1)
        for k in range(3):
            d = abs(float(s0[k] - s1[k]))
            if (exact and (c.get('same') or c.get('gridkeep')) and d != 0) or _over('boxset:relative-positions', d, tol):
                return fail('boxset:relative-positions', f'box_set({c.get("how")}, scale=True): relative coordinate {k} of '
                            f'atom {i} went from {float(s0[k])!r} to {float(s1[k])!r} (rounding bound {tol:.3g})')
    return None


def _env_clauses(ctx, case):
    """wrap / normalize convert no units: the same call under other working units gives bitwise the same result."""
    import numpy as np
    import atomman.unitconvert as uc

    def run():
        out = []
        for op in ('wrap', 'norm'):
            sysm = _build(case)
            try:
                if op == 'wrap':
                    fl = sysm.wrap(return_imageflags=True)
                    out.append((fl.tolist(), sysm.atoms.view['pos'].tolist(), sysm.box.vects.tolist(), sysm.box.origin.tolist()))
                else:
                    new, T = sysm.normalize(return_transform=True)
                    out.append((T.tolist(), new.atoms.view['pos'].tolist(), new.box.vects.tolist(), new.box.origin.tolist()))
            except Exception as e:  # noqa
                out.append(type(e).__name__)
        return out

    ref = run()
    for units in ({'length': 'nm', 'mass': 'kg', 'energy': 'J', 'charge': 'C'}, {'seed': 'SI'},
                  {'length': 'pm', 'mass': 'g', 'time': 'fs'}, {'seed': 12345}):
        try:
            uc.reset_units(**units)
            got = run()
        finally:
            uc.reset_units(length='angstrom', mass='amu', energy='eV', charge='e')       # atomman's default working units
        if got != ref:
            which = 'wrap' if got[0] != ref[0] else 'normalize'
            ctx.violate('environment:working-units', f'{which} (pbc {case["pbc"]}) gives a different result under working '
                        f'units {units}: {got[0 if which == "wrap" else 1]} instead of {ref[0 if which == "wrap" else 1]}',
                        {'op': 'env', 'case': case, 'units': units})
            return


def _default_box_clause(ctx):
    """two systems built without a box / pbc must not share the defaults (wrap works in place on the box)."""
    import numpy as np
    import atomman as am
    s1 = am.System(atoms=am.Atoms(pos=[[2.5, 0.25, -3.5]]), pbc=(True, False, False))
    s2 = am.System(atoms=am.Atoms(pos=[[0.5, 0.5, 0.5]]))
    ctx.stats.case('oracle:defaults', 'two systems with the default box', nontrivial=False)
    before = _snap(s2)
    try:
        s1.wrap()
        s1.pbc[0] = False
    except Exception as e:  # noqa
        ctx.violate('wrap:raises', f'wrap of a system with the default box raised {type(e).__name__}: {e}', {'op': 'defaults'})
        return
    bad = _same_snap(before, _snap(s2))
    if bad or np.shares_memory(_raw_vects(s1.box), _raw_vects(s2.box)) or np.shares_memory(s1.pbc, s2.pbc):
        ctx.violate('aliasing:default-shared', f'wrapping one system built with the default box changed {bad or "nothing yet"} '
                    'of another system built the same way: the default box / pbc is shared between objects',
                    {'op': 'defaults'})




def search(ctx, broken):
    rng = random.Random(ctx.seed + 17)
    mult = 3 if broken else 1
    for it in range(ctx.n(12, 200) * mult):
        for pbc in PBCS:
            case = _grid_case(rng, pbc) if it % 2 == 0 else _float_case(rng, pbc)
            case['ret'] = RETS_W_ALL[it % 8] if it >= 4 else 'kw'
            ctx.stats.case('oracle:wrap', _line('wrap', case))
            _wrap_clauses(ctx, case)
    for it in range(ctx.n(60, 1000) * mult):
        case = _grid_case(rng, (True, True, True)) if it % 4 == 0 else _float_case(rng, (True, True, True))
        case['ret'] = RETS_N_ALL[it % 10] if it >= 10 else 'kw'
        ctx.stats.case('oracle:normalize', _line('norm', case))
        _norm_clauses(ctx, case)
    for it in range(ctx.n(16, 120) * mult):
        pbc = (True, True, True) if it % 2 == 0 else rng.choice(PBCS[1:])
        case = _hairline_case(rng, pbc)
        ctx.stats.case('oracle:wrap:hairline', _line('wrap', case))
        _wrap_clauses(ctx, case)
        if all(pbc) and it % 4 == 0:
            ctx.stats.case('oracle:normalize:hairline', _line('norm', case))
            _norm_clauses(ctx, case)
    # strongly tilted but valid cells: one lattice angle a fraction of a degree from 0 / 180 (each of alpha, beta, gamma,
    # both ends); normalize must not refuse them, wrap must treat them like any other cell
    for it in range(ctx.n(36, 400) * mult):
        cell = (_extreme_cell(rng, it % 3, (it // 3) % 2 == 0), 'extreme')
        case = _float_case(rng, (True, True, True), cell=cell, far=it % 4 == 0)
        case['ret'] = RETS_N_ALL[it % 10]
        ctx.stats.case('oracle:normalize:extreme-angle', _line('norm', case))
        _norm_clauses(ctx, case)
        if it % 3 == 0:
            case = _float_case(rng, rng.choice(PBCS), cell=cell)
            ctx.stats.case('oracle:wrap:extreme-angle', _line('wrap', case))
            _wrap_clauses(ctx, case)
    # the same clauses over magnitudes: whole cases rescaled by exact powers of two
    for it in range(ctx.n(6, 60) * mult):
        for k in SCALES:
            pbc = rng.choice(PBCS)
            case = _rescale(_grid_case(rng, pbc) if it % 2 == 0 else _float_case(rng, pbc), k)
            ctx.stats.case('oracle:wrap:scale', _line('wrap', case))
            _wrap_clauses(ctx, case)
            case = _rescale(_grid_case(rng, (True, True, True)) if it % 3 == 0 else _float_case(rng, (True, True, True)), k)
            ctx.stats.case('oracle:normalize:scale', _line('norm', case))
            _norm_clauses(ctx, case)
    # input forms: integer-typed / float32 / list / tuple / non-contiguous / read-only positions, pbc and box spellings
    for it in range(ctx.n(6, 60) * mult):
        for form in POSFORMS:
            pbc = rng.choice(PBCS)
            if form != 'readonly':                # (wrap works in place: a read-only array cannot be wrapped)
                case = _form_case(rng, pbc, form)
                ctx.stats.case('oracle:wrap:form:' + form, (form, _line('wrap', case)))
                _wrap_clauses(ctx, case)
            case = _form_case(rng, (True, True, True), form)
            ctx.stats.case('oracle:normalize:form:' + form, (form, _line('norm', case)))
            _norm_clauses(ctx, case)
    _default_box_clause(ctx)
    # refusals: exactly singular cells
    for it in range(ctx.n(10, 100) * mult):
        case = _singular_case(rng, rng.choice(PBCS))
        ctx.stats.case('oracle:singular', _line('wrap', case), nontrivial=False)
        _wrap_clauses(ctx, case)
        _norm_clauses(ctx, dict(case, pbc=[True, True, True]))
    # environment: non-default working units
    for it in range(ctx.n(6, 40) * mult):
        case = _float_case(rng, rng.choice(PBCS), far=False) if it % 2 else _grid_case(rng, rng.choice(PBCS))
        ctx.stats.case('oracle:units', _line('wrap', case))
        _env_clauses(ctx, case)
    for it in range(ctx.n(150, 2500) * mult):
        h = _flag_forms(_gen_hist(rng, 'grid' if it % 3 == 0 else 'float'), it)
        ctx.stats.case('oracle:history', (_hist_name(h), _line('hist', h['case'])))
        try:
            _hist_clauses(ctx, h)
        except cm.InfraError:
            raise
        except Exception as e:  # noqa  (degenerate state produced by the implementation: NaN, overflow, ...)
            ctx.violate('history:degenerate-state', f'history {_hist_name(h)}: the object reached a state on which the '
                        f'clauses cannot be evaluated ({type(e).__name__}: {e})', {'op': 'hist', 'hist': _pub(h)})
    # the periodicity setting edited in place (item assignment / the caller's own array) between wraps
    for it in range(ctx.n(80, 1000) * mult):
        h = _gen_pbc_hist(rng, 'grid' if it % 2 == 0 else 'float',
                          cell=(_extreme_cell(rng), 'extreme') if it % 10 == 9 else None)
        h = _flag_forms(h, it // 2)
        ctx.stats.case('oracle:history:pbc-in-place', (_hist_name(h), _line('hist', h['case'])))
        try:
            _hist_clauses(ctx, h)
        except cm.InfraError:
            raise
        except Exception as e:  # noqa
            ctx.violate('history:degenerate-state', f'history {_hist_name(h)}: the object reached a state on which the '
                        f'clauses cannot be evaluated ({type(e).__name__}: {e})', {'op': 'hist', 'hist': _pub(h)})
    # counts and thresholds: large systems (sizes around every power of two, one of ~70 000 and one of ~270 000 atoms per
    # quick run), every row screened, through wrap (any periodicity) and through both entry points of normalize
    sizes = _big_sizes(rng, ctx.thorough)
    for it, n in enumerate(sizes):
        regime = 'grid' if (it + ctx.seed) % 3 == 0 else 'float'
        pbc = (True, True, True) if it % 2 == 0 else rng.choice(PBCS)
        # how far out the atoms are (whole cells): every value in turn; the systems above 60 000 atoms alternately have
        # them up to 70 000 cells out in the wrap case / in the normalize case
        cw = 70000 if n > 60000 and it % 2 == 0 else BIG_CELLS[(it + ctx.seed) % len(BIG_CELLS)]
        cn = 70000 if n > 60000 and it % 2 == 1 else BIG_CELLS[(it + ctx.seed + 2) % len(BIG_CELLS)]
        spec = _big_spec(rng, n, regime, pbc, cw)
        case = _big_case(spec)
        case['ret'] = RETS_W_ALL[it % 8] if n < 200000 else 'kw'
        ctx.stats.case('oracle:wrap:big', _big_label('wrap', spec))
        _wrap_clauses(ctx, case)
        spec = _big_spec(rng, n, 'float' if regime == 'grid' and it % 2 else regime, (True, True, True), cn)
        case = _big_case(spec)
        case['ret'] = RETS_N_ALL[it % 10]
        ctx.stats.case('oracle:normalize:big', _big_label('norm', spec))
        _norm_clauses(ctx, case)
    # the entry points: flag / scale / style values of every kind, decided by Python's own bool / isinstance / ==
    for rec in _api_cases(random.Random(ctx.seed + 29), ctx.n(288, 2304) * mult):
        ctx.stats.case('oracle:api:' + rec['kind'], rec['line'])
        _api_clauses(ctx, rec)
    # cells given by their bounds (set_hi_los): the three ways a user reaches it
    hrng = random.Random(ctx.seed + 47)
    for it in range(ctx.n(90, 600) * mult):
        args = _hilo_args(hrng)
        ctx.stats.case('oracle:hilo', ('hilo', it % 3) + tuple(args), nontrivial=any(args[6:]))
        _hilo_clauses(ctx, args, it % 3)
    ctx.extra['bound_used'] = {k: round(v, 4) for k, v in sorted(MARGIN.items())}


def replay(ctx, payload):
    r = payload.get('replay') or {}
    cases = [r] if (r.get('case') or r.get('hist') or r.get('big') or r.get('op') in ('defaults', 'api', 'hilo')) else \
        [d for d in payload.get('disagreements', []) if d and (d.get('case') or d.get('hist'))]
    if not cases:
        search(ctx, True)
        return
    for r in cases:
        if r.get('hist'):
            h = r['hist']
            res = _hist_clauses(ctx, h)
            print('replay history', _hist_name(h), 'pbc', h['case']['pbc'], '->', res or 'all clauses hold')
            if ctx.driver is not None:
                _corr_hist(ctx, [{'case': h['case'], 'ops': h['ops']}])
                for d in ctx.disagreements:
                    print('replay: model/implementation disagree:', d.what)
            continue
        if r.get('op') == 'hilo':
            _hilo_clauses(ctx, r['args'], r.get('how', 0))
            print('replay box bounds', r['args'], '->', [v.what for v in ctx.violations] or 'all clauses hold')
            continue
        if r.get('op') == 'api':
            rec = dict(r['api'])
            _api_clauses(ctx, rec)
            print('replay', rec['label'], '->', [v.what for v in ctx.violations] or 'all clauses hold')
            if ctx.driver is not None:
                k = rec['kind']
                head = {'wrap': 'apiwrap ' + str(rec.get('a')), 'box': 'apibox ' + str(rec.get('a')),
                        'norm': 'apinorm %s %s' % (rec.get('a'), rec.get('b')), 'lmp': 'apilmp ' + str(rec.get('b'))}[k]
                rec['line'] = head + _line('', rec['case'])
                if k == 'box':
                    rec['line'] += ' ; ' + cm.frs([x for row in rec['box2'][0] for x in row]) + ' ' + cm.frs(rec['box2'][1])
                _corr_api(ctx, [rec])
                for d in ctx.disagreements:
                    print('replay: model/implementation disagree:', d.what)
            continue
        case = r.get('case')
        if r.get('big'):
            case = _big_case(r['big'])
            res = (_wrap_clauses if r.get('op') == 'wrap' else _norm_clauses)(ctx, case)
            print('replay', _big_label(r.get('op'), r['big']), '->', res or 'all clauses hold')
            continue
        if r.get('op') == 'defaults':
            _default_box_clause(ctx)
            print('replay default box ->', [v.what for v in ctx.violations] or 'not shared')
            continue
        if r.get('op') == 'env':
            _env_clauses(ctx, case)
            print('replay working units', r.get('units'), '->', [v.what for v in ctx.violations] or 'same result')
            continue
        f = _wrap_clauses if r.get('op') == 'wrap' else _norm_clauses
        res = f(ctx, case)
        print('replay', r.get('op'), 'pbc', case['pbc'], '->', res or 'all clauses hold')
        if ctx.driver is not None:
            (_corr_wrap if r.get('op') == 'wrap' else _corr_norm)(ctx, [case])
            for d in ctx.disagreements:
                print('replay: model/implementation disagree:', d.what)


# ----------------------------------------------------------------------------------------
# the public entry points with their option handling: wrap(<flag>), box_set(scale=<x>), System.normalize(<style>, <flag>),
# lammps.normalize(system, <flag>) - driver ops apiwrap / apibox / apinorm / apilmp, which run the statement lists and tests
# REGENERATED from the source (Generated/WrapSource.lean; proved equal to the hand model in Proofs/C05_Source.lean)
# ----------------------------------------------------------------------------------------
_OMIT = object()


def _pyargs():
    import numpy as np
    return [('omit', _OMIT), ('none', None), ('b0', False), ('b1', True), ('i:0', 0), ('i:1', 1), ('i:2', 2), ('i:-1', -1),
            ('s:', ''), ('s:x', 'x'), ('s:False', 'False'), ('s:0', '0'), ('s:True', 'True'), ('f0', 0.0), ('f1', 1.0), ('f1', 0.5),
            ('np0', np.False_), ('np1', np.True_)]


def _pystyles():
    return [('omit', _OMIT), ('omit', _OMIT), ('s:lammps', 'lammps'), ('s:lammps', 'lammps'), ('s:LAMMPS', 'LAMMPS'),
            ('s:Lammps', 'Lammps'), ('s:lammp', 'lammp'), ('s:lammpss', 'lammpss'), ('s:l', 'l'), ('s:', ''), ('none', None),
            ('b1', True), ('i:1', 1), ('i:0', 0), ('s:lammps_', 'lammps_'), ('s:ammps', 'ammps')]


def _api_call(kind, system, a, b=_OMIT, how=0, box2=None):
    """the real call in one of its spellings; returns what the call returned."""
    import atomman as am
    if kind == 'wrap':
        if a is _OMIT:
            return system.wrap()
        return system.wrap(a) if how % 2 == 0 else system.wrap(return_imageflags=a)
    if kind == 'box':
        kw = {} if a is _OMIT else {'scale': a}
        return system.box_set(vects=box2[0], origin=box2[1], **kw)
    if kind == 'norm':
        args, kw = [], {}
        if a is not _OMIT:
            if how % 2 == 0:
                args.append(a)
            else:
                kw['style'] = a
        if b is not _OMIT:
            if how % 2 == 0 and a is not _OMIT and how % 4 == 0:
                args.append(b)
            else:
                kw['return_transform'] = b
        return system.normalize(*args, **kw)
    if b is _OMIT:
        return am.lammps.normalize(system)
    return am.lammps.normalize(system, b) if how % 2 == 0 else am.lammps.normalize(system, return_transform=b)


def _api_err(e):
    if isinstance(e, TypeError):
        return 'err:type'
    return _impl_err(e)


def _api_one(ctx, rec, out, report):
    """one entry-point call compared with the driver's reply; `report(key, what)` on a difference."""
    import numpy as np
    kind, case = rec['kind'], rec['case']
    pa = dict(_pyargs() + _pystyles())
    a = pa[rec['a']] if rec.get('a') is not None else _OMIT
    b = pa[rec['b']] if rec.get('b') is not None else _OMIT
    if rec.get('a') == 'f1' and rec.get('aval') is not None:
        a = rec['aval']
    system = _build(case)
    box2 = None
    if rec.get('box2'):
        box2 = (np.array(rec['box2'][0], dtype=float), np.array(rec['box2'][1], dtype=float))
    try:
        res = _api_call(kind, system, a, b, rec.get('how', 0), box2)
        ierr = None
    except Exception as e:  # noqa
        res, ierr = None, _api_err(e)
    if out.startswith('err:') or ierr:
        if out != ierr:
            report('api:' + kind + ':refusal', f'{rec["label"]}: implementation {ierr or "accepts"}, model '
                   f'{out if out.startswith("err:") else "accepts"}')
        return
    sec = _sections(out)
    V = _fm(case['vects'])
    sc = max(abs(float(x)) for r in case['vects'] for x in r)
    if kind == 'wrap':
        ret = sec[0][1] == '1'
        if (res is not None) != ret:
            report('api:wrap:return', f'{rec["label"]}: implementation returns {type(res).__name__}, model '
                   f'{"the image flags" if ret else "nothing"}')
            return
        mflags = [int(t) for t in sec[3]] if ret else None
        if ret and (np.asarray(res).shape != (len(case['pos']), 3) or [int(x) for x in np.asarray(res).ravel()] != mflags):
            report('api:wrap:flags', f'{rec["label"]}: image flags {np.asarray(res).ravel().tolist()}, model {mflags}')
            return
        got = list(system.box.vects.ravel()) + list(system.box.origin)
        mpos = [F(t) for t in sec[2]]
        ipos = system.atoms.view['pos'].ravel().tolist()
        if any(F(float(x)) != y for x, y in zip(ipos, mpos)):
            report('api:wrap:positions', f'{rec["label"]}: positions {ipos}, model {[float(y) for y in mpos]}')
            return
        mbox = [F(t) for t in sec[1]]
        tolb = 1e-9 * max(abs(float(y)) for y in mbox)
        if any(abs(float(x) - float(y)) > tolb for x, y in zip(got, mbox)):
            report('api:wrap:box', f'{rec["label"]}: box {got}, model {[float(y) for y in mbox]}')
        return
    if kind == 'box':
        if res is not None:
            report('api:box:return', f'{rec["label"]}: box_set returned {res!r}')
            return
        mbox = [F(t) for t in sec[0][1:]]
        got = list(system.box.vects.ravel()) + list(system.box.origin)
        if any(F(float(x)) != y for x, y in zip(got, mbox)):
            report('api:box:box', f'{rec["label"]}: box {got}, model {[float(y) for y in mbox]}')
            return
        mpos = [F(t) for t in sec[1]]
        ipos = system.atoms.view['pos'].ravel().tolist()
        tol = 1e-9 * (max(abs(float(y)) for y in mbox) + max(abs(float(y)) for y in mpos) + sc)
        if any(abs(float(x) - float(y)) > tol for x, y in zip(ipos, mpos)):
            report('api:box:positions', f'{rec["label"]}: positions {ipos}, model {[float(y) for y in mpos]} (scale argument '
                   f'{rec["a"]}: {"relative coordinates held" if rec["a"] == "b1" else "Cartesian positions held"})')
        return
    # norm / lmp
    ret = sec[0][1] == '1'
    is_tuple = isinstance(res, tuple)
    if is_tuple != ret or (is_tuple and len(res) != 2):
        report('api:' + kind + ':return', f'{rec["label"]}: implementation returns '
               f'{"(system, transformation)" if is_tuple else type(res).__name__}, model '
               f'{"(system, transformation)" if ret else "the system alone"}')
        return
    new = res[0] if is_tuple else res
    mbox = [F(t) for t in sec[1]]
    kap = max(_kappa(V), _kabc(V))
    tol = max(1e-9, CN * U * kap * kap) * max(abs(float(y)) for y in mbox[:9])
    got = list(new.box.vects.ravel()) + list(new.box.origin)
    if any(abs(float(x) - float(y)) > tol for x, y in zip(got, mbox)):
        report('api:' + kind + ':box', f'{rec["label"]}: box {got}, model {[float(y) for y in mbox]}')
        return
    if is_tuple:
        mT = [F(t) for t in sec[3]]
        T = np.asarray(res[1], dtype=float).ravel().tolist()
        if len(T) != 9 or any(abs(float(x) - float(y)) > max(1e-9, CN * U * kap * kap) for x, y in zip(T, mT)):
            report('api:' + kind + ':transform', f'{rec["label"]}: transformation {T}, model {[float(y) for y in mT]}')


def _api_cases(rng, n):
    import numpy as np
    A, S = _pyargs(), _pystyles()
    recs = []
    for it in range(n):
        kind = ('wrap', 'box', 'norm', 'lmp')[it % 4]
        pbc = rng.choice(PBCS) if kind in ('wrap', 'box') else (True, True, True)
        case = _grid_case(rng, pbc, n=rng.randint(1, 4))
        rec = {'kind': kind, 'case': case, 'how': rng.randint(0, 7)}
        if kind == 'wrap':
            rec['a'] = A[(it // 4) % len(A)][0]
            if rec['a'] == 'f1':
                rec['aval'] = A[(it // 4) % len(A)][1]
            rec['line'] = 'apiwrap ' + rec['a'] + _line('', case)
        elif kind == 'box':
            rec['a'] = A[(it // 4) % len(A)][0]
            if rec['a'] == 'f1':
                rec['aval'] = A[(it // 4) % len(A)][1]
            V2 = _grid_cell(rng)
            o2 = [cm.dyadic(rng, -4, 4, 2) for _ in range(3)]
            c2 = _canon_case({'vects': V2.tolist(), 'origin': o2, 'pbc': list(pbc), 'pos': [], 'regime': 'grid'})
            rec['box2'] = (c2['vects'], c2['origin'])
            rec['line'] = 'apibox ' + rec['a'] + _line('', case) + ' ; ' + cm.frs([x for r in c2['vects'] for x in r]) + ' ' \
                + cm.frs(c2['origin'])
        elif kind == 'norm':
            rec['a'] = S[(it // 4) % len(S)][0] if it % 3 else rng.choice(S)[0]
            rec['b'] = A[(it // 4 + it // 64) % len(A)][0]
            if rec['a'] == 'omit' and rec['b'] != 'omit':
                rec['how'] |= 1                      # (the flag cannot be positional when the style is omitted)
            rec['line'] = 'apinorm ' + rec['a'] + ' ' + rec['b'] + _line('', case)
        else:
            rec['b'] = A[(it // 4) % len(A)][0]
            rec['line'] = 'apilmp ' + rec['b'] + _line('', case)
        rec['label'] = {'wrap': 'wrap(%s)', 'box': 'box_set(vects=, origin=, scale=%s)', 'norm': 'normalize(style %s, flag %s)',
                        'lmp': 'lammps.normalize(system, %s)'}[kind] % \
            ((rec.get('a'), rec.get('b')) if kind == 'norm' else ((rec.get('b'),) if kind == 'lmp' else (rec.get('a'),)))
        recs.append(rec)
    return recs


def _pub_api(rec):
    return {k: v for k, v in rec.items() if k != 'line'}


def _hexname(k):
    return k.encode('utf-8').hex() or '-'


def _corr_copykeys(ctx, rng, n):
    """keys of the atoms of the copy `normalize` returns vs the model's `copyKeys` (generated reserved / explicit lists)."""
    lines, wants = [], []
    for it in range(n):
        case = _grid_case(rng, (True, True, True), n=rng.randint(1, 3))
        system = _build(case)
        keys = list(system.atoms.view.keys())
        try:
            res = system.normalize()
            got = list(res.atoms.view.keys())
        except Exception as e:  # noqa
            got = 'raised ' + type(e).__name__
        lines.append('copykeys ' + ' '.join(_hexname(k) for k in keys))
        wants.append((case, keys, got))
    outs = ctx.driver.ask_many(lines)
    for line, (case, keys, got), out in zip(lines, wants, outs):
        ctx.stats.case('api:copykeys', line, nontrivial=True)
        model = [bytes.fromhex(t).decode('utf-8') if t != '-' else '' for t in out.split()] if not out.startswith('err:') else out
        if isinstance(got, str) or isinstance(model, str) or sorted(got) != sorted(model):
            ctx.disagree('norm:carried', f'normalize: the copy has the per-atom keys {got}, model {model} (input keys {keys})',
                         {'op': 'norm', 'case': case})


def _bits_equal(a, b):
    import numpy as np
    a, b = np.asarray(a), np.asarray(b)
    if a.dtype != b.dtype or a.shape != b.shape:
        return False
    if a.dtype == object:
        return list(a.ravel()) == list(b.ravel())
    return a.tobytes() == b.tobytes()


def _corr_copyvals(ctx, rng, n):
    """VALUES of the copy `normalize` works on (`deepcopy(system.atoms)`, i.e. Atoms.__deepcopy__) vs the model's `copyView` run on
    the regenerated explicit sources / loop source / exclusion list: every key of the copy is labelled with the index of the
    key of the ORIGINAL whose column it holds bit for bit (its own, if that matches), `x` if none."""
    from copy import deepcopy
    lines, wants = [], []
    for it in range(n):
        case = _grid_case(rng, (True, True, True), n=rng.randint(1, 4))
        system = _build(case)
        keys = list(system.atoms.view.keys())
        orig = {k: system.atoms.view[k].copy() for k in keys}
        try:
            cp = deepcopy(system.atoms)
            got = []
            for k in cp.view.keys():
                v = cp.view[k]
                if k in orig and _bits_equal(v, orig[k]):
                    lab = str(keys.index(k))
                else:
                    lab = next((str(j) for j, kk in enumerate(keys) if _bits_equal(v, orig[kk])), 'x')
                got.append(_hexname(k) + ':' + lab)
        except Exception as e:  # noqa
            got = 'raised ' + type(e).__name__
        lines.append('copyvals ' + ' '.join(_hexname(k) + ':' + str(j) for j, k in enumerate(keys)))
        wants.append((case, keys, got))
    outs = ctx.driver.ask_many(lines)
    for line, (case, keys, got), out in zip(lines, wants, outs):
        ctx.stats.case('api:copyvals', line, nontrivial=True)
        model = out.split() if not out.startswith('err:') else out
        if isinstance(got, str) or isinstance(model, str) or sorted(got) != sorted(model):
            ctx.disagree('norm:carried', f'deepcopy of the atoms (the copy normalize works on): entries key:column-of-the-original '
                         f'{got}, model {model} (input keys {keys})', {'op': 'norm', 'case': case})


def _hilo_args(rng):
    """xlo xhi ylo yhi zlo zhi xy xz yz: dyadic (so hi - lo is exact), at several magnitudes; 15 %: one pair of bounds equal or
    in the wrong order; tilt factors 0, ordinary, or 2^-28 .. 2^-40 of the scale (around the 1e-9 clean-up of the setter)."""
    sc = 2.0 ** rng.choice((0, 0, 0, 7, -9, 40, -40))
    lo = [cm.dyadic(rng, -8, 8, 3) * sc for _ in range(3)]
    ln = [cm.dyadic(rng, 0.125, 8, 3) * sc for _ in range(3)]
    if rng.random() < 0.15:
        ln[rng.randrange(3)] *= rng.choice((0.0, -1.0))
    hi = [a + b for a, b in zip(lo, ln)]
    tilt = [rng.choice((0.0, cm.dyadic(rng, -8, 8, 3) * sc, sc * 2.0 ** -rng.choice((28, 29, 30, 31, 33, 40)),
                        -sc * 2.0 ** -rng.choice((29, 30, 35)))) for _ in range(3)]
    return [lo[0], hi[0], lo[1], hi[1], lo[2], hi[2]] + tilt


def _hilo_clauses(ctx, args, how=0):
    """`Box(xlo=…)` / `system.box_set(xlo=…)` decided without the model: bounds in the wrong order (or equal) must be refused
    (assertion of set_lengths) and leave the object alone; otherwise the cell is EXACTLY [[hi-lo, 0, 0], [xy, ., 0], [xz, yz, .]]
    at the lo corner, except that a component of magnitude <= 1e-9 (1 + 1e-6) of the largest may have been set to 0."""
    import numpy as np
    import atomman as am
    xlo, xhi, ylo, yhi, zlo, zhi, xy, xz, yz = [F(float(x)) for x in args]
    kw = dict(xlo=args[0], xhi=args[1], ylo=args[2], yhi=args[3], zlo=args[4], zhi=args[5], xy=args[6], xz=args[7], yz=args[8])
    label = ', '.join(f'{k}={v!r}' for k, v in kw.items())
    replay = {'op': 'hilo', 'args': [float(x) for x in args], 'how': how}
    valid = xhi > xlo and yhi > ylo and zhi > zlo
    system = None
    try:
        if how == 0:
            bx = am.Box(**kw)
        else:
            system = am.System(atoms=am.Atoms(pos=[[0.25, 0.5, 0.75]]), box=am.Box(), pbc=(True, True, True))
            before = (system.box.vects.copy(), system.box.origin.copy(), system.atoms.pos.copy())
            system.box_set(scale=(how == 2), **kw)
            bx = system.box
    except Exception as e:  # noqa
        if valid:
            ctx.violate('boxset:raises', f'Box bounds {label} are valid but refused ({type(e).__name__}: {e})', replay)
        elif system is not None and not (np.array_equal(system.box.vects, before[0]) and np.array_equal(system.box.origin, before[1])
                                         and np.array_equal(system.atoms.pos, before[2])):
            ctx.violate('refusal:hilo-bounds-state', f'box_set({label}) was refused but the system changed', replay)
        return
    if not valid:
        ctx.violate('refusal:hilo-bounds', f'box bounds in the wrong order / equal ({label}) were accepted: cell '
                    f'{np.asarray(bx.vects).tolist()} origin {np.asarray(bx.origin).tolist()} (set_lengths documents lx, ly, lz > 0)', replay)
        return
    want = [[xhi - xlo, 0, 0], [xy, yhi - ylo, 0], [xz, yz, zhi - zlo]]
    big = max(abs(x) for row in want for x in row)
    got = [[F(float(x)) for x in row] for row in np.asarray(bx.vects)]
    bad = [(i, j) for i in range(3) for j in range(3)
           if got[i][j] != want[i][j] and not (got[i][j] == 0 and abs(want[i][j]) <= big * F(1000001, 10 ** 15))]
    org = [F(float(x)) for x in np.asarray(bx.origin)]
    if bad or org != [xlo, ylo, zlo]:
        ctx.violate('boxset:box', f'{label}: the cell is {np.asarray(bx.vects).tolist()} at {np.asarray(bx.origin).tolist()}, asked for '
                    f'{[[float(x) for x in r] for r in want]} at {[float(xlo), float(ylo), float(zlo)]}', replay)


def _corr_hilo(ctx, rng, n):
    """`Box(xlo=…, …, yz=…)` (set_hi_los -> set_lengths -> vects setter) vs the generated formulas run by the driver op `hilobox`;
    dyadic bounds (differences exact), tilt factors incl. 0, tiny ones the setter's clean-up removes, and non-positive lengths
    (the assertion of set_lengths)."""
    import numpy as np
    import atomman as am
    lines, wants = [], []
    for it in range(n):
        args = _hilo_args(rng)
        try:
            bx = am.Box(xlo=args[0], xhi=args[1], ylo=args[2], yhi=args[3], zlo=args[4], zhi=args[5],
                        xy=args[6], xz=args[7], yz=args[8])
            got = [F(float(x)) for x in list(np.asarray(bx.vects).ravel()) + list(np.asarray(bx.origin).ravel())]
        except AssertionError:
            got = 'err:assert'
        except Exception as e:  # noqa
            got = 'raised ' + type(e).__name__
        lines.append('hilobox ' + ' '.join(cm.fr(x) for x in args))
        wants.append((args, got))
    outs = ctx.driver.ask_many(lines)
    for line, (args, got), out in zip(lines, wants, outs):
        ctx.stats.case('api:hilobox', line, nontrivial=any(args[6:]))
        model = out if out.startswith('err:') else cm.unfrs(out)
        if got != model:
            ctx.disagree('boxset:box', f'Box(xlo={args[0]!r}, xhi={args[1]!r}, ylo={args[2]!r}, yhi={args[3]!r}, zlo={args[4]!r}, '
                         f'zhi={args[5]!r}, xy={args[6]!r}, xz={args[7]!r}, yz={args[8]!r}): implementation '
                         f'{got if isinstance(got, str) else [float(x) for x in got]}, model '
                         f'{model if isinstance(model, str) else [float(x) for x in model]}', {'op': 'hilo', 'args': args})


def _corr_api(ctx, recs):
    outs = ctx.driver.ask_many([r['line'] for r in recs])
    for rec, out in zip(recs, outs):
        ctx.stats.case('api:' + rec['kind'], rec['line'], nontrivial=rec.get('a') not in (None, 'omit', 'b0', 'b1')
                       or rec.get('b') not in (None, 'omit', 'b0', 'b1'))
        _api_one(ctx, rec, out, lambda key, what: ctx.disagree(key, what, {'op': 'api', 'api': _pub_api(rec)}))


def _api_clauses(ctx, rec):
    """the option handling decided WITHOUT the model: Python's own bool() / isinstance / == on the value handed over."""
    import numpy as np
    kind, case = rec['kind'], rec['case']
    pa = dict(_pyargs() + _pystyles())
    a = pa[rec['a']] if rec.get('a') is not None else _OMIT
    b = pa[rec['b']] if rec.get('b') is not None else _OMIT
    if rec.get('a') == 'f1' and rec.get('aval') is not None:
        a = rec['aval']
    system = _build(case)
    before = _snap(system)
    box2 = None
    if rec.get('box2'):
        box2 = (np.array(rec['box2'][0], dtype=float), np.array(rec['box2'][1], dtype=float))
    replay = {'op': 'api', 'api': _pub_api(rec)}
    try:
        res = _api_call(kind, system, a, b, rec.get('how', 0), box2)
        err = None
    except Exception as e:  # noqa
        res, err = None, e
    lab = rec['label']
    if kind == 'wrap':
        want = False if a is _OMIT else bool(a)
        if err is not None:
            ctx.violate('wrap:raises', f'{lab} raised {type(err).__name__}: {err}', replay)
        elif (res is not None) != want:
            ctx.violate('wrap:flags-shape', f'{lab}: a {"truthy" if want else "falsy"} flag, but wrap returned '
                        f'{"nothing" if res is None else "image flags"}', replay)
    elif kind == 'box':
        sc = False if a is _OMIT else a
        refuse = not isinstance(sc, bool)
        if refuse and not isinstance(err, TypeError):
            ctx.violate('refusal:box_set-scale-type', f'{lab}: scale is not a bool, expected the documented TypeError, got '
                        f'{"no exception" if err is None else type(err).__name__}', replay)
        elif refuse and _same_snap(before, _snap(system)):
            ctx.violate('refusal:box_set-scale-type', f'{lab}: the refused call changed {_same_snap(before, _snap(system))}', replay)
        elif not refuse and err is not None:
            ctx.violate('boxset:raises', f'{lab} raised {type(err).__name__}: {err}', replay)
        elif not refuse:
            # scale=True: relative coordinates held; scale=False / omitted: Cartesian positions held
            V0, o0 = _fm(case['vects']), _fv(case['origin'])
            V1, o1 = _fm(system.box.vects.tolist()), _fv(system.box.origin.tolist())
            pos1 = system.atoms.view['pos'].tolist()
            for i, (p0, p1) in enumerate(zip(case['pos'], pos1)):
                if sc is True:
                    s0 = _rel(_fv(p0), V0, _inv(V0), o0)
                    s1 = _rel(_fv(p1), V1, _inv(V1), o1)
                    bad = any(abs(float(x - y)) > 1e-9 * (1 + abs(float(x))) for x, y in zip(s0, s1))
                else:
                    bad = [float(x) for x in p0] != [float(x) for x in p1]
                if bad:
                    ctx.violate('boxset:relative-positions' if sc is True else 'boxset:absolute-positions',
                                f'{lab}: atom {i} {p0} -> {p1}', replay)
                    break
    else:
        style = 'lammps' if (a is _OMIT or kind == 'lmp') else a
        flag = False if b is _OMIT else bool(b)
        accept = isinstance(style, str) and style == 'lammps'
        if not accept:
            if not isinstance(err, ValueError):
                ctx.violate('refusal:normalize-style', f'{lab}: only the style \'lammps\' exists, expected the documented '
                            f'ValueError, got {"a result" if err is None else type(err).__name__}', replay)
        elif err is not None:
            ctx.violate('normalize:raises', f'{lab} raised {type(err).__name__}: {err}', replay)
        elif isinstance(res, tuple) != flag:
            ctx.violate('normalize:return', f'{lab}: a {"truthy" if flag else "falsy"} flag, but normalize returned '
                        f'{"(system, transformation)" if isinstance(res, tuple) else "the system alone"}', replay)
        if _same_snap(before, _snap(system)):
            ctx.violate('normalize:input-modified', f'{lab} changed {_same_snap(before, _snap(system))}', replay)


# ----------------------------------------------------------------------------------------
# translator: the source of wrap / box_set / normalize and of the Box pieces they run through, read with `ast` on every
# run and written to lean/Atomman/Generated/WrapSource.lean; Proofs/C05_Source.lean proves every generated definition equal
# to the hand-written model's (theorems gen_*_eq_model).  Anything the reader below does not recognise raises
# TranslationError (the check then reports the broken tie and runs the failing-input search on the committed model).
# ----------------------------------------------------------------------------------------
GENERATED = ['WrapSource']


def translate():
    import ast
    import hashlib
    from ..translate import TranslationError

    def bad(msg):
        raise TranslationError('C05 source reader: ' + msg)

    U = ast.unparse

    def body_of(fn):
        b = fn.body
        if b and isinstance(b[0], ast.Expr) and isinstance(b[0].value, ast.Constant) and isinstance(b[0].value.value, str):
            b = b[1:]
        return b

    def cls_of(tree, name):
        c = [n for n in tree.body if isinstance(n, ast.ClassDef) and n.name == name]
        if len(c) != 1:
            bad(f'class {name} not found exactly once')
        return c[0]

    def method(cls, name, setter=False):
        out = []
        for n in cls.body:
            if isinstance(n, ast.FunctionDef) and n.name == name:
                decos = [U(d) for d in n.decorator_list]
                if setter == (f'{name}.setter' in decos):
                    out.append(n)
        if len(out) != 1:
            bad(f'{cls.name}.{name}{" setter" if setter else ""} not found exactly once')
        return out[0]

    def default_of(fn, arg):
        a = fn.args
        names = [x.arg for x in a.args]
        if arg not in names:
            bad(f'{fn.name} has no parameter {arg}')
        k = names.index(arg) - (len(names) - len(a.defaults))
        if k < 0:
            return None
        return a.defaults[k]

    def pyval(node):
        if node is None:
            bad('missing default')
        if isinstance(node, ast.Constant):
            v = node.value
            if v is None:
                return '.none'
            if isinstance(v, bool):
                return f'.bool {"true" if v else "false"}'
            if isinstance(v, int):
                return f'.int ({v})'
            if isinstance(v, str) and '"' not in v and '\\' not in v:
                return f'.str "{v}"'
            if isinstance(v, float):
                return f'.float {"true" if v != 0 else "false"}'
        bad(f'default value {U(node)} is not a plain literal')

    def rat(x):
        fr = F(x)
        return f'mkRat {fr.numerator} {fr.denominator}' if fr >= 0 else f'mkRat ({fr.numerator}) {fr.denominator}'

    def num(node):
        if isinstance(node, ast.Constant) and isinstance(node.value, (int, float)) and not isinstance(node.value, bool):
            return node.value
        bad(f'{U(node)} is not a numeric literal')

    CMP = {ast.LtE: '≤', ast.GtE: '≥', ast.Lt: '<', ast.Gt: '>'}

    def tr(node, env):
        """(lean text, type) of an expression; types K (scalar), V (3-vector), M (3x3), P (proposition)."""
        key = U(node)
        if key in env:
            return env[key]
        if isinstance(node, ast.Constant) and isinstance(node.value, (int, float)) and not isinstance(node.value, bool):
            if node.value == 0:
                return '0', 'K'
            if node.value == 1:
                return '1', 'K'
            bad(f'literal {key} where none is expected')
        if isinstance(node, ast.UnaryOp) and isinstance(node.op, ast.USub):
            a, t = tr(node.operand, env)
            if t in 'KV':
                return f'(-{a})', t
        if isinstance(node, ast.BinOp):
            if isinstance(node.op, ast.Pow):
                a, t = tr(node.left, env)
                e = num(node.right)
                if t == 'K' and e == 2 and isinstance(e, int):
                    return f'({a} * {a})', 'K'
                if t == 'K' and e == 0.5:
                    return f'(sqrt {a})', 'K'
                bad(f'power {key}')
            a, ta = tr(node.left, env)
            b, tb = tr(node.right, env)
            if isinstance(node.op, (ast.Add, ast.Sub)) and ta == tb and ta in 'KV':
                return f'({a} {"+" if isinstance(node.op, ast.Add) else "-"} {b})', ta
            if isinstance(node.op, ast.Mult):
                if (ta, tb) == ('K', 'K'):
                    return f'({a} * {b})', 'K'
                if (ta, tb) == ('V', 'K'):
                    return f'(V3.smul {b} {a})', 'V'
                if (ta, tb) == ('K', 'V'):
                    return f'(V3.smul {a} {b})', 'V'
            if isinstance(node.op, ast.Div):
                if (ta, tb) == ('K', 'K'):
                    return f'({a} / {b})', 'K'
                if (ta, tb) == ('V', 'K'):
                    return f'(vdiv {a} {b})', 'V'
            bad(f'operator in {key}')
        if isinstance(node, ast.Compare) and len(node.ops) == 1 and type(node.ops[0]) in CMP:
            a, ta = tr(node.left, env)
            b, tb = tr(node.comparators[0], env)
            if (ta, tb) == ('K', 'K'):
                return f'({a} {CMP[type(node.ops[0])]} {b})', 'P'
            bad(f'comparison {key}')
        if isinstance(node, ast.Attribute) and node.attr == 'T':
            a, t = tr(node.value, env)
            if t == 'M':
                return f'{a}.transpose' if a.isidentifier() else f'({a}).transpose', 'M'
            if t == 'V':
                return a, 'V'                       # .T of a 1-D array is the array
        if isinstance(node, ast.List) and len(node.elts) == 3:
            parts = [tr(e, env) for e in node.elts]
            ts = {t for _, t in parts}
            if ts == {'K'}:
                return '⟨' + ', '.join(p for p, _ in parts) + '⟩', 'V'
            if ts == {'V'}:
                return '⟨' + ', '.join(p for p, _ in parts) + '⟩', 'M'
        if isinstance(node, ast.Subscript) and U(node.slice) == '0' and isinstance(node.value, ast.Call) \
                and U(node.value.func) == 'np.linalg.lstsq':
            c = node.value
            if len(c.args) == 2 and [(k.arg, U(k.value)) for k in c.keywords] == [('rcond', 'None')]:
                a, ta = tr(c.args[0], env)
                b, tb = tr(c.args[1], env)
                if (ta, tb) == ('M', 'M'):
                    return f'(M3.mul (M3.inv {a}) {b})', 'M'   # exact solve of the square non-singular system
        if isinstance(node, ast.Call):
            f = U(node.func)
            if f == 'np.einsum':
                if len(node.args) == 3 and U(node.args[0]) == "'...i,...i'" and not node.keywords:
                    a, ta = tr(node.args[1], env)
                    b, tb = tr(node.args[2], env)
                    if (ta, tb) == ('V', 'V'):
                        return f'(V3.dot {a} {b})', 'K'
                bad(f'expression {key}')
            args = [tr(a, env) for a in node.args]
            kws = [(k.arg, U(k.value)) for k in node.keywords]
            ts = [t for _, t in args]
            xs = [x for x, _ in args]
            if f == 'deepcopy' and len(args) == 1 and not kws:
                return args[0]
            if f == 'np.dot' and ts == ['V', 'V'] and not kws:
                return f'(V3.dot {xs[0]} {xs[1]})', 'K'
            if f == 'np.cross' and ts == ['V', 'V'] and not kws:
                return f'(V3.cross {xs[0]} {xs[1]})', 'V'
            if f == 'np.inner' and ts == ['V', 'M'] and not kws:
                return f'(M3.mulVec {xs[1]} {xs[0]})', 'V'
            if f == 'np.linalg.inv' and ts == ['M'] and not kws:
                return f'(M3.inv {xs[0]})', 'M'
            if f == 'np.linalg.norm' and ts == ['V'] and kws == [('axis', '-1')]:
                return f'(sqrt (V3.normSq {xs[0]}))', 'K'
            if isinstance(node.func, ast.Attribute) and node.func.attr == 'dot' and len(node.args) == 1 and not kws:
                a, ta = tr(node.func.value, env)
                if (ta, ts[0]) == ('V', 'M'):
                    return f'(M3.vecMul {a} {xs[0]})', 'V'
        bad(f'expression {key}')

    def kwcall(node, fname):
        """keywords of the expression statement `fname(k=v, …)`."""
        if not (isinstance(node, ast.Expr) and isinstance(node.value, ast.Call) and U(node.value.func) == fname
                and not node.value.args):
            return None
        if any(k.arg is None for k in node.value.keywords):
            return 'starred'
        return [(k.arg, k.value) for k in node.value.keywords]

    def flag_test(test, name):
        if U(test) == name:
            return 'v.truthy'
        if U(test) == f'{name} is True':
            return 'v.isTrue'
        bad(f'test {U(test)} on {name}')

    def pin(fn):
        d = ast.dump(ast.Module(body=body_of(fn), type_ignores=[]), annotate_fields=True, include_attributes=False)
        args = ast.dump(fn.args, include_attributes=False)
        return hashlib.sha256((args + d).encode()).hexdigest()[:20]

    GET = "self.atoms_prop('pos', scale=True)"
    PUT = "self.atoms_prop('pos', value=spos, scale=True)"

    # ---------------------------------------------------------------- System.py
    stree = ast.parse(cm.source('atomman/core/System.py'))
    imp = [n for n in stree.body if isinstance(n, ast.ImportFrom) and any(a.asname == 'lmp_normalize' for a in n.names)]
    if len(imp) != 1 or imp[0].module != 'lammps' or imp[0].level != 2 or [a.name for a in imp[0].names] != ['normalize']:
        bad('lmp_normalize is not `from ..lammps import normalize`')
    S = cls_of(stree, 'System')
    out = {}

    # box_set
    fn = method(S, 'box_set')
    b = body_of(fn)
    if not (fn.args.kwarg and fn.args.kwarg.arg == 'kwargs' and len(fn.args.args) == 1 and len(b) == 3):
        bad('box_set: signature / number of statements')
    if not (isinstance(b[0], ast.Assign) and U(b[0].targets[0]) == 'scale' and isinstance(b[0].value, ast.Call)
            and U(b[0].value.func) == 'kwargs.pop' and len(b[0].value.args) == 2 and U(b[0].value.args[0]) == "'scale'"):
        bad('box_set: scale is not popped from kwargs with a default')
    out['boxSetScaleDefault'] = pyval(b[0].value.args[1])
    g = b[1]
    if not (isinstance(g, ast.If) and not g.orelse and len(g.body) == 1 and isinstance(g.body[0], ast.Raise)
            and U(g.test) == 'not isinstance(scale, bool)'):
        bad('box_set: type guard')
    exc = U(g.body[0].exc.func) if isinstance(g.body[0].exc, ast.Call) else U(g.body[0].exc)
    ERR = {'TypeError': '.typeError', 'ValueError': '.valueError', 'AssertionError': '.assertion'}
    if exc not in ERR:
        bad('box_set: refusal ' + exc)
    out['boxSetRefusal'] = ERR[exc]
    br = b[2]
    if not isinstance(br, ast.If):
        bad('box_set: branch')
    out['boxSetScaledBranch'] = flag_test(br.test, 'scale')

    def box_set_stmts(stmts):
        res = []
        for st in stmts:
            if isinstance(st, ast.Assign) and U(st.targets[0]) == 'spos' and U(st.value) == GET:
                res.append('.getSpos')
            elif isinstance(st, ast.Expr) and U(st.value) == 'self.box.set(**kwargs)':
                res.append('.setBoxKw')
            elif isinstance(st, ast.Expr) and U(st.value) == PUT:
                res.append('.putSpos')
            else:
                bad('box_set: statement ' + U(st)[:60])
        return res
    out['boxSetScaledBody'] = box_set_stmts(br.body)
    out['boxSetPlainBody'] = box_set_stmts(br.orelse)

    # wrap
    fn = method(S, 'wrap')
    out['wrapFlagDefault'] = pyval(default_of(fn, 'return_imageflags'))
    out['wrapParams'] = [a.arg for a in fn.args.args]
    prog = []
    inits = {}
    formulas = {}
    seen_ret = False
    b = body_of(fn)
    k = 0
    while k < len(b):
        st = b[k]
        k += 1
        if seen_ret:
            bad('wrap: statement after the return')
        if isinstance(st, ast.Assign) and len(st.targets) == 1:
            t, v = U(st.targets[0]), st.value
            if t in ('mins', 'maxs') and isinstance(v, ast.Call) and U(v.func) == 'np.array' and len(v.args) == 1 \
                    and isinstance(v.args[0], ast.List) and len(v.args[0].elts) == 3 and not prog:
                inits[t] = [num(e) for e in v.args[0].elts]
                continue
            if t == 'spos' and U(v) == GET:
                prog.append('.getSpos')
                continue
            if t == 'imageflags' and U(v) == 'np.zeros_like(spos, dtype=int)':
                prog.append('.zeroFlags')
                continue
            if t in ('origin', 'avect', 'bvect', 'cvect'):
                grp = [st]
                while k < len(b) and isinstance(b[k], ast.Assign) and U(b[k].targets[0]) in ('origin', 'avect', 'bvect', 'cvect'):
                    grp.append(b[k])
                    k += 1
                if sorted(U(s.targets[0]) for s in grp) != ['avect', 'bvect', 'cvect', 'origin'] or 'origin' in formulas:
                    bad('wrap: the new origin and cell vectors are not four consecutive assignments')
                env = {'self.box.origin': ('origin', 'V'), 'self.box.vects': ('vects', 'M'), 'mins': ('mins', 'V'),
                       'maxs': ('maxs', 'V')}
                for i, nm in enumerate('abc'):
                    env[f'self.box.{nm}vect'] = (f'vects.r{i}', 'V')
                    env[f'mins[{i}]'] = (f'mins.{"xyz"[i]}', 'K')
                    env[f'maxs[{i}]'] = (f'maxs.{"xyz"[i]}', 'K')
                for s in grp:
                    x, ty = tr(s.value, env)
                    if ty != 'V':
                        bad('wrap: ' + U(s))
                    formulas[U(s.targets[0])] = x
                prog.append('.newBoxFromBounds')
                continue
        if isinstance(st, ast.For) and U(st.target) == 'i' and U(st.iter) == 'range(3)' and not st.orelse \
                and len(st.body) == 1 and isinstance(st.body[0], ast.If) and U(st.body[0].test) == 'self.pbc[i]':
            iff = st.body[0]
            if not (len(iff.body) == 1 and isinstance(iff.body[0], ast.Assign)
                    and U(iff.body[0].targets[0]) == 'imageflags[:, i]'
                    and U(iff.body[0].value) == 'np.floor(spos[:, i])'):
                bad('wrap: periodic branch of the loop')
            e = iff.orelse
            if not (len(e) == 4 and U(e[0]) == 'min = spos[:, i].min()' and U(e[1]) == 'max = spos[:, i].max()'):
                bad('wrap: min / max of the non-periodic branch')
            env = {'min': ('mn', 'K'), 'max': ('mx', 'K'), 'mins[i]': ('lo', 'K'), 'maxs[i]': ('hi', 'K')}
            for st2, tgt, padname, other in ((e[2], 'mins[i]', 'padLo', 'lo'), (e[3], 'maxs[i]', 'padHi', 'hi')):
                if not (isinstance(st2, ast.If) and not st2.orelse and len(st2.body) == 1
                        and isinstance(st2.body[0], ast.Assign) and U(st2.body[0].targets[0]) == tgt
                        and isinstance(st2.body[0].value, ast.BinOp) and isinstance(st2.body[0].value.right, ast.Constant)):
                    bad('wrap: padding statement ' + U(st2)[:60])
                val = st2.body[0].value
                inits[padname] = num(val.right)
                cond, _ = tr(st2.test, env)
                newv, _ = tr(val, dict(env, **{U(val.right): (padname, 'K')}))
                formulas[padname] = f'if {cond} then {newv} else {other}'
            prog.append('.loopAxes')
            continue
        if isinstance(st, ast.AugAssign) and U(st) == 'spos -= imageflags':
            prog.append('.subFlags')
            continue
        if isinstance(st, ast.Expr) and U(st.value) == PUT:
            prog.append('.putSpos')
            continue
        kw = kwcall(st, 'self.box_set')
        if kw is not None:
            if kw == 'starred' or [(a, U(v)) for a, v in kw] != [(x, x) for x in ('avect', 'bvect', 'cvect', 'origin')]:
                bad('wrap: keywords of the final box_set')
            prog.append('.setBoxKw')
            continue
        if isinstance(st, ast.If) and not st.orelse and len(st.body) == 1 and U(st.body[0]) == 'return imageflags':
            out['wrapReturnsFlags'] = flag_test(st.test, 'return_imageflags')
            seen_ret = True
            continue
        bad('wrap: statement ' + U(st)[:70])
    for need in ('mins', 'maxs', 'padLo', 'padHi'):
        if need not in inits:
            bad('wrap: ' + need + ' not found')
    for need in ('origin', 'avect', 'bvect', 'cvect', 'padLo', 'padHi'):
        if need not in formulas:
            bad('wrap: formula for ' + need + ' not found')
    if not seen_ret:
        bad('wrap: no conditional return of the image flags')
    out['wrapBody'] = prog

    # System.normalize
    fn = method(S, 'normalize')
    out['normStyleDefault'] = pyval(default_of(fn, 'style'))
    out['normParams'] = [a.arg for a in fn.args.args]
    out['normFlagDefault'] = pyval(default_of(fn, 'return_transform'))
    b = body_of(fn)
    if not (len(b) == 1 and isinstance(b[0], ast.If) and isinstance(b[0].test, ast.Compare) and U(b[0].test.left) == 'style'
            and len(b[0].test.ops) == 1 and isinstance(b[0].test.ops[0], ast.Eq)
            and len(b[0].body) == 1 and U(b[0].body[0]) == 'return lmp_normalize(self, return_transform=return_transform)'
            and len(b[0].orelse) == 1 and isinstance(b[0].orelse[0], ast.Raise)):
        bad('System.normalize: body')
    out['normStyleAccepted'] = pyval(b[0].test.comparators[0])
    exc = b[0].orelse[0].exc
    exc = U(exc.func) if isinstance(exc, ast.Call) else U(exc)
    if exc not in ERR:
        bad('System.normalize: refusal')
    out['normStyleRefusal'] = ERR[exc]
    out['atomsPropPin'] = pin(method(S, 'atoms_prop'))
    # pbc getter / setter
    if [U(x) for x in body_of(method(S, 'pbc'))] != ['return self.__pbc']:
        bad('System.pbc getter')
    PB = {'pbc = np.asarray(value, dtype=bool)': 'asarrayBool', "assert pbc.shape == (3,), 'invalid pbc entry'": 'assertShape3',
          'self.__pbc = pbc': 'store'}
    out['pbcSetterSteps'] = [PB[U(x)] if U(x) in PB else bad('System.pbc setter: ' + U(x)[:60])
                             for x in body_of(method(S, 'pbc', setter=True))]

    # ---------------------------------------------------------------- lammps/normalize.py
    ntree = ast.parse(cm.source('atomman/lammps/normalize.py'))
    fns = [n for n in ntree.body if isinstance(n, ast.FunctionDef) and n.name == 'normalize']
    if len(fns) != 1:
        bad('lammps.normalize not found')
    fn = fns[0]
    if [a.arg for a in fn.args.args] != ['system', 'return_transform']:
        bad('lammps.normalize: parameters')
    out['lmpFlagDefault'] = pyval(default_of(fn, 'return_transform'))
    benv = {'system.box.origin': ('origin', 'V'), 'system.box.vects': ('vects', 'M')}
    for i, nm in enumerate('abc'):
        benv[f'system.box.{nm}vect'] = (f'vects.r{i}', 'V')
    prog = []
    asserts = []
    nform = {}
    done = False
    for st in body_of(fn):
        if done:
            bad('lammps.normalize: statement after the return')
        if asserts and not isinstance(st, (ast.Assert, ast.If)):
            bad('lammps.normalize: statement between the self-checks')
        if isinstance(st, ast.Assign) and len(st.targets) == 1:
            t = U(st.targets[0])
            if t == 'system' and U(st.value) == 'deepcopy(system)':
                prog.append('.copy')
                continue
            if t == 'vects' and U(st.value) == 'deepcopy(system.box.vects)':
                prog.append('.saveVects')
                continue
            if t == 'transformation':
                x, ty = tr(st.value, dict(benv, vects=('saved', 'M'), **{'system.box.vects': ('vects', 'M')}))
                if ty != 'M':
                    bad('lammps.normalize: transformation')
                nform['transform'] = x
                prog.append('.fitTransform')
                continue
            if t == 'test1' and U(st.value) == 'np.linalg.norm(transformation, axis=1)' and prog and prog[-1] == '.fitTransform':
                continue
        if isinstance(st, ast.If) and not asserts and not st.orelse and len(st.body) == 1:
            kw = kwcall(st.body[0], 'system.box_set')
            if kw is None or kw == 'starred' or [a for a, _ in kw] != ['avect', 'bvect', 'cvect', 'origin']:
                bad('lammps.normalize: the reversal of a left-handed cell')
            c, ty = tr(st.test, benv)
            if ty != 'P':
                bad('lammps.normalize: handedness test')
            nform['leftHanded'] = c
            vs = [tr(v, benv) for _, v in kw]
            if [ty for _, ty in vs] != ['V'] * 4:
                bad('lammps.normalize: arguments of the reversal')
            nform['flipVects'] = '⟨' + ', '.join(x for x, _ in vs[:3]) + '⟩'
            nform['flipOrigin'] = vs[3][0]
            prog.append('.flipIfLeft')
            continue
        kw = kwcall(st, 'system.box_set')
        if kw is not None:
            want = [(x, 'system.box.' + x) for x in ('a', 'b', 'c', 'alpha', 'beta', 'gamma')] + [('scale', 'True')]
            if kw == 'starred' or sorted((a, U(v)) for a, v in kw) != sorted(want):
                bad('lammps.normalize: keywords of the rebuild')
            prog.append('.rebuild')
            continue
        if isinstance(st, ast.Expr) and U(st.value) == 'system.wrap()':
            prog.append('.wrapCall')
            continue
        if isinstance(st, ast.Assert):
            asserts.append(st.test)
            continue
        if isinstance(st, ast.If) and asserts and len(st.body) == 1 and len(st.orelse) == 1 \
                and U(st.body[0]) == 'return (system, transformation)' and U(st.orelse[0]) == 'return system':
            out['lmpReturnsTransform'] = flag_test(st.test, 'return_transform')
            done = True
            continue
        bad('lammps.normalize: statement ' + U(st)[:70])
    if not done or 'transform' not in nform or 'leftHanded' not in nform:
        bad('lammps.normalize: incomplete')
    out['normalizeBody'] = prog
    # the four self-checks
    if len(asserts) != 4 or U(asserts[0]) != 'np.allclose(test1, np.array([1.0, 1.0, 1.0]))':
        bad('lammps.normalize: row-norm self-check')
    pairs = []
    atols = set()
    for a in asserts[1:]:
        ok = isinstance(a, ast.Call) and U(a.func) == 'np.isclose' and len(a.args) == 2 and num(a.args[1]) == 0 \
            and [k.arg for k in a.keywords] == ['atol'] and isinstance(a.args[0], ast.Call) \
            and isinstance(a.args[0].func, ast.Attribute) and a.args[0].func.attr == 'dot' and len(a.args[0].args) == 1
        if not ok:
            bad('lammps.normalize: orthogonality self-check ' + U(a))
        l, r = a.args[0].func.value, a.args[0].args[0]
        for x in (l, r):
            if not (isinstance(x, ast.Subscript) and U(x.value) == 'transformation' and isinstance(x.slice, ast.Constant)):
                bad('lammps.normalize: orthogonality self-check ' + U(a))
        pairs.append((l.slice.value, r.slice.value))
        atols.add(repr(num(a.keywords[0].value)))
    if len(atols) != 1:
        bad('lammps.normalize: different tolerances in the orthogonality self-checks')
    out['assertOrthoPairs'] = pairs
    out['assertOrthoAtol'] = rat(atols.pop())           # the decimal reading of the literal

    # ---------------------------------------------------------------- Box.py
    btree = ast.parse(cm.source('atomman/core/Box.py'))
    B = cls_of(btree, 'Box')
    # vects setter
    b = body_of(method(B, 'vects', setter=True))
    steps = []
    tiny = None
    clean = None
    for st in b:
        if U(st) == 'self.__vects[:] = value':
            steps.append('write')
        elif U(st) == 'self.__reciprocal_vects = None':
            steps.append('dropCache')
        elif isinstance(st, ast.Assign) and isinstance(st.targets[0], ast.Subscript) and U(st.targets[0].value) == 'self.__vects' \
                and isinstance(st.targets[0].slice, ast.Call) and U(st.targets[0].slice.func) == 'np.isclose':
            c = st.targets[0].slice
            if not (len(c.args) == 2 and num(c.args[1]) == 0 and [k.arg for k in c.keywords] == ['atol'] and num(st.value) == 0):
                bad('Box.vects setter: clean-up')
            tiny = num(c.keywords[0].value)
            x, ty = tr(c.args[0], {'self.__vects': ('x', 'K'), 'abs(self.__vects).max()': ('m', 'K')})
            clean = f'if absK {x} ≤ tiny then 0 else x'
            steps.append('clean')
        else:
            bad('Box.vects setter: statement ' + U(st)[:60])
    if clean is None:
        bad('Box.vects setter: no clean-up')
    out['vectsSetterSteps'] = steps
    b = body_of(method(B, 'origin', setter=True))
    out['originSetterSteps'] = ['write' if U(st) == 'self.__origin[:] = value' else bad('Box.origin setter: ' + U(st)[:60])
                                for st in b]
    # reciprocal_vects
    b = body_of(method(B, 'reciprocal_vects'))
    if not (len(b) == 2 and isinstance(b[0], ast.If) and U(b[0].test) == 'self.__reciprocal_vects is None' and not b[0].orelse
            and len(b[0].body) == 1 and isinstance(b[0].body[0], ast.Assign)
            and U(b[0].body[0].targets[0]) == 'self.__reciprocal_vects'
            and U(b[1]) == 'return deepcopy(self.__reciprocal_vects)'):
        bad('Box.reciprocal_vects: body')
    recip, ty = tr(b[0].body[0].value, {'self.vects': ('vects', 'M')})
    # position_* (last statement is the return; the ones before only check the shape)
    def last_return(name, env):
        bb = body_of(method(B, name))
        if not isinstance(bb[-1], ast.Return):
            bad(name + ': no final return')
        pre = [U(s) for s in bb[:-1]]
        return tr(bb[-1].value, env)[0], pre
    c2r, pre = last_return('position_cartesian_to_relative',
                           {'value': ('value', 'V'), 'self.origin': ('origin', 'V'), 'self.reciprocal_vects': ('recip', 'M')})
    if pre != ['value = np.asarray(cartpos, dtype=float)',
               "if value.shape[-1] != 3:\n    raise ValueError('Invalid position dimensions')"]:
        bad('position_cartesian_to_relative: preamble')
    r2c, pre = last_return('position_relative_to_cartesian',
                           {'relpos': ('relpos', 'V'), 'self.origin': ('origin', 'V'), 'self.vects': ('vects', 'M')})
    if pre != ['relpos = np.asarray(relpos, dtype=float)',
               "if relpos.shape[-1] != 3:\n    raise ValueError('Invalid position dimensions')"]:
        bad('position_relative_to_cartesian: preamble')
    # avect bvect cvect
    for i, nm in enumerate('abc'):
        bb = body_of(method(B, nm + 'vect'))
        if [U(s) for s in bb] != [f'return self.vects[{i}]']:
            bad(f'Box.{nm}vect')
    # a b c
    lens = []
    venv = {f'self.__vects[{i}, {j}]': (f'vects.r{i}.{"xyz"[j]}', 'K') for i in range(3) for j in range(3)}
    for nm in 'abc':
        bb = body_of(method(B, nm))
        if not (len(bb) == 1 and isinstance(bb[0], ast.Return)):
            bad('Box.' + nm)
        lens.append(tr(bb[0].value, venv)[0])
    angles = []
    for nm in ('alpha', 'beta', 'gamma'):
        bb = body_of(method(B, nm))
        ok = len(bb) == 1 and isinstance(bb[0], ast.Return) and isinstance(bb[0].value, ast.Call) \
            and U(bb[0].value.func) == 'vect_angle' and len(bb[0].value.args) == 2 and not bb[0].value.keywords
        if not ok:
            bad('Box.' + nm)
        ij = []
        for a in bb[0].value.args:
            if not (isinstance(a, ast.Subscript) and U(a.value) == 'self.__vects' and isinstance(a.slice, ast.Constant)):
                bad('Box.' + nm)
            ij.append(a.slice.value)
        angles.append((nm, ij[0], ij[1]))
    # Box.set dispatch
    b = body_of(method(B, 'set'))
    if not (len(b) == 1 and isinstance(b[0], ast.If) and U(b[0].test) == 'len(kwargs) == 0'):
        bad('Box.set: first branch')
    disp = []
    node = b[0]
    while True:
        if len(node.orelse) == 1 and isinstance(node.orelse[0], ast.If):
            node = node.orelse[0]
            t = node.test
            if not (isinstance(t, ast.Compare) and len(t.ops) == 1 and isinstance(t.ops[0], ast.In)
                    and isinstance(t.left, ast.Constant) and U(t.comparators[0]) == 'kwargs'):
                bad('Box.set: test ' + U(t))
            calls = [U(s.value.func) for s in node.body if isinstance(s, ast.Expr) and isinstance(s.value, ast.Call)
                     and U(s.value.func).startswith('self.set_')]
            writes = [U(s.targets[0]) for s in node.body if isinstance(s, ast.Assign) and U(s.targets[0]).startswith('self.')]
            disp.append((t.left.value, (calls + writes)))
        else:
            if not (len(node.orelse) == 1 and isinstance(node.orelse[0], ast.Raise)
                    and U(node.orelse[0].exc).startswith('TypeError')):
                bad('Box.set: final else')
            break
    # set_vectors
    fn = method(B, 'set_vectors')
    b = body_of(fn)
    if U(default_of(fn, 'origin')) != 'None' or [U(s) for s in b] != [
            'if origin is None:\n    origin = [0.0, 0.0, 0.0]', 'self.vects = [avect, bvect, cvect]', 'self.origin = origin']:
        bad('Box.set_vectors: body')
    # set_lengths
    fn = method(B, 'set_lengths')
    b = body_of(fn)
    if not (len(b) == 4 and isinstance(b[0], ast.Assert) and isinstance(b[0].test, ast.BoolOp) and isinstance(b[0].test.op, ast.And)
            and U(b[1]) == 'if origin is None:\n    origin = [0.0, 0.0, 0.0]' and isinstance(b[2], ast.Assign)
            and U(b[2].targets[0]) == 'self.vects' and U(b[3]) == 'self.origin = origin'
            and U(default_of(fn, 'origin')) == 'None'):
        bad('Box.set_lengths: body')
    lenv = {x: (x, 'K') for x in ('lx', 'ly', 'lz', 'xy', 'xz', 'yz')}
    lok = ' && '.join('decide ' + tr(v, lenv)[0] for v in b[0].test.values)
    lvects, ty = tr(b[2].value, lenv)
    if ty != 'M':
        bad('Box.set_lengths: matrix')
    # set_abc
    fn = method(B, 'set_abc')
    b = body_of(fn)
    if [U(default_of(fn, x)) for x in ('alpha', 'beta', 'gamma', 'origin')] != ['90.0', '90.0', '90.0', 'None']:
        bad('Box.set_abc: defaults')
    g = b[0]
    if not (isinstance(g, ast.If) and isinstance(g.test, ast.BoolOp) and isinstance(g.test.op, ast.Or) and not g.orelse
            and len(g.body) == 1 and isinstance(g.body[0], ast.Raise) and U(g.body[0].exc).startswith('ValueError')):
        bad('Box.set_abc: angle guard')
    guard = []
    for t in g.test.values:
        if not (isinstance(t, ast.Compare) and len(t.ops) == 1 and type(t.ops[0]) in CMP and isinstance(t.left, ast.Name)):
            bad('Box.set_abc: angle guard ' + U(t))
        guard.append((t.left.id, CMP[type(t.ops[0])], int(num(t.comparators[0]))))
        if guard[-1][0] not in ('alpha', 'beta', 'gamma') or guard[-1][2] not in (0, 180) or guard[-1][1] not in ('≤', '≥'):
            bad('Box.set_abc: angle guard ' + U(t))
    aenv = {x: (x, 'K') for x in 'abc'}
    for ang, nm in (('alpha', 'ca'), ('beta', 'cb'), ('gamma', 'cg')):
        aenv[f'np.cos({ang} * np.pi / 180)'] = (nm, 'K')
    lets = []
    for st in b[1:-1]:
        if not (isinstance(st, ast.Assign) and isinstance(st.targets[0], ast.Name)):
            bad('Box.set_abc: statement ' + U(st)[:60])
        x, ty = tr(st.value, aenv)
        if ty != 'K':
            bad('Box.set_abc: ' + U(st))
        lets.append((st.targets[0].id, x))
        aenv[st.targets[0].id] = (st.targets[0].id, 'K')
    if [n for n, _ in lets] != ['lx', 'xy', 'xz', 'ly', 'yz', 'lz'] \
            or U(b[-1]) != 'self.set_lengths(lx=lx, ly=ly, lz=lz, xy=xy, xz=xz, yz=yz, origin=origin)':
        bad('Box.set_abc: the six LAMMPS parameters / the final call')
    # set_hi_los (reached through box_set(xlo=...) / Box.set(xlo=...) in histories)
    fn = method(B, 'set_hi_los')
    b = body_of(fn)
    if [U(default_of(fn, x)) for x in ('xy', 'xz', 'yz')] != ['0.0', '0.0', '0.0']:
        bad('Box.set_hi_los: defaults')
    if not (len(b) == 5 and all(isinstance(st, ast.Assign) and len(st.targets) == 1 and isinstance(st.targets[0], ast.Name)
                                for st in b[:4])
            and [st.targets[0].id for st in b[:4]] == ['lx', 'ly', 'lz', 'origin']
            and U(b[4]) == 'self.set_lengths(lx=lx, ly=ly, lz=lz, xy=xy, xz=xz, yz=yz, origin=origin)'):
        bad('Box.set_hi_los: body')
    henv = {x: (x, 'K') for x in ('xlo', 'xhi', 'ylo', 'yhi', 'zlo', 'zhi', 'xy', 'xz', 'yz')}
    hilo = []
    for st, want in zip(b[:4], 'KKKV'):
        x, ty = tr(st.value, henv)
        if ty != want:
            bad('Box.set_hi_los: ' + U(st))
        hilo.append(x)
    # vect_angle
    vtree = ast.parse(cm.source('atomman/tools/vect_angle.py'))
    fns = [n for n in vtree.body if isinstance(n, ast.FunctionDef) and n.name == 'vect_angle']
    if len(fns) != 1:
        bad('vect_angle not found')
    vb = body_of(fns[0])
    want = ['vect1 = np.asarray(vect1)', 'vect2 = np.asarray(vect2)']
    if [U(s) for s in vb[:2]] != want or not all(isinstance(s, ast.Assign) for s in vb[2:5]) \
            or [U(s.targets[0]) for s in vb[2:5]] != ['u_vect1', 'u_vect2', 'cosine']:
        bad('vect_angle: head')
    venv2 = {'vect1': ('vect1', 'V'), 'vect2': ('vect2', 'V')}
    for s in vb[2:4]:
        venv2[U(s.targets[0])] = tr(s.value, venv2)
    vcos, ty = tr(vb[4].value, venv2)
    tail = ast.dump(ast.Module(body=vb[5:], type_ignores=[]), include_attributes=False)
    out['vectAngleTailPin'] = hashlib.sha256(tail.encode()).hexdigest()[:20]

    # ---------------------------------------------------------------- Atoms.__deepcopy__ (the copy normalize works on)
    atree = ast.parse(cm.source('atomman/core/Atoms.py'))
    b = body_of(method(cls_of(atree, 'Atoms'), '__deepcopy__'))
    if not (len(b) == 5 and U(b[0]) == 'd = OrderedDict()' and isinstance(b[3], ast.For) and U(b[3].target) == 'key'
            and U(b[3].iter) == 'self.view' and not b[3].orelse and len(b[3].body) == 1 and isinstance(b[3].body[0], ast.If)):
        bad('Atoms.__deepcopy__: body')
    explicit = []
    copy_src = []       # (key of the copy, key of the view its value is read from)

    def view_key(node):
        """`self.view[<string literal>]` -> the literal; `self.view[key]` -> 'key' (the loop variable); else None."""
        if not (isinstance(node, ast.Subscript) and U(node.value) == 'self.view'):
            return None
        sl = node.slice
        if isinstance(sl, ast.Constant) and isinstance(sl.value, str) and sl.value != 'key':
            return sl.value
        if isinstance(sl, ast.Name) and sl.id == 'key':
            return 'key'
        return None
    for st in b[1:3]:
        ok = isinstance(st, ast.Assign) and len(st.targets) == 1 and isinstance(st.targets[0], ast.Name) \
            and isinstance(st.value, ast.Call) \
            and U(st.value.func) == 'deepcopy' and len(st.value.args) == 1 and not st.value.keywords \
            and view_key(st.value.args[0]) not in (None, 'key')
        if not ok:
            bad('Atoms.__deepcopy__: ' + U(st)[:60])
        explicit.append(st.targets[0].id)
        copy_src.append((st.targets[0].id, view_key(st.value.args[0])))
    iff = b[3].body[0]
    t = iff.test
    if not (isinstance(t, ast.Compare) and U(t.left) == 'key' and len(t.ops) == 1 and isinstance(t.ops[0], ast.NotIn)
            and isinstance(t.comparators[0], (ast.List, ast.Tuple, ast.Set))
            and all(isinstance(e, ast.Constant) and isinstance(e.value, str) for e in t.comparators[0].elts)
            and not iff.orelse and len(iff.body) == 1 and isinstance(iff.body[0], ast.Assign)
            and len(iff.body[0].targets) == 1 and U(iff.body[0].targets[0]) == 'd[key]'
            and isinstance(iff.body[0].value, ast.Call) and U(iff.body[0].value.func) == 'deepcopy'
            and len(iff.body[0].value.args) == 1 and not iff.body[0].value.keywords
            and view_key(iff.body[0].value.args[0]) is not None):
        bad('Atoms.__deepcopy__: the loop is not `if key not in [<literal names>]: d[key] = deepcopy(self.view[<key>])`')
    loop_src = view_key(iff.body[0].value.args[0])
    reserved = [e.value for e in t.comparators[0].elts]
    if U(b[4]) != 'return Atoms(' + ', '.join(f'{x}={x}' for x in explicit) + ', **d)':
        bad('Atoms.__deepcopy__: ' + U(b[4])[:60])

    # ---------------------------------------------------------------- emit
    def lst(xs):
        return '[' + ', '.join(xs) + ']'

    def strs(xs):
        return lst('"%s"' % x for x in xs)
    abc_defs = []
    for want_name, lean_name in (('lx', 'abcLx'), ('ly', 'abcLy'), ('lz', 'abcLz'), ('xy', 'abcXy'), ('xz', 'abcXz'), ('yz', 'abcYz')):
        lines = []
        for n, x in lets:
            lines.append(f'  let {n} := {x}')
        abc_defs.append(f'def {lean_name} (sqrt : K → K) (a b c ca cb cg : K) : K :=\n' + '\n'.join(lines) + f'\n  {want_name}')
    L = []
    A = L.append
    A('/- GENERATED by harness/props/c05.py (translate) from atomman/core/System.py (wrap, box_set, normalize, atoms_prop),')
    A('   atomman/lammps/normalize.py, atomman/core/Box.py (setters, reciprocal_vects, position_*, set, set_vectors, set_lengths,')
    A('   set_abc, a b c alpha beta gamma), atomman/tools/vect_angle.py and atomman/core/Atoms.py (__deepcopy__) — do not edit.')
    A('   `Proofs/C05_Source.lean` proves each definition equal to the hand-written model (theorems `gen_*_eq_model`). -/')
    A('import Atomman.C05_Src')
    A('')
    A('set_option linter.unusedVariables false')
    A('')
    A('namespace Atomman.Generated.WrapSource')
    A('open Atomman Atomman.C05')
    A('')
    A('/-! ### signatures, defaults, refusals -/')
    A(f'/-- `System.wrap(self, return_imageflags=…)` -/\ndef wrapFlagDefault : PyVal := {out["wrapFlagDefault"]}')
    A(f'/-- `wrap`: `if <test>: return imageflags` -/\ndef wrapReturnsFlags (v : PyVal) : Bool := {out["wrapReturnsFlags"]}')
    A(f"/-- `box_set`: `scale = kwargs.pop('scale', …)` -/\ndef boxSetScaleDefault : PyVal := {out['boxSetScaleDefault']}")
    A('/-- `box_set`: `if not isinstance(scale, bool): raise …` -/\ndef boxSetAccepts (v : PyVal) : Bool := v.isBool')
    A(f'def boxSetRefusal : Err := {out["boxSetRefusal"]}')
    A(f'/-- `box_set`: the test that selects the branch holding the scaled positions -/\ndef boxSetScaledBranch (v : PyVal) : Bool := {out["boxSetScaledBranch"]}')
    A(f'/-- `System.normalize(self, style=…, return_transform=…)` -/\ndef normStyleDefault : PyVal := {out["normStyleDefault"]}')
    A(f'def normFlagDefault : PyVal := {out["normFlagDefault"]}')
    A(f'/-- `if style == …: return lmp_normalize(self, return_transform=return_transform) else: raise …` -/\ndef normStyleAccepted : PyVal := {out["normStyleAccepted"]}')
    A(f'def normStyleRefusal : Err := {out["normStyleRefusal"]}')
    A(f'/-- `atomman.lammps.normalize(system, return_transform=…)` -/\ndef lmpFlagDefault : PyVal := {out["lmpFlagDefault"]}')
    A(f'/-- `if <test>: return system, transformation else: return system` -/\ndef lmpReturnsTransform (v : PyVal) : Bool := {out["lmpReturnsTransform"]}')
    A('/-- positional order of the parameters of `System.wrap`, `System.normalize`, `lammps.normalize` -/')
    A(f'def wrapParams : List String := {strs(out["wrapParams"])}')
    A(f'def normParams : List String := {strs(out["normParams"])}')
    A('def lmpParams : List String := ["system", "return_transform"]')
    A('')
    A('/-! ### the bodies as statement lists (order as in the source) -/')
    A(f'def boxSetScaledBody : List Stmt := {lst(out["boxSetScaledBody"])}')
    A(f'def boxSetPlainBody : List Stmt := {lst(out["boxSetPlainBody"])}')
    A(f'def wrapBody : List Stmt := {lst(out["wrapBody"])}')
    A(f'def normalizeBody : List Stmt := {lst(out["normalizeBody"])}')
    A('')
    A('/-! ### literals -/')
    A(f'/-- `mins = np.array([…])`, `maxs = np.array([…])` of `wrap` -/')
    A(f'def minsInit : List Rat := {lst(rat(x) for x in inits["mins"])}')
    A(f'def maxsInit : List Rat := {lst(rat(x) for x in inits["maxs"])}')
    A(f'/-- the padding literals of `wrap` (the doubles, exactly) -/')
    A(f'def padLoLit : Rat := {rat(inits["padLo"])}')
    A(f'def padHiLit : Rat := {rat(inits["padHi"])}')
    A(f'/-- `atol` of the clean-up in the `Box.vects` setter (the double, exactly) -/')
    A(f'def tinyLit : Rat := {rat(tiny)}')
    A(f'/-- the three orthogonality self-checks of `lammps.normalize`: rows `(i, j)`, `np.isclose(…, 0.0, atol=…)` (decimal reading) -/')
    A(f'def assertOrthoPairs : List (Nat × Nat) := {lst("(%d, %d)" % p for p in out["assertOrthoPairs"])}')
    A(f'def assertOrthoAtol : Rat := {out["assertOrthoAtol"]}')
    A('/-- `np.allclose(test1, np.array([1., 1., 1.]))` with numpy\'s default tolerances (no keywords in the source) -/')
    A('def assertNormKeywords : List String := []')
    A('')
    A('/-! ### statement pins (normalised AST, sha256) of code that is an option dispatcher, not a formula -/')
    A(f'/-- `System.atoms_prop` (whole body + signature) -/\ndef atomsPropPin : String := "{out["atomsPropPin"]}"')
    A(f'/-- `vect_angle` after the cosine: clamp to [-1, 1], `180 * np.arccos(cosine) / np.pi` for the default unit -/\ndef vectAngleTailPin : String := "{out["vectAngleTailPin"]}"')
    A('')
    A('/-! ### `Box`: write protocol and dispatch -/')
    A(f'def vectsSetterSteps : List String := {strs(out["vectsSetterSteps"])}')
    A(f'def originSetterSteps : List String := {strs(out["originSetterSteps"])}')
    A('/-- `System.pbc`: the getter hands out the stored array itself; the setter converts, checks the shape, stores -/')
    A('def pbcGetterSteps : List String := ["returnInternal"]')
    A(f'def pbcSetterSteps : List String := {strs(out["pbcSetterSteps"])}')
    A(f'/-- `Box.set`: keyword tested by each `elif`, with the `set_*` it calls / the setters it assigns -/')
    A('def boxSetDispatch : List (String × List String) := ' + lst('("%s", %s)' % (k, strs(v)) for k, v in disp))
    A(f'/-- `alpha beta gamma` are `vect_angle(self.__vects[i], self.__vects[j])` -/')
    A('def angleGetters : List (String × Nat × Nat) := ' + lst('("%s", %d, %d)' % a for a in angles))
    A(f'/-- the disjuncts of the refusal at the head of `set_abc` -/')
    A('def abcGuard : List (String × String × Nat) := ' + lst('("%s", "%s", %d)' % g for g in guard))
    A('/-- `Atoms.__deepcopy__`: keys copied explicitly and handed over by keyword; names the loop filter excludes (exact match) -/')
    A(f'def atomsCopyExplicit : List String := {strs(explicit)}')
    A(f'def atomsCopyReserved : List String := {strs(reserved)}')
    A('/-- `<k> = deepcopy(self.view[<src>])` for the explicitly copied keys: `(k, src)`; `d[key] = deepcopy(self.view[<src>])` of the loop')
    A('    (`"key"` = the loop variable, i.e. the entry the loop is at) -/')
    A('def atomsCopySource : List (String × String) := ' + lst('("%s", "%s")' % ks for ks in copy_src))
    A(f'def atomsCopyLoopSource : String := "{loop_src}"')
    A('')
    A('variable {K : Type}')
    A('section formulas')
    A('variable [Add K] [Sub K] [Mul K] [Div K] [Neg K] [Zero K] [One K] [LT K] [LE K] [DecidableLT K] [DecidableLE K]')
    A('')
    A('/-- `wrap`, non-periodic branch: `if min <= mins[i]: mins[i] = min - 0.001` (`lo` = `mins[i]` before, `mn` = `min`) -/')
    A(f'def axisLo (padLo lo mn : K) : K := {formulas["padLo"]}')
    A('/-- `if max >= maxs[i]: maxs[i] = max + 0.001` -/')
    A(f'def axisHi (padHi hi mx : K) : K := {formulas["padHi"]}')
    A('/-- `wrap`, image flag of one coordinate: `np.floor` in the `if self.pbc[i]` branch, the initial 0 otherwise -/')
    A('def axisFlag (fl : K → Int) (periodic : Bool) (s : K) : Int := if periodic then fl s else 0')
    A('/-- `wrap`: the box handed to the final `box_set` -/')
    A(f'def newOrigin (vects : M3 K) (origin mins maxs : V3 K) : V3 K := {formulas["origin"]}')
    for i, nm in enumerate('abc'):
        A(f'def new{nm.upper()}vect (vects : M3 K) (origin mins maxs : V3 K) : V3 K := {formulas[nm + "vect"]}')
    A('/-- `lammps.normalize`: the handedness test and the arguments of the reversal -/')
    A(f'def leftHanded (vects : M3 K) : Bool := decide {nform["leftHanded"]}')
    A(f'def flipVects (vects : M3 K) (origin : V3 K) : M3 K := {nform["flipVects"]}')
    A(f'def flipOrigin (vects : M3 K) (origin : V3 K) : V3 K := {nform["flipOrigin"]}')
    A('/-- `transformation` (`lstsq` on a square non-singular system read as the exact solve); `saved` = the `vects` kept before the rebuild -/')
    A(f'def transform (saved vects : M3 K) : M3 K := {nform["transform"]}')
    A('/-- one entry of the clean-up of the `Box.vects` setter; `m` = `abs(self.__vects).max()` -/')
    A(f'def cleanEntry (tiny m x : K) : K := {clean}')
    A('/-- what the `reciprocal_vects` getter computes when the cache is empty -/')
    A(f'def recipFill (vects : M3 K) : M3 K := {recip}')
    A('/-- `position_cartesian_to_relative` / `position_relative_to_cartesian` (one point) -/')
    A(f'def c2r (origin : V3 K) (recip : M3 K) (value : V3 K) : V3 K := {c2r}')
    A(f'def r2c (vects : M3 K) (origin : V3 K) (relpos : V3 K) : V3 K := {r2c}')
    A('/-- `Box.a`, `Box.b`, `Box.c` -/')
    for nm, x in zip('ABC', lens):
        A(f'def len{nm} (sqrt : K → K) (vects : M3 K) : K := {x}')
    A('/-- the cosine `vect_angle` hands to `np.arccos` -/')
    A(f'def vectAngleCos (sqrt : K → K) (vect1 vect2 : V3 K) : K := {vcos}')
    A('/-- `set_lengths`: the assertion and the matrix handed to the `vects` setter -/')
    A(f'def lengthsOk (lx ly lz : K) : Bool := {lok}')
    A(f'def lengthsVects (lx ly lz xy xz yz : K) : M3 K := {lvects}')
    A('/-- `set_hi_los`: lengths and origin handed to `set_lengths` (tilt factors handed on as they are; defaults 0.0) -/')
    for nm, x in zip(('Lx', 'Ly', 'Lz'), hilo):
        A(f'def hiLo{nm} (xlo xhi ylo yhi zlo zhi : K) : K := {x}')
    A(f'def hiLoOrigin (xlo xhi ylo yhi zlo zhi : K) : V3 K := {hilo[3]}')
    A('/-- `set_abc`: the six LAMMPS parameters; `ca cb cg` = `np.cos(angle * np.pi / 180)` -/')
    for d in abc_defs:
        A(d)
    A('')
    A('end formulas')
    A('')
    A('section guard')
    A('variable [Zero K] [OfNat K 180] [LE K] [DecidableLE K]')
    A('/-- the refusal at the head of `set_abc` (`true` = `ValueError`) on the three angles in degrees -/')
    A('def anglesRejected (alpha beta gamma : K) : Bool :=')
    A('  ' + ' || '.join('decide (%s %s %d)' % g for g in guard))
    A('end guard')
    A('')
    A('end Atomman.Generated.WrapSource')
    return {'WrapSource': '\n'.join(L) + '\n'}


MANIFEST = {
    'text': 'Lean model of System.wrap / atomman.lammps.normalize (floor, padding, padded box, handedness flip, '
            'rebuild from lengths and cosines, transform) with theorems over every ordered field.',
    'note': 'see docs/C05.md',
    'technique': 'Lean 4 theorems over a hand-written model + source reader (ast) regenerating statement lists, formulas, '
                 'literals, defaults and refusals with proved gen_*_eq_model ties + differential correspondence + exact '
                 'clause oracle',
}
