"""C05 — System.wrap and System.normalize / atomman.lammps.normalize.

Tie: correspondence.  The hand-written Lean model (lean/Atomman/C05.lean: `wrap`, `normalize?`) is run
by the compiled driver on exactly the rational inputs the real code saw; image flags are compared
exactly, positions/box exactly in the grid regime and within a derived bound elsewhere.
Search: the clauses of the property evaluated on the real code with fractions.Fraction.
"""
from __future__ import annotations

import math
import random
from fractions import Fraction as F

from .. import common as cm

PROP = 'C05'
THEOREMS = [
    'C05.wrap_reconstruct', 'C05.wrap_inside', 'C05.wrap_periodic_axes_fixed', 'C05.wrap_idem',
    'C05.flip_same_points', 'C05.abcBox_spec', 'C05.normalize_lammps_normal', 'C05.normalize_gram',
    'C05.gram_eq_rotation', 'C05.normalize_proper_rotation', 'C05.normalize_inside',
    'C05.dist_depends_on_gram', 'C05.normalize_rel_mod_one', 'C05.normalize_image_distances',
    'C05.normalize_distance_spectrum', 'C05.sqrt_args_closed_form', 'C05.isFloor_ratFloor', 'C05.sqrtOK_real',
]
PARTIAL = {
    'input_left_as_it_was': 'a heap fact (aliasing/mutation), true by construction of the functional model and '
                            'therefore not a theorem; checked on the implementation in every run by a bitwise '
                            'snapshot of the input system and numpy.shares_memory on every per-atom array and the box',
    'lengths_and_angles': 'stated as equality of the Gram matrix (squared lengths, dot products) and of the '
                          'determinant; lengths and angles are sqrt/arccos of these (not formed in the model)',
}
RULE = ('wrap: cells = products of dyadic shears/permutations/diagonal powers of two whose numpy inverse is '
        'exact (grid regime: relative coordinates multiples of 1/8 incl. exactly on faces, up to 2^10 cells '
        'outside; flags, positions and unpadded boxes compared exactly) and rotated/left-handed/strongly tilted '
        'float cells (tolerance regime: atoms up to 1e6 cells outside, atoms within 1e-13 of faces; a flag is '
        'exempt only where the model puts the scaled coordinate within 1e-9(1+|s|) of an integer); all 8 pbc '
        'settings, non-zero origins, extra per-atom properties. normalize: the same cell families, fully '
        'periodic plus some partially periodic systems. distinct = distinct canonical driver line; '
        'non-trivial = at least one atom outside the cell or a left-handed/non-normal cell')
ASSUMPTIONS = [
    'numpy.floor followed by the cast to int is the mathematical floor (parameter `fl` with '
    '(fl s : K) <= s < fl s + 1)',
    'x**0.5 is a positive square root of its argument (parameter `sqrt`, hypothesis SqrtAt: s*s = x and 0 < s '
    'at the five arguments a.a, b.b, c.c, b^2-xy^2, c^2-xz^2-yz^2)',
    'cos(arccos(x)) = x for the cell-angle cosines (the model keeps cosines, never forms angles); the clamp of '
    'vect_angle to [-1,1] is inactive in exact arithmetic (Cauchy-Schwarz)',
    'numpy.linalg.inv is the exact inverse; numpy.linalg.lstsq on a square non-singular system is the exact solve',
    'IEEE double rounding of the implementation is bounded by 1e-9(1+|s|) relative to the cell size on the '
    'generated inputs (bounded condition number); the 1e-9-relative "zero out near zero terms" clean-up of '
    'the Box.vects setter is below that bound and not modelled',
    'the cell is non-singular (det vects != 0)',
]
TRUSTED = ['numpy (inner, dot, floor, min/max, inv, lstsq) inside the implementation run',
           'rational square root of the driver (Nat.sqrt, error < 2^-160)']

TOL = 1e-9


# ----------------------------------------------------------------------------------------
# exact 3x3 helpers
# ----------------------------------------------------------------------------------------
def _fm(V):
    return [[F(float(x)) for x in r] for r in V]


def _fv(v):
    return [F(float(x)) for x in v]


def _det(m):
    return (m[0][0] * (m[1][1] * m[2][2] - m[1][2] * m[2][1])
            - m[0][1] * (m[1][0] * m[2][2] - m[1][2] * m[2][0])
            + m[0][2] * (m[1][0] * m[2][1] - m[1][1] * m[2][0]))


def _inv(m):
    d = _det(m)
    cof = [[None] * 3 for _ in range(3)]
    for i in range(3):
        for j in range(3):
            mm = [[m[a][b] for b in range(3) if b != j] for a in range(3) if a != i]
            cof[i][j] = (-1) ** (i + j) * (mm[0][0] * mm[1][1] - mm[0][1] * mm[1][0])
    return [[cof[j][i] / d for j in range(3)] for i in range(3)]


def _vm(s, M):
    """row vector times matrix."""
    return [s[0] * M[0][j] + s[1] * M[1][j] + s[2] * M[2][j] for j in range(3)]


def _mm(A, B):
    return [_vm(r, B) for r in A]


def _tr(A):
    return [[A[j][i] for j in range(3)] for i in range(3)]


def _gram(V):
    return _mm(V, _tr(V))


def _rel(p, V, Vinv, o):
    return _vm([p[k] - o[k] for k in range(3)], Vinv)


def _nearint(x: F):
    return math.floor(x + F(1, 2))


# ----------------------------------------------------------------------------------------
# building systems
# ----------------------------------------------------------------------------------------
def _props(n):
    import numpy as np
    return {'atype': np.array([1 + 2 * ((i * 7) % 2) for i in range(n)]),       # types 1 and 3: a gap
            'charge': np.array([0.25 * i - 1.0 for i in range(n)]),
            'spin': np.array([[i + 0.5, -i, 2.0 * i] for i in range(n)]),
            'tag': np.array([100 + 3 * i for i in range(n)], dtype=int)}


def _build(case):
    import numpy as np
    import atomman as am
    pos = np.array(case['pos'], dtype=float).reshape(-1, 3)
    pr = _props(len(pos))
    atoms = am.Atoms(atype=pr['atype'], pos=pos.copy(), charge=pr['charge'].copy(), spin=pr['spin'].copy(),
                     tag=pr['tag'].copy())
    box = am.Box(vects=np.array(case['vects'], dtype=float), origin=np.array(case['origin'], dtype=float))
    return am.System(atoms=atoms, box=box, pbc=tuple(bool(p) for p in case['pbc']), symbols=('Al', None, 'Cu'))


def _raw_vects(box):
    return getattr(box, '_Box__vects', None)


def _snap(system):
    d = {k: system.atoms.view[k].copy() for k in system.atoms.view.keys()}
    return {'vects': system.box.vects.copy(), 'origin': system.box.origin.copy(), 'pbc': tuple(system.pbc),
            'symbols': tuple(system.symbols), 'natoms': system.natoms, 'props': d}


def _same_snap(a, b, skip=()):
    import numpy as np
    bad = []
    for k in ('vects', 'origin'):
        if k not in skip and not np.array_equal(a[k], b[k]):
            bad.append(k)
    if a['pbc'] != b['pbc']:
        bad.append('pbc')
    if a['symbols'] != b['symbols']:
        bad.append('symbols')
    if a['natoms'] != b['natoms']:
        bad.append('natoms')
    if set(a['props']) != set(b['props']):
        bad.append('property keys')
    for k in a['props']:
        if k in skip or k not in b['props']:
            continue
        if a['props'][k].dtype != b['props'][k].dtype or not np.array_equal(a['props'][k], b['props'][k]):
            bad.append('property ' + k)
    return bad


def _canon_case(case):
    """pass the cell through Box (the setter's clean-up is part of construction, not of wrap)."""
    import numpy as np
    import atomman as am
    box = am.Box(vects=np.array(case['vects'], dtype=float), origin=np.array(case['origin'], dtype=float))
    case['vects'] = box.vects.tolist()
    case['origin'] = box.origin.tolist()
    case['pos'] = [[float(x) for x in p] for p in case['pos']]
    case['pbc'] = [bool(p) for p in case['pbc']]
    return case


def _line(op, case):
    flat = [x for p in case['pos'] for x in p]
    return (f"{op} {' '.join('1' if p else '0' for p in case['pbc'])} {len(case['pos'])} "
            + cm.frs([x for r in case['vects'] for x in r]) + ' ' + cm.frs(case['origin']) + ' ' + cm.frs(flat))


# ----------------------------------------------------------------------------------------
# generators
# ----------------------------------------------------------------------------------------
def _grid_cell(rng):
    """dyadic cell with power-of-two determinant whose numpy inverse is exact (checked)."""
    import numpy as np
    import atomman as am
    for _ in range(200):
        V = np.diag([rng.choice([1, 2, 4, 0.5, 8]) * rng.choice([1, 1, 1, -1]) for _ in range(3)]).astype(float)
        for _ in range(rng.randint(0, 4)):
            i, j = rng.sample(range(3), 2)
            S = np.eye(3)
            S[i, j] = rng.choice([1, -1, 2, -2, 0.5, -0.5, 3, -3, 0.25, 1.5])
            V = S @ V if rng.random() < 0.5 else V @ S
        if rng.random() < 0.3:
            V = V[rng.sample(range(3), 3)]
        if np.abs(V).max() > 64:
            continue
        Vf = _fm(V)
        R = am.Box(vects=V).reciprocal_vects
        want = _tr(_inv(Vf))
        if all(F(float(R[i][j])) == want[i][j] for i in range(3) for j in range(3)):
            return V
    raise cm.InfraError('no exactly invertible grid cell found')


def _grid_case(rng, pbc, n=None):
    V = _grid_cell(rng)
    o = [0.0, 0.0, 0.0] if rng.random() < 0.3 else [cm.dyadic(rng, -8, 8, 2) for _ in range(3)]
    n = n or rng.randint(1, 8)
    Vf, of = _fm(V), _fv(o)
    pos = []
    for _ in range(n):
        s = []
        for _k in range(3):
            r = rng.random()
            if r < 0.35:
                s.append(F(rng.randint(-24, 32), 8))                       # multiples of 1/8 in [-3, 4]
            elif r < 0.65:
                s.append(F(rng.choice([0, 1, 0, 1, -1, 2, -2, 3])))         # exactly on a face / lattice plane
            elif r < 0.85:
                s.append(F(rng.randint(1, 7), 8))                          # inside
            else:
                s.append(rng.choice([-1, 1]) * F(2 ** rng.randint(3, 10)) + F(rng.randint(0, 8), 8))  # far out
        p = [a + b for a, b in zip(_vm(s, Vf), of)]
        pf = [float(x) for x in p]
        assert all(F(a) == b for a, b in zip(pf, p))
        pos.append(pf)
    return _canon_case({'vects': V.tolist(), 'origin': o, 'pbc': list(pbc), 'pos': pos, 'regime': 'grid'})


def _rotation(rng):
    import numpy as np
    q = np.array([rng.gauss(0, 1) for _ in range(4)])
    q /= np.linalg.norm(q)
    w, x, y, z = q
    return np.array([[1 - 2 * (y * y + z * z), 2 * (x * y - z * w), 2 * (x * z + y * w)],
                     [2 * (x * y + z * w), 1 - 2 * (x * x + z * z), 2 * (y * z - x * w)],
                     [2 * (x * z - y * w), 2 * (y * z + x * w), 1 - 2 * (x * x + y * y)]])


def _float_cell(rng):
    """triclinic cell from a,b,c and a realisable angle triple; rotated / left-handed / strongly tilted."""
    import numpy as np
    kind = rng.choice(['normal', 'rotated', 'rotated', 'left', 'left', 'tilted', 'tilted-left', 'ortho'])
    while True:
        a, b, c = (math.exp(rng.uniform(0.0, 2.5)) for _ in range(3))
        if kind == 'ortho':
            al = be = ga = 90.0
        else:
            al, be, ga = (rng.uniform(50, 130) for _ in range(3))
        ca, cb, cg = (math.cos(math.radians(t)) for t in (al, be, ga))
        if 1 - ca * ca - cb * cb - cg * cg + 2 * ca * cb * cg > 0.1:
            break
    lx = a
    xy = b * cg
    xz = c * cb
    ly = math.sqrt(b * b - xy * xy)
    yz = (b * c * ca - xy * xz) / ly
    lz = math.sqrt(c * c - xz * xz - yz * yz)
    V = np.array([[lx, 0, 0], [xy, ly, 0], [xz, yz, lz]])
    if kind.startswith('tilted'):
        V[1] += rng.choice([-2, -1, 1, 2]) * V[0]
        V[2] += rng.choice([-2, -1, 1, 2]) * V[0] + rng.choice([-1, 0, 1]) * V[1]
    if kind != 'normal' and kind != 'ortho':
        V = V @ _rotation(rng).T
    if kind in ('left', 'tilted-left'):
        w = rng.randint(0, 2)
        if w == 0:
            V[rng.randint(0, 2)] *= -1
        elif w == 1:
            i, j = rng.sample(range(3), 2)
            V[[i, j]] = V[[j, i]]
        else:
            V = -V
    return V, kind


def _float_case(rng, pbc, n=None, far=True, faces=True):
    import numpy as np
    V, kind = _float_cell(rng)
    o = np.zeros(3) if rng.random() < 0.25 else np.array([rng.uniform(-10, 10) for _ in range(3)])
    n = n or rng.randint(1, 10)
    S = []
    for _ in range(n):
        s = []
        for k in range(3):
            r = rng.random()
            if r < 0.5:
                s.append(rng.uniform(-2, 3))
            elif r < 0.7:
                s.append(rng.uniform(0.05, 0.95))
            elif r < 0.85 and faces:
                s.append(rng.choice([0, 1, -1, 2]) + rng.choice([0, 1e-13, -1e-13, 3e-16]))
            elif far:
                # far outside: unrestricted along periodic directions, moderate along padded ones
                s.append(rng.choice([-1, 1]) * 10 ** rng.uniform(1, 6 if pbc[k] else 3))
            else:
                s.append(rng.uniform(-1, 2))
        S.append(s)
    pos = np.array(S) @ V + o
    return _canon_case({'vects': V.tolist(), 'origin': o.tolist(), 'pbc': list(pbc), 'pos': pos.tolist(),
                        'regime': 'float', 'kind': kind})


PBCS = [(bool(i & 4), bool(i & 2), bool(i & 1)) for i in range(8)]


# ----------------------------------------------------------------------------------------
# correspondence
# ----------------------------------------------------------------------------------------
def _sections(out):
    return [sec.split() for sec in out.split(' | ')]


def _chunks3(xs):
    return [xs[i:i + 3] for i in range(0, len(xs), 3)]


def _normV(V):
    return max(sum(abs(float(x)) for x in r) for r in V) * 3


def _impl_err(e):
    if isinstance(e, AssertionError):
        return 'err:assert'
    if isinstance(e, (ValueError,)) or type(e).__name__ == 'LinAlgError':
        return 'err:value'
    return 'err:' + type(e).__name__


def _nontrivial(case, spos):
    return any(not (0 <= x < 1) for s in spos for x in s) or case.get('kind') not in (None, 'normal', 'ortho')


def _compare_positions(case, key, ctx, impl_pos, model_pos, spos, exempt, latt, grid):
    """atoms with an exempt axis may differ by one lattice vector along that axis; others must agree."""
    nV = _normV(case['vects'])
    for i, (ip, mp) in enumerate(zip(impl_pos, model_pos)):
        tol = TOL * (1 + max(abs(float(x)) for x in spos[i])) * nV + TOL * max(abs(x) for x in case['origin'])
        if not exempt[i]:
            ok = all(F(float(a)) == b for a, b in zip(ip, mp)) if grid else \
                all(abs(float(a) - float(b)) <= tol for a, b in zip(ip, mp))
        else:
            d = [F(float(a)) - b for a, b in zip(ip, mp)]
            c = _vm(d, latt)            # difference in units of the (new) cell vectors
            ok = all((abs(float(c[k] - _nearint(c[k]))) <= 1e-6 and abs(_nearint(c[k])) <= (1 if k in exempt[i] else 0))
                     for k in range(3))
        if not ok:
            ctx.disagree(key + ':positions', f'{key}: atom {i} at {list(map(float, ip))}, model {list(map(float, mp))}',
                         {'op': key, 'case': case, 'atom': i})
            return False
    return True


def _corr_wrap(ctx, cases):
    import numpy as np
    outs = ctx.driver.ask_many([_line('wrap', c) for c in cases])
    for case, out in zip(cases, outs):
        grid = case['regime'] == 'grid'
        system = _build(case)
        before = _snap(system)
        try:
            flags = system.wrap(return_imageflags=True)
            impl_err = None
        except Exception as e:  # noqa
            impl_err = _impl_err(e)
        if out.startswith('err:') or impl_err:
            ctx.stats.case('wrap:error', _line('wrap', case), nontrivial=False)
            if out != impl_err:
                ctx.disagree('wrap:error', f'wrap: implementation {impl_err or "succeeds"}, model {out if out.startswith("err:") else "succeeds"}',
                             {'op': 'wrap', 'case': case})
            continue
        sec = _sections(out)
        mbox = [F(t) for t in sec[0]]
        mpos = _chunks3([F(t) for t in sec[1]])
        mflags = _chunks3([int(t) for t in sec[2]])
        spos = _chunks3([F(t) for t in sec[3]])
        ctx.stats.case('wrap:' + case['regime'] + ':' + ''.join('p' if p else 'f' for p in case['pbc']),
                       _line('wrap', case), nontrivial=_nontrivial(case, spos),
                       sample={'op': 'wrap', 'case': case, 'model_flags': mflags})
        pbc = case['pbc']
        # exemptions (tolerance regime only): scaled coordinate within the bound of an integer
        exempt = []
        for s in spos:
            ex = set()
            if not grid:
                for k in range(3):
                    if pbc[k] and abs(float(s[k] - _nearint(s[k]))) <= TOL * (1 + abs(float(s[k]))):
                        ex.add(k)
            exempt.append(ex)
        box_exempt = False
        if not grid:
            for k in range(3):
                if not pbc[k]:
                    mn = min(s[k] for s in spos)
                    mx = max(s[k] for s in spos)
                    if abs(float(mn)) <= TOL * (1 + abs(float(mn))) or abs(float(mx) - 1) <= TOL * (1 + abs(float(mx))):
                        box_exempt = True
        ctx.extra['exempt_flags'] = ctx.extra.get('exempt_flags', 0) + sum(len(e) for e in exempt)
        ctx.extra['exempt_boxes'] = ctx.extra.get('exempt_boxes', 0) + int(box_exempt)
        key = 'wrap'
        replay = {'op': 'wrap', 'case': case}
        # flags: exact
        fl = np.asarray(flags)
        if fl.shape != (len(spos), 3) or not np.issubdtype(fl.dtype, np.integer):
            ctx.disagree('wrap:flags-shape', f'image flags have shape {fl.shape} dtype {fl.dtype}', replay)
            continue
        bad = [(i, k) for i in range(len(spos)) for k in range(3)
               if int(fl[i, k]) != mflags[i][k] and not (k in exempt[i] and abs(int(fl[i, k]) - mflags[i][k]) == 1)]
        if bad:
            i, k = bad[0]
            ctx.disagree('wrap:flags', f'wrap: image flag of atom {i} axis {k} (pbc {pbc}) is {int(fl[i, k])}, model '
                         f'{mflags[i][k]} (scaled coordinate {float(spos[i][k])!r})', replay)
            continue
        # positions (rebuilt with the OLD box): exempt atoms may differ by one old cell vector
        oldinv = _inv(_fm(case['vects']))
        if not _compare_positions(case, 'wrap', ctx, system.atoms.view['pos'].tolist(), mpos, spos, exempt, oldinv, grid):
            continue
        # box
        if not box_exempt:
            ibox = list(system.box.vects.ravel()) + list(system.box.origin)
            padded = any((not pbc[k]) and (min(s[k] for s in spos) <= 0 or max(s[k] for s in spos) >= 1) for k in range(3))
            if grid and not padded:
                okb = all(F(float(a)) == b for a, b in zip(ibox, mbox))
            else:
                sc = max(abs(float(b)) for b in mbox)
                okb = all(abs(float(a) - float(b)) <= TOL * sc for a, b in zip(ibox, mbox))
            if not okb:
                ctx.disagree('wrap:box', f'wrap (pbc {pbc}): new box {[float(x) for x in ibox]}, model '
                             f'{[float(x) for x in mbox]}', replay)
                continue
        after = _snap(system)
        bad = _same_snap(before, after, skip=('vects', 'origin', 'pos'))
        if bad:
            ctx.disagree('wrap:carried', f'wrap changed {bad}', replay)


def _corr_norm(ctx, cases):
    import numpy as np
    import atomman as am
    outs = ctx.driver.ask_many([_line('norm', c) for c in cases])
    for case, out in zip(cases, outs):
        system = _build(case)
        before = _snap(system)
        replay = {'op': 'norm', 'case': case}
        try:
            new, T = system.normalize(return_transform=True)
            impl_err = None
        except Exception as e:  # noqa
            impl_err = _impl_err(e)
        # "the input system is left as it was": heap fact, checked on the implementation
        bad = _same_snap(before, _snap(system))
        if bad:
            ctx.violate('normalize:input-modified', f'normalize changed its input: {bad}', replay)
            continue
        if out.startswith('err:') or impl_err:
            ctx.stats.case('norm:error', _line('norm', case), nontrivial=False)
            # partially periodic systems whose padding decision is within the bound of a face are exempt
            if out != impl_err and not _norm_raise_exempt(case):
                ctx.disagree('norm:error', f'normalize (pbc {case["pbc"]}): implementation {impl_err or "succeeds"}, '
                             f'model {out if out.startswith("err:") else "succeeds"}', replay)
            continue
        shared = [k for k in new.atoms.view.keys() if np.shares_memory(new.atoms.view[k], system.atoms.view[k])]
        if shared or (_raw_vects(new.box) is not None and np.shares_memory(_raw_vects(new.box), _raw_vects(system.box))):
            ctx.violate('normalize:shares-memory', f'normalized system shares memory with its input: {shared or "box"}',
                        replay)
            continue
        sec = _sections(out)
        mbox = [F(t) for t in sec[0]]
        mpos = _chunks3([F(t) for t in sec[1]])
        mT = [F(t) for t in sec[3]]
        spos = _chunks3([F(t) for t in sec[4]])
        flipped = sec[5] == ['1']
        full = all(case['pbc'])
        ctx.stats.case('norm:' + case.get('kind', case['regime']) + (':full' if full else ':partial'),
                       _line('norm', case), nontrivial=True,
                       sample={'op': 'normalize', 'case': case, 'flipped': flipped})
        # the public function and the method are the same thing
        new2, T2 = am.lammps.normalize(system, return_transform=True)
        if not (np.array_equal(new2.atoms.pos, new.atoms.pos) and np.array_equal(new2.box.vects, new.box.vects)
                and np.array_equal(T2, T)):
            ctx.disagree('norm:entry-points', 'System.normalize and atomman.lammps.normalize differ', replay)
            continue
        pbc = case['pbc']
        # after the rebuild every coordinate is recomputed in floating point: a coordinate the model puts
        # within the bound of an integer is exempt on periodic axes; a partially periodic system whose
        # outermost atom is within the bound of a face has an undecided padding
        exempt, box_exempt = [], False
        for s in spos:
            ex = {k for k in range(3) if pbc[k] and abs(float(s[k] - _nearint(s[k]))) <= TOL * (1 + abs(float(s[k])))}
            exempt.append(ex)
        if not full and _norm_raise_exempt(case, spos):
            box_exempt = True
        ctx.extra['exempt_flags'] = ctx.extra.get('exempt_flags', 0) + sum(len(e) for e in exempt)
        if box_exempt:
            continue
        ibox = list(new.box.vects.ravel()) + list(new.box.origin)
        sc = max(abs(float(b)) for b in mbox)
        if not all(abs(float(a) - float(b)) <= TOL * sc for a, b in zip(ibox, mbox)):
            ctx.disagree('norm:box', f'normalize: new box {[float(x) for x in ibox]}, model {[float(x) for x in mbox]}',
                         replay)
            continue
        if not all(abs(float(a) - float(b)) <= 1e-8 for a, b in zip(T.ravel(), mT)):
            ctx.disagree('norm:transform', f'normalize: transform {T.tolist()}, model {[float(x) for x in mT]}', replay)
            continue
        newinv = _inv([mbox[0:3], mbox[3:6], mbox[6:9]])
        ncase = dict(case, vects=[[float(x) for x in mbox[0:3]], [float(x) for x in mbox[3:6]],
                                  [float(x) for x in mbox[6:9]]], origin=[float(x) for x in mbox[9:12]])
        if not _compare_positions(ncase, 'norm', ctx, new.atoms.view['pos'].tolist(), mpos, spos, exempt, newinv, False):
            continue
        bad = _same_snap(before, _snap(new), skip=('vects', 'origin', 'pos'))
        if bad:
            ctx.disagree('norm:carried', f'normalize did not carry over {bad}', replay)


def _norm_raise_exempt(case, spos=None):
    """partially periodic normalize: is some non-periodic extreme within the bound of a face (of the flipped cell)?"""
    if all(case['pbc']):
        return False
    if spos is None:
        V, o = _fm(case['vects']), _fv(case['origin'])
        if _det(V) < 0:
            o = [a + b for a, b in zip(o, V[2])]
            V = [V[0], V[1], [-x for x in V[2]]]
        Vi = _inv(V)
        spos = [_rel(_fv(p), V, Vi, o) for p in case['pos']]
    for k in range(3):
        if not case['pbc'][k]:
            mn = float(min(s[k] for s in spos))
            mx = float(max(s[k] for s in spos))
            if abs(mn) <= TOL * (1 + abs(mn)) or abs(mx - 1) <= TOL * (1 + abs(mx)):
                return True
    return False


def correspond(ctx):
    rng = ctx.rng
    N = ctx.n(25, 400)
    wrap_cases = []
    for it in range(N):
        for pbc in PBCS:
            wrap_cases.append(_grid_case(rng, pbc))
            if it % 2 == 0:
                wrap_cases.append(_float_case(rng, pbc))
    _corr_wrap(ctx, wrap_cases)
    norm_cases = []
    for it in range(ctx.n(120, 2000)):
        norm_cases.append(_float_case(rng, (True, True, True)))
        if it % 3 == 0:
            norm_cases.append(_grid_case(rng, (True, True, True)))
        if it % 6 == 0:
            # partially periodic: atoms strictly inside along the non-periodic directions (normalize is
            # defined there too), or outside (both sides must fail the orthonormality assertion)
            pbc = rng.choice(PBCS[:7])
            c = _float_case(rng, pbc, far=False, faces=False)
            norm_cases.append(_inside_nonperiodic(rng, c) if rng.random() < 0.7 else c)
    _corr_norm(ctx, norm_cases)


def _inside_nonperiodic(rng, case):
    """move every atom strictly inside along the non-periodic directions (in the flipped cell's terms)."""
    import numpy as np
    V = np.array(case['vects'])
    o = np.array(case['origin'])
    S = np.linalg.solve(V.T, (np.array(case['pos']) - o).T).T
    for k in range(3):
        if not case['pbc'][k]:
            S[:, k] = [rng.uniform(0.05, 0.95) for _ in range(len(S))]
    case['pos'] = (S @ V + o).tolist()
    return _canon_case(case)


# ----------------------------------------------------------------------------------------
# search: the clauses of the property on the real code, exact rational oracle
# ----------------------------------------------------------------------------------------
def _wrap_clauses(ctx, case, report=True):
    """returns the first violated clause (key, text) or None."""
    import numpy as np
    system = _build(case)
    before = _snap(system)
    V, o = _fm(before['vects']), _fv(before['origin'])
    Vi = _inv(V)
    pbc = case['pbc']
    grid = case['regime'] == 'grid'
    old = [_fv(p) for p in before['props']['pos']]
    sold = [_rel(p, V, Vi, o) for p in old]
    nV = _normV(before['vects'])
    omax = max(abs(x) for x in case['origin'])

    def fail(key, what):
        if report:
            ctx.violate(key, what, {'op': 'wrap', 'case': case})
        return key, what

    try:
        flags = np.asarray(system.wrap(return_imageflags=True))
    except Exception as e:  # noqa
        return fail('wrap:raises', f'wrap raised {type(e).__name__}: {e}')
    new = [_fv(p) for p in system.atoms.view['pos']]
    NV, no = _fm(system.box.vects), _fv(system.box.origin)
    if _det(NV) == 0:
        return fail('wrap:box-singular', 'wrap produced a singular cell')
    NVi = _inv(NV)
    for i in range(len(old)):
        smax = max(abs(float(x)) for x in sold[i])
        tol = TOL * (1 + smax) * nV + TOL * omax
        # (1) whole cell vectors along periodic directions only; flags reconstruct the original positions
        for k in range(3):
            if not pbc[k] and int(flags[i, k]) != 0:
                return fail('wrap:flag-nonperiodic', f'atom {i} has image flag {int(flags[i, k])} along non-periodic axis {k}')
        back = [a + b for a, b in zip(new[i], _vm([F(int(f)) for f in flags[i]], V))]
        err = max(abs(float(a - b)) for a, b in zip(back, old[i]))
        if (grid and err != 0) or err > tol:
            return fail('wrap:reconstruct', f'atom {i} (pbc {pbc}): new position + flags·old vectors = '
                        f'{[float(x) for x in back]} but it was at {[float(x) for x in old[i]]} (flags {flags[i].tolist()})')
        # (2) every atom inside the new cell (faces included)
        s = _rel(new[i], NV, NVi, no)
        stol = 0 if grid and all(pbc) else TOL * (1 + smax)
        for k in range(3):
            if float(s[k]) < -stol or float(s[k]) > 1 + stol:
                return fail('wrap:outside', f'atom {i} is outside the cell after wrap (pbc {pbc}): relative coordinate '
                            f'{float(s[k])!r} along axis {k}')
    # (3) periodic cell vectors untouched; non-periodic ones only lengthened; old cell inside the new
    lo = _vm([a - b for a, b in zip(no, o)], Vi)          # new origin in old relative coordinates
    for k in range(3):
        w = _vm(NV[k], Vi)                                 # new vector k in units of the old vectors
        if pbc[k]:
            if not np.array_equal(system.box.vects[k], before['vects'][k]):
                return fail('wrap:periodic-vector-changed', f'periodic cell vector {k} changed from '
                            f'{before["vects"][k].tolist()} to {system.box.vects[k].tolist()}')
            if abs(float(lo[k])) > TOL:
                return fail('wrap:origin-moved-periodic', f'origin moved by {float(lo[k])!r} cell vectors along periodic axis {k}')
        else:
            off = [abs(float(w[j])) for j in range(3) if j != k]
            if max(off) > TOL * max(1.0, abs(float(w[k]))):
                return fail('wrap:vector-turned', f'non-periodic cell vector {k} changed direction: {[float(x) for x in w]}')
            if float(lo[k]) > TOL or float(lo[k] + w[k]) < 1 - TOL:
                return fail('wrap:cell-shrunk', f'old cell not contained in the new one along axis {k}: new cell spans '
                            f'[{float(lo[k])!r}, {float(lo[k] + w[k])!r}] in old relative units')
    bad = _same_snap(before, _snap(system), skip=('vects', 'origin', 'pos'))
    if bad:
        return fail('wrap:carried', f'wrap changed {bad}')
    # (4) wrapping again changes nothing
    snap1 = _snap(system)
    flags2 = np.asarray(system.wrap(return_imageflags=True))
    snap2 = _snap(system)
    near = any(abs(float(x) - round(float(x))) <= TOL * (1 + abs(float(x))) for p in new
               for x in _rel(p, NV, NVi, no))
    if not near or (grid and all(pbc)):
        if flags2.any():
            return fail('wrap:not-idempotent', f'second wrap returns non-zero image flags {flags2.tolist()}')
        sc = max(abs(float(x)) for r in NV for x in r)
        if not (np.allclose(snap1['vects'], snap2['vects'], rtol=0, atol=TOL * sc)
                and np.allclose(snap1['origin'], snap2['origin'], rtol=0, atol=TOL * (sc + omax))
                and np.allclose(snap1['props']['pos'], snap2['props']['pos'], rtol=0,
                                atol=TOL * (1 + max(abs(float(x)) for s in sold for x in s)) * nV + TOL * omax)):
            return fail('wrap:not-idempotent', 'second wrap changes the box or the positions')
    return None


def _min_image_d2(d, V, Vi_np, V_np):
    """exact squared length of the nearest image of separation d (Fractions) under lattice V (fully periodic):
    the minimising image is located in floating point over a provably sufficient range, then evaluated exactly."""
    import numpy as np
    dn = np.array([float(x) for x in d])
    s = dn @ Vi_np
    base = np.round(s)
    L = 0.5 * np.abs(V_np).sum(axis=0)
    L = float(np.linalg.norm(L))
    R = [min(12, int(math.ceil(2 * L * np.linalg.norm(Vi_np[:, k]))) + 1) for k in range(3)]
    rng0 = [np.arange(-r, r + 1) for r in R]
    n = np.stack(np.meshgrid(*rng0, indexing='ij'), axis=-1).reshape(-1, 3) - base
    cand = dn + n @ V_np
    d2 = (cand * cand).sum(axis=1)
    best = n[int(np.argmin(d2))]
    x = [a + b for a, b in zip(d, _vm([F(int(t)) for t in best], V))]
    return sum(c * c for c in x)


def _norm_clauses(ctx, case, report=True):
    import numpy as np
    import atomman as am
    system = _build(case)
    before = _snap(system)

    def fail(key, what):
        if report:
            ctx.violate(key, what, {'op': 'norm', 'case': case})
        return key, what

    try:
        new, T = system.normalize(return_transform=True)
    except Exception as e:  # noqa
        return fail('normalize:raises', f'normalize raised {type(e).__name__}: {e} on a fully periodic system')
    bad = _same_snap(before, _snap(system))
    if bad:
        return fail('normalize:input-modified', f'normalize changed its input: {bad}')
    if any(np.shares_memory(new.atoms.view[k], system.atoms.view[k]) for k in new.atoms.view.keys()):
        return fail('normalize:shares-memory', 'normalized system shares atom data with its input')
    V, o = _fm(before['vects']), _fv(before['origin'])
    left = _det(V) < 0
    if left:                                   # "a left-handed cell first having its third vector reversed"
        o = [a + b for a, b in zip(o, V[2])]
        V = [V[0], V[1], [-x for x in V[2]]]
    Vi = _inv(V)
    N, no = _fm(new.box.vects), _fv(new.box.origin)
    sc = max(abs(float(x)) for r in V for x in r)
    # right-handed LAMMPS-compatible cell
    if not new.box.is_lammps_norm() or not (N[0][1] == 0 and N[0][2] == 0 and N[1][2] == 0 and _det(N) > 0):
        return fail('normalize:not-lammps-normal', f'new cell {new.box.vects.tolist()} is not a right-handed LAMMPS cell')
    # same lengths, angles and volume
    G0, G1 = _gram(V), _gram(N)
    for i in range(3):
        for j in range(3):
            if abs(float(G0[i][j] - G1[i][j])) > TOL * sc * sc * 10:
                return fail('normalize:gram', f'cell vectors {i},{j}: dot product {float(G0[i][j])!r} became {float(G1[i][j])!r} '
                            '(lengths/angles not preserved)')
    if abs(float(_det(N) - abs(_det(V)))) > TOL * 100 * abs(float(_det(V))):
        return fail('normalize:volume', f'volume {float(abs(_det(V)))!r} became {float(_det(N))!r}')
    # returned transformation: proper rotation taking the old (reversed) vectors to the new ones
    Tf = _fm(T)
    TT = _mm(Tf, _tr(Tf))
    if any(abs(float(TT[i][j]) - (1.0 if i == j else 0.0)) > 1e-8 for i in range(3) for j in range(3)) \
            or abs(float(_det(Tf)) - 1) > 1e-8:
        return fail('normalize:transform-not-rotation', f'returned transformation {T.tolist()} is not a proper rotation')
    for i in range(3):
        img = [sum(Tf[r][c] * V[i][c] for c in range(3)) for r in range(3)]
        if any(abs(float(a - b)) > 1e-8 * sc * 10 for a, b in zip(img, N[i])):
            return fail('normalize:transform-wrong', f'T·(old vector {i}) = {[float(x) for x in img]} but the new vector is '
                        f'{[float(x) for x in N[i]]}')
    # every atom inside; relative coordinates kept modulo 1 (so all image distances are kept)
    Ni = _inv(N)
    old = [_fv(p) for p in before['props']['pos']]
    newp = [_fv(p) for p in new.atoms.view['pos']]
    for i in range(len(old)):
        s0 = _rel(old[i], V, Vi, o)
        s1 = _rel(newp[i], N, Ni, no)
        stol = TOL * (1 + max(abs(float(x)) for x in s0)) * 10
        for k in range(3):
            if float(s1[k]) < -stol or float(s1[k]) > 1 + stol:
                return fail('normalize:outside', f'atom {i} is outside the normalized cell: relative coordinate {float(s1[k])!r} '
                            f'along axis {k}')
            dk = s0[k] - s1[k]
            if abs(float(dk - _nearint(dk))) > stol:
                return fail('normalize:moved', f'atom {i}: relative coordinate along axis {k} went from {float(s0[k])!r} to '
                            f'{float(s1[k])!r} (not a whole number of cells)')
    # true nearest-image distances between atoms unchanged (independent of the above: brute force over images)
    n = len(old)
    pairs = [(i, j) for i in range(n) for j in range(i + 1, n)][:10]
    if pairs:
        V0 = _fm(before['vects'])
        V0n, Nn = np.array(before['vects'], dtype=float), np.array(new.box.vects, dtype=float)
        V0i, Nni = np.linalg.inv(V0n), np.linalg.inv(Nn)
        for i, j in pairs:
            d0 = _min_image_d2([a - b for a, b in zip(old[j], old[i])], V0, V0i, V0n)
            d1 = _min_image_d2([a - b for a, b in zip(newp[j], newp[i])], N, Nni, Nn)
            s0 = max(abs(float(x)) for x in _rel(old[i], V, Vi, o) + _rel(old[j], V, Vi, o))
            if abs(float(d0 - d1)) > TOL * 100 * (1 + s0) * sc * sc:
                return fail('normalize:distance', f'nearest-image distance between atoms {i} and {j} changed from '
                            f'{math.sqrt(float(d0))!r} to {math.sqrt(float(d1))!r}')
    bad = _same_snap(before, _snap(new), skip=('vects', 'origin', 'pos'))
    if bad:
        return fail('normalize:carried', f'normalize did not carry over {bad}')
    return None


def search(ctx, broken):
    rng = random.Random(ctx.seed + 17)
    mult = 3 if broken else 1
    for it in range(ctx.n(12, 200) * mult):
        for pbc in PBCS:
            case = _grid_case(rng, pbc) if it % 2 == 0 else _float_case(rng, pbc)
            ctx.stats.case('oracle:wrap', _line('wrap', case))
            _wrap_clauses(ctx, case)
    for it in range(ctx.n(60, 1000) * mult):
        case = _grid_case(rng, (True, True, True)) if it % 4 == 0 else _float_case(rng, (True, True, True))
        ctx.stats.case('oracle:normalize', _line('norm', case))
        _norm_clauses(ctx, case)


def replay(ctx, payload):
    r = payload.get('replay') or {}
    cases = [r] if r.get('case') else [d for d in payload.get('disagreements', []) if d and d.get('case')]
    if not cases:
        search(ctx, True)
        return
    for r in cases:
        case = r['case']
        f = _wrap_clauses if r.get('op') == 'wrap' else _norm_clauses
        res = f(ctx, case)
        print('replay', r.get('op'), 'pbc', case['pbc'], '->', res or 'all clauses hold')
        if ctx.driver is not None:
            (_corr_wrap if r.get('op') == 'wrap' else _corr_norm)(ctx, [case])
            for d in ctx.disagreements:
                print('replay: model/implementation disagree:', d.what)


MANIFEST = {
    'text': 'Lean model of System.wrap / atomman.lammps.normalize (floor, padding, padded box, handedness flip, '
            'rebuild from lengths and cosines, transform) with theorems over every ordered field.',
    'note': 'see docs/C05.md',
    'technique': 'Lean 4 theorems over a hand-written model + differential correspondence + exact clause oracle',
}
